"""C19 — protocol messages mean the same to both ends and framing always terminates."""
import common
from common import Case

TITLE = 'Protocol messages mean the same to both ends and framing always terminates'
LEAN_TARGETS = ['BridgeVerif.Props.C19', 'BridgeVerif.Translated.NetHelpers', 'BridgeVerif.Translated.Messages', 'BridgeVerif.Translated.ThreadsFraming', 'BridgeVerif.Translated.ThreadsClientF', 'BridgeVerif.Translated.ThreadsMainE', 'BridgeVerif.Translated.MsgParsersF', 'BridgeVerif.Translated.ThreadsClientHands']
AUDIT_PROPS = ['C19', 'Translated.NetHelpers', 'Translated.Messages', 'Translated.ThreadsFraming', 'Lemmas.RegexMsgBidA', 'Lemmas.RegexMsgBidC', 'Lemmas.RegexMsgBidD', 'Translated.MsgParsersA', 'Translated.MsgParsersC', 'Translated.MsgParsersD', 'Translated.MsgParsersE', 'Translated.MsgParsersF', 'Lemmas.RegexMsgClient', 'Lemmas.RegexMsgClientB', 'Translated.ClientParsersB', 'Translated.ClientParsersC', 'Translated.ClientParsersD', 'Lemmas.RegexMsgHandA', 'Lemmas.RegexMsgHandB', 'Translated.HandParsersA', 'Translated.HandParsersD', 'Translated.ThreadsClientHands']
REQUIRED = ['Translated.ThreadsFraming.framing_send_translated', 'Translated.ThreadsFraming.framing_recv_translated', 'Translated.ThreadsFraming.framing_recv_bad_terminator', 'Translated.ThreadsFraming.framing_recv_eof', 'Translated.ThreadsFraming.framing_recv_blocked', 'Translated.ThreadsFraming.framing_stream_translated', 'Translated.ThreadsFraming.framing_recv_model',
            'Translated.Messages.bid_message_round_trip', 'Translated.Messages.bid_message_variants', 'Translated.Messages.card_message_round_trip', 'Translated.Messages.board_header_round_trip', 'Translated.Messages.connection_line_read',
            'Translated.NetHelpers.nh_hand_to_str_translated',
            'hand_msg_round_trip', 'bid_msg_round_trip', 'card_msg_round_trip', 'board_header_round_trip',
            'team_names_round_trip', 'connect_round_trip', 'framing_round_trip', 'chunking_irrelevant',
            'reader_stops_at_eof', 'reader_spins_at_eof_old']
KEEP_FIRST = 0
SHARDS = {'quick': 1, 'thorough': 16}
RULE = ('builders and parsers of both ends on: hands of 0..13 cards (voids, every seat name and Dummy), all 38 calls x 4 seats '
        'with random letter case and alert suffixes, all 52 cards x 4 seats x 2 notations x case, board headers (all dealers x '
        'vulnerabilities, numbers up to 10^6), team names over Unicode (incl. the characters re.IGNORECASE folds to ASCII, '
        'embedded " E/W : " fragments; names with quotes as out-of-domain probes), connection requests, lead prompts, the '
        '"ready for" acknowledgements with runs of spaces; malformed variants of each. Framing: random message sequences '
        'received through MessageInterface.receive_message on a fake socket with random chunkings and the stream cut '
        '(end-of-stream) at EVERY byte position, each call under a recv budget so that a spin is observed as SPIN. '
        'distinct = distinct op lines.')
REQUIRED_COUNTERS = {t: ['hand_void', 'bid_alert', 'card_suit_first', 'eof_inside_message', 'eof_after_cr',
                         'eof_between_messages', 'team_unicode'] for t in ('quick', 'thorough')}
TRUSTED = ['each regular expression is replaced by a hand-written scanner with re.match semantics (greedy groups with '
           'backtracking); agreement with `re` is tested on the generated strings only',
           'UTF-8 encode/decode are inverse and never produce byte 0x0D inside a multi-byte sequence']
ASSUMPTIONS = ['socket.recv(1) returns one byte or b"" at end of stream', 'str.lower/upper/capitalize on ASCII']
FORMAL = {'N': 'North', 'E': 'East', 'S': 'South', 'W': 'West'}
RANKS = '23456789TJQKA'


# areas of the pure core whose TRANSLATION (Generated/PyCore.lean) is run next to the real code in this check
TRANSLATED_AREAS = ('net', 'msg', 'regex')

def hx(s):
    b = s if isinstance(s, bytes) else s.encode('utf-8')
    return b.hex() if b else '-'


def cs(cards):
    return ','.join(str(c) for c in sorted(cards)) if cards else '-'


def recase(rng, s):
    mode = rng.randrange(4)
    if mode == 0:
        return s
    if mode == 1:
        return s.upper()
    if mode == 2:
        return s.lower()
    return ''.join(ch.upper() if rng.random() < 0.5 else ch.lower() for ch in s)


def hand_text(hand):
    def f(su):
        r = [RANKS[c % 13] for c in sorted(hand, reverse=True) if c // 13 == su]
        return ' '.join(r) if r else '-'
    return f'S {f(3)}. H {f(2)}. D {f(1)}. C {f(0)}.'


def call_text(c):
    if c == 35:
        return 'passes'
    if c == 36:
        return 'doubles'
    if c == 37:
        return 'redoubles'
    return f'bids {c // 5 + 1}{["C", "D", "H", "S", "NT"][c % 5]}'


def rand_name(rng, ctx):
    pools = ['abcXYZ 09', 'teamNS-_./()\'+#:', 'ſKİıéß漢字😀', ' E/W : ', '  ', 'sS kK iI']
    n = rng.randrange(0, 12)
    s = ''.join(rng.choice(rng.choice(pools)) for _ in range(n))
    if rng.random() < 0.15:
        s += rng.choice([' E/W : ', '. E/W : ', 'Teams : N/S : ', ' as North using protocol version 18'])
    if any(ord(ch) > 127 for ch in s):
        ctx.count('team_unicode')
    return s


def cases(ctx):
    rng = ctx.rng
    q = ctx.quick
    # ---- hands
    ops = []
    for _ in range(150 if q else 1500):
        k = rng.randrange(0, 14)
        hand = rng.sample(range(52), k)
        if rng.random() < 0.4 and k:
            keep = rng.sample(range(4), rng.randrange(1, 4))
            hand = [c for c in hand if c // 13 in keep] or hand
        if len({c // 13 for c in hand}) < 4:
            ctx.count('hand_void')
        name = rng.choice(['North', 'East', 'South', 'West', 'Dummy'])
        txt = hand_text(hand)
        ops += [f'M.hand {cs(hand)}', f'M.cards {hx(name)} {cs(hand)}',
                f'M.parsecards {hx(recase(rng, name) + "\'s cards : " + txt)} {hx(name)}',
                f'M.parsehand {hx(txt)}', f'M.parsehand {hx(recase(rng, txt))}']
        # malformed variants
        bad = rng.choice([txt.replace(' ', '  ', 1), txt[:-1], txt + ' ', txt + '  ', txt.replace('. H', '.H'), txt.replace('A', '10'),
                          txt.replace('K', '1'), txt.replace('-', ''), txt + ' S 2. H 2. D 2. C 2.', txt.replace('S ', 's', 1),
                          txt.replace('. D ', '. D  '), 'x' + txt, txt.replace('2', 'X')])
        ops.append(f'M.parsehand {hx(bad)}')
        ops.append(f'M.parsecards {hx(name + "s cards : " + txt)} {hx(name)}')
    yield Case(ops, {'kind': 'hands'})
    # ---- calls
    ops = []
    for c in range(38):
        for p in 'NESW':
            name = FORMAL[p]
            ops.append(f'M.bidmsg {c} {hx(name)}')
            msg = f'{name} {call_text(c)}'
            for _ in range(2 if q else 6):
                m = recase(rng, msg)
                ops.append(f'M.parsebid {hx(m)} {hx(name)}')
                suffix = rng.choice([' Alert.', ' alert.', '  ALERT. ', '\tAlert.', ' Alert.  ', ' Alert', ' Alert. x', ' Alert. Alert.',
                                     'Alert.', ' Alert . '])
                ctx.count('bid_alert')
                ops.append(f'M.srvbid {hx(m + suffix)} {hx(name)}')
                ops.append(f'M.srvbid {hx(m)} {hx(name)}')
            other = FORMAL[rng.choice([q_ for q_ in 'NESW' if q_ != p])]
            ops.append(f'M.parsebid {hx(msg)} {hx(other)}')
    for lvl in '0189':
        for den in ['C', 'NT', 'N', 'X', '']:
            ops.append(f'M.parsebid {hx("North bids " + lvl + den)} {hx("North")}')
    for m in ['North  passes', 'North passes ', 'North passes.', 'Northpasses', 'North bids 1C extra', 'North bids  1C', 'North bids 1',
              'North bids', 'North ', 'North', '', 'North pass', 'North bids 1NTX', 'north BIDS 7nt', 'North Passes\nx', 'North redoubles!']:
        ops.append(f'M.parsebid {hx(m)} {hx("North")}')
        ops.append(f'M.srvbid {hx(m)} {hx("North")}')
    for m in ['a Alert. b', 'Alert.', ' Alert.', 'x \t Alert.\n y', 'a Alert.Alert. b', 'a  Alert.  Alert.  b', 'a Alert b', ' alert.x alert. ']:
        ops.append(f'M.alert {hx(m)}')
    yield Case(ops, {'kind': 'calls'})
    # ---- cards
    ops = []
    for c in range(52):
        ops.append(f'M.cardstr {c}')
        for p in 'NESW':
            for sf in (0, 1):
                ops.append(f'M.playmsg {p} {c} {sf}')
                su, rk = 'CDHS'[c // 13], RANKS[c % 13]
                txt = f'{FORMAL[p]} plays ' + (su + rk if sf else rk + su)
                if sf:
                    ctx.count('card_suit_first')
                ops.append(f'M.parsecard {hx(recase(rng, txt))} {p}')
            if rng.random() < 0.3:
                ops.append(f'M.parsecard {hx(txt + rng.choice([" ", "x", ".", "  now"]))} {p}')
                ops.append(f'M.parsecard {hx(txt)} {rng.choice([q_ for q_ in "NESW" if q_ != p])}')
    for m in ['North plays ', 'North plays A', 'North plays 1S', 'North plays AN', 'North plays SS', 'North plays 10S', 'North plays S10',
              'North plays  AS', 'Northplays AS', 'North plays as', 'North plays sA', 'North plays NT', 'North plays 2c\nx', 'North play AS']:
        ops.append(f'M.parsecard {hx(m)} N')
    yield Case(ops, {'kind': 'cards'})
    # ---- headers, lead prompts, check messages
    ops = []
    for d in 'NESW':
        for v in ['None', 'NS', 'EW', 'Both']:
            for n in [1, 2, 9, 10, 16, 100, rng.randrange(1, 10 ** 6)]:
                ops.append(f'M.header {n} {d} {v}')
                vw = {'None': 'Neither', 'NS': 'N/S', 'EW': 'E/W', 'Both': 'Both'}[v]
                ops.append(f'M.parseboard {hx(f"Board number {n}. Dealer {FORMAL[d]}. {vw} vulnerable.")}')
    for v in ['None', 'NS', 'EW', 'Both']:
        ops.append(f'M.vul {v}')
    for m in ['Board number 1. Dealer north. Neither vulnerable.', 'board NUMBER 1. dealer North. Neither VULNERABLE.',
              'Board number 1. Dealer North. neither vulnerable.', 'Board number 1. Dealer North. None vulnerable.',
              'Board number . Dealer North. Both vulnerable.', 'Board number 1 Dealer North. Both vulnerable.',
              'Board number 1. Dealer North. Both vulnerable', 'Board number 1. Dealer North. Both vulnerable. extra',
              'Board number 1. Dealer North. East. Both vulnerable.', 'Board number 1. Dealer North. N/S vulnerable. E/W vulnerable.',
              'Board number 01. Dealer West. E/W vulnerable.', 'Board number 1.  Dealer West. E/W vulnerable.', '']:
        ops.append(f'M.parseboard {hx(m)}')
    for w in ['-', 'N', 'E', 'S', 'W']:
        ops.append(f'M.lead {w}')
    for m in ['North to lead', 'Dummy to lead', 'dummy to lead', 'DUMMY TO LEAD', 'north to lead', 'North to lead now', 'North  to lead',
              'East to lead to lead', ' to lead', 'to lead', 'West to Lead']:
        for d in 'NS':
            ops.append(f'M.parseleader {hx(m)} {d}')
    exp = ['North ready for teams', 'East ready to start', 'South ready for deal', 'West ready for cards', "North ready for East's bid",
           "East ready for dummy's card to trick 13", 'South ready for dummy']
    for e in exp:
        for r in [e, e.upper(), e.lower(), e.replace(' ', '  '), e.replace(' ', ' \t '), e + ' ', ' ' + e, e[:-1], e + '.', e.replace(' ', '', 1),
                  e.replace(' ', '\n', 1)]:
            ops.append(f'M.check {hx(e)} {hx(r)}')
    yield Case(ops, {'kind': 'headers-prompts'})
    # ---- team names / connect
    ops = []
    for _ in range(200 if q else 3000):
        a, b = rand_name(rng, ctx), rand_name(rng, ctx)
        ops.append(f'M.teams {hx(a)} {hx(b)}')
        ops.append(f'M.parseteams {hx("Teams : N/S : " + chr(34) + a + chr(34) + " E/W : " + chr(34) + b + chr(34))}')
        ops.append(f'M.parseteams {hx(recase(rng, "Teams : N/S : ") + chr(34) + a + chr(34) + ". E/W : " + chr(34) + b + chr(34))}')
        seat = recase(rng, rng.choice(['North', 'East', 'South', 'West']))
        ver = rng.choice([18, 18, 18, 17, 1, 180, 0, 7])
        ops.append(f'M.connect {hx(a)} {hx(seat)} {ver}')
        ops.append(f'M.parseconnect {hx(recase(rng, "Connecting ") + chr(34) + a + chr(34) + " as " + seat + " using protocol version " + str(ver))}')
    # out-of-domain probes: names with quotes, malformed requests
    for a, b in [('a"b', 'c'), ('a', 'b"c'), ('a" E/W : "x', 'b'), ('', ''), ('"', '"'), ('a', 'b" E/W : "c')]:
        ops.append(f'M.parseteams {hx("Teams : N/S : " + chr(34) + a + chr(34) + " E/W : " + chr(34) + b + chr(34))}')
    for m in ['Teams : N/S : "a" E/W : "b', 'Teams : N/S : "a"  E/W : "b"', 'Teams : N/S : "a"xy E/W : "b"', 'Teams: N/S : "a" E/W : "b"',
              'Connecting "t" as North using protocol version', 'Connecting "t" as North using protocol version 18 please',
              'Connecting "t" as Nord using protocol version 18', 'Connecting t as North using protocol version 18',
              'Connecting "t"  as North using protocol version 18', 'Connecting "a" as b" as East using protocol version 18',
              'Connecting "t" as North using protocol version 18 using protocol version 19', 'connecting "T" AS nORTH USING PROTOCOL VERSION 018']:
        ops.append(f'M.parseteams {hx(m)}')
        ops.append(f'M.parseconnect {hx(m)}')
    yield Case(ops, {'kind': 'names'})
    # ---- framing
    for _ in range(25 if q else 300):
        k = rng.randrange(1, 5)
        msgs = []
        for _ in range(k):
            n = rng.randrange(0, 9)
            msgs.append(''.join(rng.choice('ab \n"é漢😀.') for _ in range(n)))
        stream = b''.join(m.encode('utf-8') + b'\r\n' for m in msgs)
        ops = [f'F.encode {hx(m)}' for m in msgs]
        # the stream cut at every byte position, with a random chunking each time
        bounds = set()
        pos = 0
        for m in msgs:
            pos += len(m.encode('utf-8'))
            bounds.add(pos + 1)      # after CR
            pos += 2
            bounds.add(pos)          # between messages
        for cut in range(len(stream) + 1):
            part = stream[:cut]
            if cut in bounds:
                ctx.count('eof_after_cr' if (cut and part[-1:] == b'\r') else 'eof_between_messages')
            else:
                ctx.count('eof_inside_message')
            chunks, i = [], 0
            while i < len(part):
                n = rng.choice([1, 1, 2, 3, 7, 50])
                chunks.append(n)
                i += n
            ops.append(f'F.feed {hx(part)} {",".join(map(str, chunks)) or "-"}')
        yield Case(ops, {'kind': 'framing', 'messages': len(msgs)})
    # lone CR / CR + other byte
    ops = [f'F.feed {hx(s)} -' for s in [b'a\rb\r\n', b'\r', b'\r\r\n', b'a\r\n\r', b'\n\r\n', b'\r\nx', b'']]
    yield Case(ops, {'kind': 'framing-malformed'})


class FakeSock:
    """recv(n) over a byte string delivered in chunks; b'' at end of stream; budgeted"""

    def __init__(self, data, chunks):
        self.parts = []
        i = 0
        for n in chunks:
            self.parts.append(data[i:i + n])
            i += n
        if i < len(data):
            self.parts.append(data[i:])
        self.parts = [p for p in self.parts if p]
        self.calls = 0
        self.budget = 4 * len(data) + 50

    def recv(self, n):
        self.calls += 1
        if self.calls > self.budget:
            raise Spin()
        if not self.parts:
            return b''
        p = self.parts[0]
        out, rest = p[:n], p[n:]
        if rest:
            self.parts[0] = rest
        else:
            self.parts.pop(0)
        return out

    def sendall(self, b):
        self.sent = getattr(self, 'sent', b'') + b


class Spin(BaseException):
    pass


def impl_exec(ops):
    import session  # noqa: F401 — installs the deterministic scheduler BEFORE bridge_env.network_bridge is imported (the
    # session oracle of extra_checks runs the real threads); done here, in the worker, never in the parent of a process pool
    from bridge_env import Bid, Card, Player, Vul
    from bridge_env.network_bridge.client import Client
    from bridge_env.network_bridge.server import PlayerThread, Server
    from bridge_env.network_bridge.socket_interface import MessageInterface
    vmap = {'None': Vul.NONE, 'NS': Vul.NS, 'EW': Vul.EW, 'Both': Vul.BOTH}

    def un(x):
        return '' if x == '-' else bytes.fromhex(x).decode('utf-8')

    def cards(s):
        return set() if s == '-' else {Card.int_to_card(int(x)) for x in s.split(',')}
    out = []
    for op in ops:
        t = op.split()
        k = t[0]
        try:
            if k == 'M.hand':
                r = hx(Server.hand_to_str(cards(t[1])))
            elif k == 'M.cards':
                r = hx(f"{un(t[1])}'s cards : {Server.hand_to_str(cards(t[2]))}")
            elif k == 'M.parsecards':
                r = hx(Client.parse_cards(un(t[1]), un(t[2])))
            elif k == 'M.parsehand':
                s, tup = Client.parse_hand(un(t[1]))
                assert [i for i, v in enumerate(tup) if v == 1] == sorted(int(c) for c in s) and len(tup) == 52
                r = cs([int(c) for c in s])
            elif k == 'M.bidmsg':
                r = hx(Client.create_bid_message(Bid.int_to_bid(int(t[1])), un(t[2])))
            elif k == 'M.parsebid':
                r = str(MessageInterface.parse_bid(un(t[1]), un(t[2])).idx)
            elif k == 'M.srvbid':
                m = un(t[1])
                if 'alert' in m.lower():
                    m = Server.remove_alert_word(m)
                try:
                    b = str(MessageInterface.parse_bid(m, un(t[2])).idx)
                except Exception:
                    b = 'ERR'
                r = f'{b} {hx(m)}'
            elif k == 'M.alert':
                r = hx(Server.remove_alert_word(un(t[1])))
            elif k == 'M.cardstr':
                r = hx(Client.card_str(Card.int_to_card(int(t[1]))))
            elif k == 'M.playmsg':
                c = Card.int_to_card(int(t[2]))
                r = hx(f'{Player[t[1]].formal_name} plays ' + (str(c) if t[3] == '1' else Client.card_str(c)))
            elif k == 'M.parsecard':
                r = str(int(MessageInterface.parse_card(un(t[1]), Player[t[2]])))
            elif k == 'M.header':
                r = hx(f'Board number {int(t[1])}. Dealer {Player[t[2]].formal_name}. {Server.convert_vul(vmap[t[3]])} vulnerable.')
            elif k == 'M.parseboard':
                n, d, v = Client.parse_board(un(t[1]))
                r = f'{n} {d.name} {v}'
            elif k == 'M.teams':
                r = hx(f'Teams : N/S : "{un(t[1])}" E/W : "{un(t[2])}"')
            elif k == 'M.parseteams':
                a, b = Client.parse_team_names(un(t[1]))
                r = f'{hx(a)} {hx(b)}'
            elif k == 'M.connect':
                r = hx(f'Connecting "{un(t[1])}" as {un(t[2])} using protocol version {int(t[3])}')
            elif k == 'M.parseconnect':
                tm, p, v = PlayerThread.parse_connection_info(un(t[1]))
                r = f'{hx(tm)} {p.name} {v}'
            elif k == 'M.parseleader':
                r = Client.parse_leader_message(un(t[1]), Player[t[2]]).name
            elif k == 'M.lead':
                r = hx(('Dummy' if t[1] == '-' else Player[t[1]].formal_name) + ' to lead')
            elif k == 'M.check':
                import re
                pattern = un(t[1]).replace(' ', r'\s+')
                r = '1' if re.fullmatch(pattern, un(t[2]), re.IGNORECASE) is not None else '0'
            elif k == 'M.vul':
                r = hx(Server.convert_vul(vmap[t[1]]))
            elif k == 'F.encode':
                fs = FakeSock(b'', [])
                MessageInterface(fs).send_message(un(t[1]))
                r = fs.sent.hex()
            elif k == 'F.feed':
                data = b'' if t[1] == '-' else bytes.fromhex(t[1])
                chunks = [] if len(t) < 3 or t[2] == '-' else [int(x) for x in t[2].split(',')]
                fs = FakeSock(data, chunks)
                mi = MessageInterface(fs)
                got, end = [], None
                while end is None:
                    try:
                        got.append(hx(mi.receive_message()))
                    except Spin:
                        end = 'SPIN'
                    except Exception:
                        end = 'ERR'
                r = ','.join(got) + ' ' + end
            else:
                r = 'bad-op'
        except Exception:
            r = 'ERR'
        out.append(r)
    return out


def classify(ops, exp, got):
    i = common.first_diff(exp, got)
    if i is None:
        return 'msg:none'
    if ops[i].startswith('F.feed') and got[i].endswith('SPIN'):
        return 'framing:eof-spin'
    return 'msg:' + ops[i].split()[0]


# builder outputs are intermediate representations: the property constrains them only through what the other end's
# parser makes of them (round trips below)
CORRESPONDENCE_ONLY_OPS = ('M.hand', 'M.cards', 'M.bidmsg', 'M.cardstr', 'M.playmsg', 'M.header', 'M.teams', 'M.connect',
                           'M.lead', 'M.alert')


def extra_checks(ctx):
    import session  # noqa: F401 — see impl_exec
    """independent oracle (no model involved): what one end builds, the other end's parser reads back as the original value"""
    import random
    from bridge_env import Bid, Card, Hands, Player, Vul
    from bridge_env.network_bridge.client import Client
    from bridge_env.network_bridge.server import Server
    from bridge_env.network_bridge.socket_interface import MessageInterface
    rng = random.Random(f'C19-oracle/{ctx.seed}/{ctx.shard}')
    fails = []

    def fail(key, detail):
        if len(fails) < 6:
            fails.append({'key': key, 'kind': 'counterexample', 'diff': detail})
    P = list(Player)
    # hands: every void pattern x sizes, every seat name and Dummy
    for _ in range(150 if ctx.quick else 3000):
        suits = [s for s in range(4) if rng.random() < 0.7]
        pool = [c for c in range(52) if c // 13 in suits]
        hand = set(rng.sample(pool, min(len(pool), rng.choice([0, 1, 5, 13, 13, 13])))) if pool else set()
        name = rng.choice(['North', 'East', 'South', 'West', 'Dummy'])
        ctx.count('_evals')
        ctx.count('oracle_hands')
        try:
            text = f"{name}'s cards : {Server.hand_to_str({Card.int_to_card(c) for c in hand})}"
            got, tup = Client.parse_hand(Client.parse_cards(text, name))
            ok = {int(c) for c in got} == hand and [i for i, v in enumerate(tup) if v == 1] == sorted(hand)
        except Exception as e:
            ok, got = False, repr(e)
        if not ok:
            fail('hand-round-trip', {'hand': sorted(hand), 'name': name, 'got': str(got)[:200]})
    # calls: all 38 x 4 seats, any case, alert suffix
    for c in range(38):
        for p in P:
            bid = Bid.int_to_bid(c)
            text = Client.create_bid_message(bid, p.formal_name)
            variants = [text, text.upper(), text.lower(), recase(rng, text)]
            variants += [Server.remove_alert_word(v + rng.choice([' Alert.', ' alert.', '  ALERT. ', ' Alert.  '])) for v in variants[:2]]
            for v in variants:
                ctx.count('_evals')
                try:
                    ok = MessageInterface.parse_bid(v, p.formal_name) is bid
                except Exception:
                    ok = False
                if not ok:
                    fail('call-round-trip', {'call': c, 'seat': p.name, 'text': v})
    # cards: 52 x 4 seats x both notations x case
    for c in range(52):
        card = Card.int_to_card(c)
        for p in P:
            for body in (Client.card_str(card), str(card)):
                text = f'{p.formal_name} plays {body}'
                for v in (text, text.upper(), text.lower()):
                    ctx.count('_evals')
                    try:
                        ok = MessageInterface.parse_card(v, p) == card
                    except Exception:
                        ok = False
                    if not ok:
                        fail('card-round-trip', {'card': c, 'seat': p.name, 'text': v})
    # board header and own-cards messages exactly as Server.deal queues them
    class NoBarrier:
        def wait(self):
            return 0
    for _ in range(20 if ctx.quick else 300):
        n = rng.choice([1, 2, 9, 10, 16, 99, 100, 12345])
        dealer, vul = rng.choice(P), rng.choice(list(Vul))
        deck = list(range(52))
        rng.shuffle(deck)
        hands = Hands(*[{Card.int_to_card(c) for c in deck[i * 13:(i + 1) * 13]} for i in range(4)])
        ctx.count('_evals')
        ctx.count('oracle_headers')
        try:
            import pathlib
            srv = Server('127.0.0.1', 0, pathlib.Path('unused.json'), [])
            srv.deal(n, dealer, vul, hands, NoBarrier())
            for p in P:
                header = srv.sent_message_queues[p].get_nowait()
                own = srv.sent_message_queues[p].get_nowait()
                if Client.parse_board(header) != (n, dealer, vul):
                    fail('header-round-trip', {'header': header, 'want': [n, dealer.name, str(vul)]})
                got, _ = Client.parse_hand(Client.parse_cards(own, p.formal_name))
                if got != hands[p]:
                    fail('own-cards-round-trip', {'seat': p.name, 'text': own})
        except Exception as e:
            fail('header-round-trip', {'error': repr(e)})
    # the TRANSLATED receive_message (Generated/PyCoreThreads.lean, class Framing: the source's loop over recv(1), through
    # desugar_threads.py and translate_py.py) next to the real method: streams of messages, cut anywhere (peer closes),
    # damaged terminators, non-ASCII texts; a difference is a broken correspondence of the translation, not a violation
    import thread_check as TC
    import common
    driver = common.ModelDriver()
    alphabet = 'abcXYZ 019.:\'"-é♠\t\n'
    fcases = [(list('abc\r\nxy\r\n'), True, 3), (list('abc\rx'), True, 2), (list('ab'), False, 1), (list('\r\n\r\n'), True, 3),
              (list('a\r'), True, 1), (list('a\r'), False, 1), (list(''), True, 1), (list('North bids 1NT\r\n'), False, 2)]
    for _ in range(60 if ctx.quick else 1500):
        msgs = [''.join(rng.choice(alphabet) for _ in range(rng.choice([0, 1, 3, 12, 40]))) for _ in range(rng.choice([1, 2, 3]))]
        text = ''.join(m + rng.choice(['\r\n'] * 8 + ['\r', '\n', '\rx']) for m in msgs)
        cut = rng.randrange(len(text) + 1) if rng.random() < 0.5 else len(text)
        fcases.append((list(text[:cut]), rng.random() < 0.7, len(msgs) + 1))
    for d in TC.check_framing(common.REPO, driver, fcases):
        if len(fails) < 6:
            fails.append({'key': 'translated-framing', 'kind': 'broken-correspondence', 'diff': d})
    # both ENDS in one session: scripted seats alert their calls (also passes, doubles, redoubles) and use either card notation
    # and any letter case; the real bundled Client at the other seats must understand what the table manager relays to it
    import pC11
    for i in range(2 if ctx.quick else 10):
        for f in pC11.bundled_session(ctx, rng, kind='mixed'):
            if len(fails) < 6:
                fails.append(dict(f, key='session:' + str(f.get('key')), replay_with='./check C11 --replay'))
    ctx.count('translated_framing_streams', len(fcases))
    ctx.count('_evals', len(fcases))
    return fails
