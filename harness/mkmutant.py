"""mkmutant.py <out.patch> <file> <old> <new> [<file> <old> <new> ...] — build a patch by string replacement
in a scratch worktree of /repo (removed afterwards)."""
import subprocess, sys, tempfile, os, shutil
out = os.path.abspath(sys.argv[1]); args = sys.argv[2:]
d = tempfile.mkdtemp(prefix='mk-', dir='/tmp')
w = os.path.join(d, 'repo')
subprocess.check_call(['git', '-C', '/repo', 'worktree', 'add', '--detach', w, 'HEAD'],
                      stdout=subprocess.DEVNULL, stderr=subprocess.DEVNULL)
try:
    for i in range(0, len(args), 3):
        f, old, new = args[i:i + 3]
        p = os.path.join(w, f); s = open(p).read()
        assert s.count(old) == 1, (f, old, s.count(old))
        open(p, 'w').write(s.replace(old, new))
    diff = subprocess.check_output(['git', '-C', w, 'diff'], text=True)
    open(out, 'w').write(diff)
    print(diff)
finally:
    subprocess.call(['git', '-C', '/repo', 'worktree', 'remove', '--force', w]); shutil.rmtree(d, ignore_errors=True)
