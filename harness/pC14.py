"""C14 — every deal survives every encoding round trip."""
import common
from common import Case

TITLE = 'Every deal survives every encoding round trip'
LEAN_TARGETS = ['BridgeVerif.Props.C14', 'BridgeVerif.Translated.Hands', 'BridgeVerif.Lemmas.RegexHands', 'BridgeVerif.Translated.HandsPbnClosed', 'BridgeVerif.Props.Regex']
AUDIT_PROPS = ['C14', 'Translated.Hands', 'Lemmas.RegexHands', 'Translated.HandsPbn', 'Translated.HandsPbnClosed', 'Regex']
REQUIRED = ['Lemmas.RegexHands.handsRegexFacts', 'Translated.HandsPbnClosed.hp_pbn_round_trip_closed', 'Translated.HandsPbnClosed.hp_convert_pbn_closed', 'Regex.hands_patterns_are_the_translated_constants',
            'Translated.Hands.hands_getitem_translated', 'Translated.Hands.hands_to_binary_translated', 'Translated.Hands.hands_convert_binary_translated', 'Translated.Hands.hands_binary_round_trip_translated', 'Translated.Hands.hands_convert_hand_to_pbn_translated_cases', 'Translated.Hands.hands_to_pbn_translated_cases',
            'pbn_round_trip', 'pbn_canonical', 'binary_round_trip', 'np_binary_round_trip', 'json_round_trip',
            'json_cards_ascending', 'random_deal_is_partition']
KEEP_FIRST = 0
SHARDS = {'quick': 1, 'thorough': 16}
RULE = ('deals by seeded permutation incl. forced voids and 7-13 card suits, partial deals with every subset of seats empty, '
        'all 4 first seats: to_pbn string compared literally, convert_pbn of it and of malformed / adversarial strings '
        '(wrong first seat, 15/17-char fields, foreign characters, fewer than three dots so that the regex backtracks, '
        'trailing text), to_binary / to_np_binary vectors, convert_binary / convert_np_binary on vectors incl. overlapping '
        'ones and entries other than 0/1, convert_deal / hands_parser, generate_random_hands under a patched random.shuffle. '
        'distinct = distinct op lines.')
REQUIRED_COUNTERS = {t: ['void', 'long_suit', 'partial_deal', 'malformed_pbn', 'backtracking_field', 'overlap_vectors']
                     for t in ('quick', 'thorough')}
TRUSTED = ['the MiniPy semantics (Model/MiniPy.lean: value semantics, no aliasing) and the code translator (harness/translate_py.py), validated on every run by executing the translated program next to the real code (counters translated_*)',
           're.match on DEAL_PATTERN / HAND_PATTERN: the hand-written scanners of Model/Hands.lean are PROVED equal, on every subject string (HAND_PATTERN: without a line feed), to the generic regex engine of Model/Regex.lean on the pattern texts of the source (Lemmas/RegexHands.lean, Props/Regex.lean); what remains assumed is that this engine is CPython\'s re on the subset (differential-tested on every C19 run)',
           'random.shuffle is a parameter: the theorem is for every permutation of the pack']
ASSUMPTIONS = ['CPython sorted / set / str.join', 'numpy zeros / fancy index assignment / where on 52-vectors']
SEATS = 'NESW'
RANKS = '23456789TJQKA'


# areas of the pure core whose TRANSLATION (Generated/PyCore.lean) is run next to the real code in this check
TRANSLATED_AREAS = ('hands', 'msg')

def cs(cards):
    return ','.join(str(c) for c in sorted(cards)) if cards else '-'


def hx(s):
    return s.encode('utf-8').hex() if s else '-'


def gen_deal(ctx, rng):
    deck = list(range(52))
    rng.shuffle(deck)
    mode = rng.random()
    if mode < 0.35:
        # forced void / long suit: sort a prefix by suit
        k = rng.choice([13, 20, 26])
        su = rng.randrange(4)
        deck.sort(key=lambda c: (c // 13 != su, rng.random()))
        head, tail = deck[:k], deck[k:]
        rng.shuffle(tail)
        deck = head + tail
    hands = [deck[i * 13:(i + 1) * 13] for i in range(4)]
    rng.shuffle(hands)
    for h in hands:
        lens = [sum(1 for c in h if c // 13 == s) for s in range(4)]
        if 0 in lens:
            ctx.count('void')
        if max(lens) >= 7:
            ctx.count('long_suit')
    if rng.random() < 0.3:
        empty = rng.sample(range(4), rng.randrange(1, 5))
        for e in empty:
            hands[e] = []
        ctx.count('partial_deal')
    return hands


def pbn_of(hands, first):
    def hand(h):
        if not h:
            return '-'
        return '.'.join(''.join(RANKS[c % 13] for c in sorted(h, reverse=True) if c // 13 == s) for s in (3, 2, 1, 0))
    i = SEATS.index(first)
    return first + ':' + ' '.join(hand(hands[(i + k) % 4]) for k in range(4))


# every op is a call of a function whose result must not depend on earlier calls: also evaluated in other orders
PURE_OPS = True


def cases(ctx):
    rng = ctx.rng
    n = 250 if ctx.quick else 2500
    for _ in range(n):
        hands = gen_deal(ctx, rng)
        hs = ' '.join(cs(h) for h in hands)
        ops = [f'H.bin {hs}', f'H.json {hs}']
        for f in SEATS:
            ops.append(f'H.pbn {f} {hs}')
            ops.append(f'H.parse {hx(pbn_of(hands, f))}')
        # decode the vectors the encoders produce (model side recomputes them; both sides get the same text)
        vec = [''.join('1' if i in h else '0' for i in range(52)) for h in hands]
        ops.append('H.unbin ' + ' '.join(vec))
        ops.append('H.unnp ' + ' '.join(vec))
        js = [hx(','.join('CDHS'[c // 13] + RANKS[c % 13] for c in sorted(h))) for h in hands]
        ops.append('H.unjson ' + ' '.join(js))
        yield Case(ops, {'kind': 'deal'})
    # wrong-size hands: to_pbn must fail its assertion, the other encoders still work
    for _ in range(20 if ctx.quick else 100):
        deck = rng.sample(range(52), 52)
        cuts = sorted(rng.sample(range(53), 3))
        hands = [deck[:cuts[0]], deck[cuts[0]:cuts[1]], deck[cuts[1]:cuts[2]], deck[cuts[2]:]]
        hs = ' '.join(cs(h) for h in hands)
        ctx.count('odd_sizes')
        yield Case([f'H.pbn N {hs}', f'H.bin {hs}', f'H.json {hs}'], {'kind': 'odd-sizes'})
    # malformed / adversarial PBN strings
    ops = []
    base = pbn_of(gen_deal(ctx, rng)[:4], 'N')
    for _ in range(150 if ctx.quick else 1500):
        hands = gen_deal(ctx, rng)
        s = pbn_of(hands, rng.choice(SEATS))
        k = rng.randrange(9)
        if k == 0:
            s = rng.choice('XnQ1') + s[1:]
        elif k == 1:
            i = rng.randrange(2, len(s))
            s = s[:i] + s[i + 1:]
        elif k == 2:
            i = rng.randrange(2, len(s))
            s = s[:i] + rng.choice('AK2.') + s[i:]
        elif k == 3:
            i = rng.randrange(2, len(s))
            s = s[:i] + rng.choice('xX1 -:') + s[i + 1:]
        elif k == 4:
            s = s + rng.choice([' ', ' extra', 'A', '.', '\n'])
        elif k == 5:
            s = s.replace(' ', '  ', 1)
        elif k == 6:
            # a 16-char field with fewer than three dots: the regex backtracks
            f = ''.join(rng.choice(RANKS + '.') if rng.random() < 0.15 else rng.choice(RANKS) for _ in range(16))
            parts = s.split(' ')
            j = rng.randrange(4)
            if j == 0:
                parts[0] = parts[0][:2] + f
            else:
                parts[j] = f
            s = ' '.join(parts)
            ctx.count('backtracking_field')
        elif k == 7:
            s = s.lower()
        else:
            s = s[2:]
        ctx.count('malformed_pbn')
        ops.append(f'H.parse {hx(s)}')
    for s in ['', 'N:', 'N:- - - -', 'N:- - -', 'N:- - - - -', 'N:-  - - -', 'E:- - - -x', 'N-:- - - -']:
        ops.append(f'H.parse {hx(s)}')
    yield Case(ops, {'kind': 'malformed-pbn'})
    # vectors that overlap / contain other values
    ops = []
    for _ in range(60 if ctx.quick else 600):
        vec = [''.join(rng.choice('0001112') for _ in range(52)) for _ in range(4)]
        ctx.count('overlap_vectors')
        ops.append('H.unbin ' + ' '.join(vec))
        ops.append('H.unnp ' + ' '.join(vec))
    yield Case(ops, {'kind': 'vectors'})
    # JSON card lists: duplicates, bad cards
    ops = []
    for _ in range(40 if ctx.quick else 300):
        lists = []
        for _ in range(4):
            items = ['CDHS'[c // 13] + RANKS[c % 13] for c in rng.sample(range(52), rng.randrange(0, 14))]
            if rng.random() < 0.3 and items:
                items.append(rng.choice(items))
            if rng.random() < 0.15:
                items.append(rng.choice(['C1', 'X2', 'NT', 'C10', 's2', '']))
            lists.append(hx(','.join(items)) if items != [''] else hx(','))
        ctx.count('json_lists')
        ops.append('H.unjson ' + ' '.join(lists))
    yield Case(ops, {'kind': 'json'})
    # the random dealer under a chosen permutation
    ops = []
    for _ in range(40 if ctx.quick else 400):
        perm = list(range(52))
        rng.shuffle(perm)
        ctx.count('random_dealer')
        ops.append('H.deal ' + ','.join(map(str, perm)))
    ops.append('H.deal ' + ','.join(map(str, range(52))))
    yield Case(ops, {'kind': 'dealer'})


def impl_exec(ops):
    import random
    import numpy as np
    from bridge_env import Card, Hands, Player
    from bridge_env.data_handler.json_handler.parser import hands_parser
    from bridge_env.data_handler.json_handler.writer import convert_deal
    P = [Player.N, Player.E, Player.S, Player.W]

    def cards(s):
        return set() if s == '-' else {Card.int_to_card(int(x)) for x in s.split(',')}

    def un(x):
        return '' if x == '-' else bytes.fromhex(x).decode('utf-8')

    def show(h):
        return ' '.join(f'{p.name}={cs([int(c) for c in h[p]])}' for p in P)
    out = []
    for op in ops:
        t = op.split()
        try:
            if t[0] == 'H.pbn':
                h = Hands(*[cards(x) for x in t[2:6]])
                r = hx(h.to_pbn(Player[t[1]]))
            elif t[0] == 'H.parse':
                hh = Hands.convert_pbn(un(t[1]))
                r = show(hh)
                # the caller owns what a decoder returns: it is USED (played out in place) here, so that a decoder which
                # hands the same mutable sets out twice (a cache) shows when the same text is decoded again
                for p_ in P:
                    hh[p_].clear()
            elif t[0] == 'H.bin':
                h = Hands(*[cards(x) for x in t[1:5]])
                b = h.to_binary()
                nb = h.to_np_binary()
                for p in P:
                    assert len(b[p]) == 52 and all(v in (0, 1) for v in b[p])
                    assert nb[p].shape == (52,) and [int(v) for v in nb[p]] == list(b[p]), 'np/tuple disagree'
                # the dtype parameter is public: every element type must give the same vectors, four separate arrays,
                # and decode back to the hands
                for dt in (np.int8, np.uint8, np.int64, np.float32, bool):
                    nd = h.to_np_binary(dtype=dt)
                    for p in P:
                        assert nd[p].dtype == np.dtype(dt) and [int(v) for v in nd[p]] == list(b[p]), f'np vector differs for dtype {dt}'
                    assert len({id(nd[p]) for p in P}) == 4, 'seats share one array'
                    back = Hands.convert_np_binary(nd)
                    assert all({int(c) for c in back[p]} == {int(c) for c in h[p]} for p in P), f'np round trip fails for dtype {dt}'
                r = ' '.join(''.join(str(v) for v in b[p]) for p in P)
            elif t[0] == 'H.unbin':
                r = show(Hands.convert_binary({p: tuple(int(ch) for ch in v) for p, v in zip(P, t[1:5])}))
            elif t[0] == 'H.unnp':
                r = show(Hands.convert_np_binary({p: np.array([int(ch) for ch in v]) for p, v in zip(P, t[1:5])}))
            elif t[0] == 'H.json':
                h = Hands(*[cards(x) for x in t[1:5]])
                d = convert_deal(h)
                assert list(d.keys()) == ['N', 'E', 'S', 'W']
                r = ' '.join((','.join(d[k]) or '-') for k in 'NESW')
            elif t[0] == 'H.unjson':
                lists = []
                for x in t[1:5]:
                    s = un(x)
                    lists.append([] if s == '' else s.split(','))
                hh = hands_parser(dict(zip('NESW', lists)))
                r = show(hh)
                for p_ in P:
                    hh[p_].clear()
            elif t[0] == 'H.deal':
                perm = [int(x) for x in t[1].split(',')]
                orig = random.shuffle

                def fake(lst):
                    lst[:] = [lst[i] for i in perm]
                random.shuffle = fake
                try:
                    r = show(Hands.generate_random_hands())
                finally:
                    random.shuffle = orig
            else:
                r = 'bad-op'
        except Exception:
            r = 'ERR'
        out.append(r)
    return out


def classify(ops, exp, got):
    i = common.first_diff(exp, got)
    return 'deal:' + (ops[i].split()[0] if i is not None else '?')
