#!/bin/bash
# harness/mutant.sh <patch-file> <Cxx> [tier]  — run a check against a scratch copy of /repo with a patch applied.
# The copy lives outside /repo and /verif and is removed afterwards; evidence goes to a scratch dir.
set -u
patch=$(readlink -f "$1"); prop=$2; tier=${3:-quick}
d=$(mktemp -d /tmp/mutant-XXXXXX)
git -C /repo worktree add --detach "$d/repo" HEAD >/dev/null 2>&1 || { echo "worktree failed"; exit 2; }
( cd "$d/repo" && git apply "$patch" ) || { echo "patch does not apply"; git -C /repo worktree remove --force "$d/repo"; rm -rf "$d"; exit 2; }
mkdir -p "$d/ev"
BRIDGE_ENV_REPO="$d/repo" VERIF_EVIDENCE_DIR="$d/ev" /verif/check "$prop" --tier "$tier"
rc=$?
git -C /repo worktree remove --force "$d/repo"; rm -rf "$d"
exit $rc
