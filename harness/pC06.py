"""C06 — the playable-card set is exactly the follow-suit rule."""
import play_common as pc
from play_common import classify, nontrivial  # noqa: F401
from common import Case

TITLE = 'The playable-card set is exactly the follow-suit rule'
LEAN_TARGETS = ['BridgeVerif.Props.C06', 'BridgeVerif.Translated.Play']
AUDIT_PROPS = ['C06', 'Translated.Play']
REQUIRED = ['Translated.Play.available_cards_translated', 'Translated.Play.current_available_cards_translated', 'Translated.Play.with_hands_available_translated', 'Translated.Play.observed_available_translated', 'Translated.Play.observed_available_dummy_translated',
            'available_spec', 'available_subset', 'available_nonempty', 'available_follows', 'current_available_uses_first_card',
            'random_play_in_available']
RULE = ('PlayingPhase.available_cards on random hands of every size 0..13 x every led card (52) and no led card; the '
        'state-dependent variants (current_available_cards_in_hand / _in_dummy_hand) at every state of full and observed '
        'play-throughs; RandomPlay.play with random.choice replaced by a recorder (the list it is offered must be the model\'s '
        'set, the card returned must be in it). distinct = distinct (hand, led card) / (board, played set, op).')
REQUIRED_COUNTERS = {t: ['avail_void', 'avail_follow', 'avail_lead', 'random_play', 'random_play_from_dummy'] for t in ('quick', 'thorough')}
SHARDS = {'quick': 1, 'thorough': 8}
TRUSTED = ['the MiniPy semantics (Model/MiniPy.lean: value semantics, no aliasing) and the code translator (harness/translate_py.py), validated on every run by executing the translated program next to the real code (counters translated_*)',
           'random.choice returns an element of the list it is given (the theorem is for every choice function)']
ASSUMPTIONS = ['CPython set comprehension semantics']


# areas of the pure core whose TRANSLATION (Generated/PyCore.lean) is run next to the real code in this check
TRANSLATED_AREAS = ('play',)

def impl_exec(ops):
    """P.rand <hand> <trick-so-far>: RandomPlay.play on a base PlayingPhase in that state, with random.choice recorded"""
    if not any(o.startswith('P.rand') for o in ops):
        return pc.impl_exec(ops)
    import random
    from bridge_env import Bid, Card, Contract, Player, PlayingPhase
    from bridge_env.network_bridge.playing_system import RandomPlay
    out = []
    for op in ops:
        t = op.split()
        if t[0] != 'P.rand':
            out.extend(pc.impl_exec([op]))
            continue
        hand = pc.parse_cards(t[1])
        env = PlayingPhase(Contract(final_bid=Bid.NT1, declarer=Player.N))
        for c in ([] if t[2] == '-' else t[2].split(',')):
            env.play_card(Card.int_to_card(int(c)))
        seen = []
        orig = random.choice
        try:
            results = set()
            for k in range(len(hand) + 1):
                def fake(seq, k=k):
                    seen.append(sorted(int(c) for c in seq))
                    return seq[k % len(seq)]
                random.choice = fake
                results.add(int(RandomPlay().play(hand, env)))
            offered = seen[0]
            ok = all(s == offered for s in seen) and results <= set(offered)
            out.append(pc.cs(offered) if ok else 'CHOICE-OUTSIDE-OFFERED')
        except Exception:
            out.append('ERR')
        finally:
            random.choice = orig
    return out


def cases(ctx):
    rng = ctx.rng
    ops = []
    for _ in range(40 if ctx.quick else 400):
        k = rng.randrange(0, 14)
        hand = sorted(rng.sample(range(52), k))
        if rng.random() < 0.5 and k:
            # concentrate the hand in few suits so that voids are common
            keep = rng.sample(range(4), rng.randrange(1, 4))
            hand = sorted(c for c in hand if c // 13 in keep) or hand
        ops.append(f'P.avail {pc.cs(hand)} -')
        ctx.count('avail_lead')
        for led in range(52):
            ops.append(f'P.avail {pc.cs(hand)} {led}')
            if any(c // 13 == led // 13 for c in hand):
                ctx.count('avail_follow')
            else:
                ctx.count('avail_void')
    yield Case(ops, {'kind': 'static'})
    # RandomPlay: model op is the plain P.avail with the first card of the trick
    for _ in range(60 if ctx.quick else 600):
        k = rng.randrange(1, 14)
        hand = sorted(rng.sample(range(52), k))
        rest = [c for c in range(52) if c not in hand]
        trick = rng.sample(rest, rng.randrange(0, 4))
        ctx.count('random_play')
        yield Case([f'P.rand {pc.cs(hand)} {pc.cs(trick)}'], {'kind': 'random-play'})
    for _ in range(25 if ctx.quick else 200):
        yield Case(pc.gen_board(ctx, rng, revoke_p=0.3))
        yield Case(pc.gen_board(ctx, rng, revoke_p=0.3, mode='obs', me=rng.randrange(4)))


def _follow(hand, first):
    if first is None:
        return set(hand)
    same = {c for c in hand if c // 13 == first // 13}
    return same or set(hand)


def extra_checks(ctx):
    """independent oracle: RandomPlay driven the way the bundled Client drives it — with an ObservedPlayingPhase, from its
    own hand and (as declarer) from dummy's hand — and through PlayingPhaseWithHands; every choice must be in the
    follow-suit set of the hand it was given"""
    import random
    from bridge_env import Bid, Card, Contract, Hands, Player, Vul
    from bridge_env.playing_phase import ObservedPlayingPhase, PlayingPhaseWithHands
    from bridge_env.network_bridge.playing_system import RandomPlay
    rng = random.Random(f'C06-oracle/{ctx.seed}/{ctx.shard}')
    P = [Player.N, Player.E, Player.S, Player.W]
    fails = []
    for _ in range(12 if ctx.quick else 150):
        deck = list(range(52))
        rng.shuffle(deck)
        deal = [deck[i * 13:(i + 1) * 13] for i in range(4)]
        decl = rng.randrange(4)
        dummy = (decl + 2) % 4
        me = rng.choice([decl, decl, (decl + 1) % 4, dummy, (decl + 3) % 4])
        contract = Contract(Bid.int_to_bid(rng.randrange(35)), False, False, Vul.NONE, P[decl])
        obs = ObservedPlayingPhase(contract, P[me], {Card.int_to_card(c) for c in deal[me]})
        full = PlayingPhaseWithHands(contract, Hands(*[{Card.int_to_card(c) for c in h} for h in deal]))
        live = [set(h) for h in deal]
        trick = []
        ctx.count('_cases')
        ctx.count('random_play_boards')
        random.seed(rng.randrange(1 << 30))
        for n in range(52):
            a = P.index(full.active_player)
            first = trick[0] if trick else None
            want = _follow(live[a], first)
            chosen = None
            # who decides? the client of `me` plays its own cards, and dummy's when it is declarer
            if a == me and me != dummy:
                chosen = RandomPlay().play(obs.hand, obs)
                src = 'own hand'
            elif a == dummy and me == decl and obs.dummy_hand is not None:
                chosen = RandomPlay().play(obs.dummy_hand, obs)
                src = "dummy's hand (as declarer)"
                ctx.count('random_play_from_dummy')
            if chosen is not None:
                ctx.count('_evals')
                if int(chosen) not in want:
                    fails.append({'key': 'random-play-outside-playable-set', 'kind': 'counterexample',
                                  'diff': {'from': src, 'chosen': int(chosen), 'playable': sorted(want), 'seat': 'NESW'[a],
                                           'observer': 'NESW'[me], 'declarer': 'NESW'[decl], 'cards_played': n,
                                           'deal': deal}})
                    break
                card = int(chosen)
            else:
                # also through the full-information environment, as a table-side bot would
                c2 = RandomPlay().play(full.hands[P[a]], full)
                ctx.count('_evals')
                if int(c2) not in want:
                    fails.append({'key': 'random-play-outside-playable-set', 'kind': 'counterexample',
                                  'diff': {'from': 'PlayingPhaseWithHands', 'chosen': int(c2), 'playable': sorted(want)}})
                    break
                card = int(c2)
            c_obj = Card.int_to_card(card)
            full.play_card_by_player(c_obj, P[a])
            obs.play_card_by_player(c_obj, P[a])
            live[a].discard(card)
            trick.append(card)
            if len(trick) == 4:
                trick = []
            if n == 0 and me != dummy:
                obs.set_dummy_hand({Card.int_to_card(c) for c in live[dummy]})
        if len(fails) > 3:
            break
    return fails
