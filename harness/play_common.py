"""Play correspondence (C04-C06, C11 in-process half): ops interpreter over the real playing-phase
classes, deal / play generators with fault injection and branch counters."""
import common
from common import Case

SEATS = ['N', 'E', 'S', 'W']


def cs(cards):
    return ','.join(str(c) for c in cards) if cards else '-'


def left(i):
    return (i + 1) % 4


# ------------------------------------------------------------------ implementation side
class Impl:
    def __init__(self):
        self.env = None
        self.mode = None
        self.cur = []      # accepted cards of the current trick (harness log; _trick_cards is private)

    def line(self):
        from bridge_env import Pair, Player
        e = self.env
        h = ';'.join(f'{t.leader.name}:{",".join(str(int(c)) for c in t.cards)}' for t in e.playing_history.history)
        s = (f'l={e.leader.name} a={e.active_player.name} n={e.trick_num} t={",".join(str(c) for c in self.cur)} '
             f'ns={e.taken_tricks[Pair.NS]} ew={e.taken_tricks[Pair.EW]} dn={1 if e.has_done() else 0} '
             f'dc={e.declarer.name} dm={e.dummy.name} tr={e.trump.name} h={h} '
             f'u={",".join(str(x) for x in sorted(int(c) for c in e.used_cards))}')
        def hand(x):
            return cs(sorted(int(c) for c in x))
        if self.mode == 'full':
            s += ' ' + ' '.join(f'{p.name}={hand(e.hands[p])}' for p in Player)
            s += f' av={hand(e.current_available_cards_in_hand(e.active_player))}'
            # … and for every seat, on turn or not (what a display of all four hands would ask)
            s += ''.join(f' av{p.name}={hand(e.current_available_cards_in_hand(p))}' for p in Player)
        elif self.mode == 'obs':
            s += f' me={e.player.name} hand={hand(e.hand)} dh={"none" if e.dummy_hand is None else hand(e.dummy_hand)}'
            s += f' av={hand(e.current_available_cards_in_hand())}'
            try:
                s += f' avd={hand(e.current_available_cards_in_dummy_hand())}'
            except Exception:
                s += ' avd=ERR'
        return s


def parse_cards(s):
    from bridge_env import Card
    return set() if s == '-' else {Card.int_to_card(int(x)) for x in s.split(',')}


def _step(im, op):
    from bridge_env import (Bid, Card, Contract, Hands, ObservedPlayingPhase, Player, PlayingPhase,
                            PlayingPhaseWithHands, Suit)

    def contract(b, d):
        return Contract(final_bid=None if b == '-' else Bid.int_to_bid(int(b)),
                        declarer=None if d == '-' else Player[d])
    t = op.split()
    try:
        if t[0] == 'P.base':
            im.env, im.mode, im.cur = None, None, []
            im.env = PlayingPhase(contract(t[1], t[2]))
            im.mode = 'base'
            return 'NEW ' + im.line()
        elif t[0] == 'P.full':
            im.env, im.mode, im.cur = None, None, []
            hands = Hands(*[parse_cards(x) for x in t[3:7]])
            if sum(len(x) for x in t[3:7]) % 2 == 0:
                # every other deal reaches the game the way a board file does: through the library's own PBN text
                # (Hands.to_pbn -> Hands.convert_pbn); for a correct library these are fresh, equal hands
                hands = Hands.convert_pbn(hands.to_pbn())
            im.env = PlayingPhaseWithHands(contract(t[1], t[2]), hands)
            im.mode = 'full'
            return 'NEW ' + im.line()
        elif t[0] == 'P.obs':
            im.env, im.mode, im.cur = None, None, []
            im.env = ObservedPlayingPhase(contract(t[1], t[2]), Player[t[3]], parse_cards(t[4]))
            im.mode = 'obs'
            return 'NEW ' + im.line()
        elif t[0] == 'P.dummy':
            im.env.set_dummy_hand(parse_cards(t[1]))
            return 'SET ' + im.line()
        elif t[0] in ('P.card', 'P.play'):
            if im.env is None:
                return 'bad-op'
            n_before = len(im.env.playing_history.history)
            try:
                if t[0] == 'P.card':
                    c = int(t[1])
                    im.env.play_card(Card.int_to_card(c))
                else:
                    c = int(t[2])
                    im.env.play_card_by_player(Card.int_to_card(c), Player[t[1]])
                im.cur.append(c)
                if len(im.env.playing_history.history) != n_before:
                    im.cur = []
                return 'OK ' + im.line()
            except Exception:
                return 'ERR ' + im.line()
        elif t[0] == 'P.avail':
            hand = parse_cards(t[1])
            first = None if t[2] == '-' else Card.int_to_card(int(t[2]))
            r = PlayingPhase.available_cards(hand, first)
            return cs(sorted(int(c) for c in r))
        elif t[0] == 'P.highest':
            su = Suit[t[1]]
            cards = [] if t[2] == '-' else [Card.int_to_card(int(x)) for x in t[2].split(',')]
            return str(int(PlayingPhase.calc_highest(su, cards)))
        return 'bad-op'
    except Exception:
        return 'ERR'


def impl_exec(ops):
    im = Impl()
    return [_step(im, op) for op in ops]


def impl_exec_multi(tagged):
    """several live play objects advanced alternately: [(tag, op)] -> outputs in the same order"""
    ims = {}
    return [_step(ims.setdefault(tag, Impl()), op) for tag, op in tagged]


# ------------------------------------------------------------------ generators
def random_deal(rng, shape=None):
    deck = list(range(52))
    rng.shuffle(deck)
    if shape == 'voids':
        # give one seat a void and a long suit by sorting part of the deck
        deck.sort(key=lambda c: (c // 13 == rng.randrange(4), rng.random()))
    return [sorted(deck[i * 13:(i + 1) * 13]) for i in range(4)]


def suit(c):
    return c // 13


def rank(c):
    return c % 13


def law_winner(trump, trick):
    """independent statement of the law (for counters only); trump 0..3 or 4 = NT"""
    tr = [i for i, c in enumerate(trick) if suit(c) == trump]
    pool = tr if tr else [i for i, c in enumerate(trick) if suit(c) == suit(trick[0])]
    return max(pool, key=lambda i: rank(trick[i]))


def gen_board(ctx, rng, fault_p=0.0, revoke_p=0.3, mode='full', me=None, set_dummy=True):
    """one board played to the end through play_card_by_player; returns ops"""
    b = rng.randrange(35)
    trump = b % 5
    decl = rng.randrange(4)
    hands = random_deal(rng, rng.choice([None, None, 'voids']))
    # duplicate bridge: the SAME deal comes up again (a second table, a replayed board) — state that the library carried
    # over from the first time (caches, shared sets) shows only then
    prev = getattr(ctx, '_last_deal', None)
    if prev is not None and mode == 'full' and rng.random() < 0.3:
        hands = [list(h) for h in prev]
        ctx.count('deal_replayed')
    if mode == 'full':
        ctx._last_deal = [list(h) for h in hands]
    dummy = (decl + 2) % 4
    live = [list(h) for h in hands]
    if mode == 'full':
        ops = [f'P.full {b} {SEATS[decl]} ' + ' '.join(cs(h) for h in hands)]
    else:
        ops = [f'P.obs {b} {SEATS[decl]} {SEATS[me]} {cs(hands[me])}']
    leader = left(decl)
    played = []
    for tn in range(13):
        trick, who = [], leader
        for i in range(4):
            # fault injection before the legal play
            while rng.random() < fault_p:
                kind = rng.choice(['turn', 'other', 'used', 'turn_own'])
                if kind == 'turn':
                    p = rng.choice([q for q in range(4) if q != who])
                    if live[p]:
                        ops.append(f'P.play {SEATS[p]} {rng.choice(live[p])}')
                        ctx.count('fault_out_of_turn')
                elif kind == 'turn_own':
                    p = rng.choice([q for q in range(4) if q != who])
                    if live[who]:
                        ops.append(f'P.play {SEATS[p]} {rng.choice(live[who])}')
                        ctx.count('fault_out_of_turn_with_active_card')
                elif kind == 'other':
                    p = rng.choice([q for q in range(4) if q != who])
                    if live[p]:
                        ops.append(f'P.play {SEATS[who]} {rng.choice(live[p])}')
                        ctx.count('fault_card_of_other_hand')
                elif played:
                    ops.append(f'P.play {SEATS[who]} {rng.choice(played)}')
                    ctx.count('fault_card_already_played')
            hand = live[who]
            follow = [c for c in hand if trick and suit(c) == suit(trick[0])]
            if follow and rng.random() >= revoke_p:
                c = rng.choice(follow)
            else:
                c = rng.choice(hand)
                if follow and suit(c) != suit(trick[0]):
                    ctx.count('revoke')
            hand.remove(c)
            played.append(c)
            trick.append(c)
            ops.append(f'P.play {SEATS[who]} {c}')
            if mode == 'obs' and tn == 0 and i == 0:
                if set_dummy:
                    ops.append(f'P.dummy {cs(live[dummy])}')
                else:
                    ctx.count('dummy_never_set')
            who = left(who)
        w = law_winner(trump, trick)
        ctx.count(f'winner_pos_{w}')
        if trump == 4:
            ctx.count('nt_trick')
        else:
            led = suit(trick[0])
            trumps = [c for c in trick if suit(c) == trump]
            if led != trump and trumps:
                ctx.count('ruff_wins')
                if len(trumps) >= 2:
                    ctx.count('over_ruff')
                if any(suit(c) == led and rank(c) > rank(trick[w]) for c in trick):
                    ctx.count('ruff_beats_higher_card')
        if any(suit(c) != suit(trick[0]) and suit(c) != trump and rank(c) > rank(trick[w]) for c in trick):
            ctx.count('higher_offsuit_discard_loses')
        leader = (leader + w) % 4
    # after the end: everything is refused (hands are empty)
    ops.append(f'P.play {SEATS[leader]} {rng.randrange(52)}')
    return ops


def classify(ops, exp, got):
    i = common.first_diff(exp, got)
    if i is None:
        return 'play:none'
    e, g = exp[i].split(), got[i].split()
    fields = [a.split('=')[0] if '=' in a else 'result' for a, b in zip(e, g) if a != b]
    return 'play:' + ops[i].split()[0] + ':' + '+'.join(fields[:3])


def nontrivial(case, got):
    head = case.ops[0]
    keys = []
    for op, line in zip(case.ops[1:], got[1:]):
        u = line.split(' u=')[1].split(' ')[0] if ' u=' in line else ''
        keys.append((head, u, op))
    return keys or [head]
