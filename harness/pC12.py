"""C12 — JSON game logs are schema-valid and read back exactly as written."""
import io
import json
import os
import random
import subprocess

import common
import json_common as J
from common import Case

TITLE = 'JSON game logs are schema-valid and read back exactly as written'
LEAN_TARGETS = ['BridgeVerif.Props.C12', 'BridgeVerif.Translated.JsonWriter', 'BridgeVerif.Translated.JsonParser', 'BridgeVerif.Translated.JsonRoundTrip']
AUDIT_PROPS = ['C12', 'Translated.JsonWriter', 'Translated.JsonParser', 'Translated.JsonRoundTrip']
REQUIRED = ['Translated.JsonRoundTrip.jr_log_round_trip_translated', 'Translated.JsonRoundTrip.jr_log_as_settings_translated',
            'Translated.JsonWriter.jw_log_document_translated', 'Translated.JsonWriter.jw_log_write_translated', 'Translated.JsonWriter.jw_convert_deal_translated_val', 'Translated.JsonParser.jp_parse_board_logs_translated_same', 'Translated.JsonParser.jp_parse_board_logs_translated_general', 'Translated.JsonParser.jp_parse_rejects_bad_json',
            'loads_dumps', 'framed_output_is_json', 'log_validates', 'record_read_back', 'log_read_back',
            'read_back_is_what_was_written', 'log_as_settings']
KEEP_FIRST = 1
SHARDS = {'quick': 2, 'thorough': 16}
RULE = ('documents of 0-6 board results written by the real JsonLogWriter (ids and player names from a Unicode generator: '
        'quotes, backslashes, control characters, BMP, astral; arbitrary deals incl. partial ones; all 8 scoring styles; '
        'arbitrary call lists; contracts with every flag combination incl. xx without x, passed-out as None and as Bid.Pass; '
        'play histories of 0-13 tricks with odd trick sizes; null/any trick counts; big integers; double-dummy tables in any '
        'key order and for any subset of seats). Per document: the text (compared as a strict JSON token stream), what '
        'JsonParser.parse_board_logs returns (every field, with the Python TYPE of every seat/side/call/card checked), what '
        'parse_board_settings returns, and the verdict of the published schema (jsonschema Draft 7 on the real schema files '
        'vs the Lean validator on the translated schema). Plus: the reader model vs json.loads on generated JSON texts '
        '(white space, escapes, duplicate keys, damaged texts) and the parser model on documents with optional keys removed. '
        'Independent Python oracle on every document: json.loads == the expected value built by the harness, read-back == what '
        'was written, jsonschema valid. distinct = distinct op lines.')
TRUSTED = ['the MiniPy semantics (Model/MiniPy.lean: value semantics, no aliasing) and the code translator (harness/translate_py.py), validated on every run by executing the translated program next to the real code (counters translated_*)',
           'CPython json.dumps / json.loads are represented by the re-implementations in Model/Json.lean (differential-tested here)',
           'the schema translator harness/translate_schema.py (fails on any keyword outside type/properties/required/items/$ref)',
           'jsonschema (Draft 7) as the reference semantics of the schema keywords used']
ASSUMPTIONS = ['strings are Unicode scalar sequences (a lone surrogate cannot be represented in the Lean model)',
               'double-dummy rows are complete (five denominations), as the schema requires',
               'a contract that is not passed out has a declarer; a passed-out one has none']
REQUIRED_COUNTERS = {t: ['documents', 'empty_documents', 'passed_out_entries', 'played_entries', 'entries_with_dda',
                         'astral_text', 'escaped_text', 'xx_without_x_flag', 'json_texts', 'json_texts_rejected']
                     for t in ('quick', 'thorough')}


# areas of the pure core whose TRANSLATION (Generated/PyCore.lean) is run next to the real code in this check
TRANSLATED_AREAS = ('json',)

def prepare(workdir):
    import translate_schema
    changed, err = translate_schema.regenerate(common.REPO, common.LEAN)
    return [err] if err else []


# ------------------------------------------------------------------ jsonschema oracle as a persistent process
class Oracle:
    def __init__(self):
        d = os.path.join(common.REPO, 'bridge_env', 'data_handler', 'json_handler')
        try:
            self.p = subprocess.Popen(['python3-vt', '-u', '-c', J._ORACLE, d], stdin=subprocess.PIPE, stdout=subprocess.PIPE,
                                      stderr=subprocess.PIPE, text=True, bufsize=1,
                                      env={k: v for k, v in os.environ.items() if k != 'PYTHONPATH'})
        except OSError as e:
            raise common.Infra(f'jsonschema oracle (python3-vt) unavailable: {e}')

    def ask(self, kind, text):
        try:
            self.p.stdin.write(f'{kind} {J.hx(text)}\n')
            self.p.stdin.flush()
            line = self.p.stdout.readline()
        except (OSError, ValueError) as e:
            raise common.Infra(f'jsonschema oracle died: {e}')
        if not line:
            raise common.Infra('jsonschema oracle died: ' + (self.p.stderr.read() or '')[-400:])
        return line.strip()


_oracle = None


def oracle():
    global _oracle
    if _oracle is None:
        _oracle = Oracle()
    return _oracle


def verdict(kind, text):
    v = oracle().ask(kind, text)
    return v if v in ('NOJSON',) else v[:1]


# ------------------------------------------------------------------ implementation side of the J.* ops
# intermediate representations (texts) and probes of the reader / validator MODELS on inputs outside the property: a
# difference there breaks the correspondence; the independent oracle has to exhibit a failing input
CORRESPONDENCE_ONLY_OPS = ('J.text', 'J.loads', 'J.validlog', 'J.validsetting', 'J.readtext', 'J.sreadtext', 'J.stext', 'J.prefix')


def impl_exec(ops):
    logs, settings, out = [], [], []
    for line in ops:
        t = line.split(' ')
        op = t[0]
        try:
            if op == 'J.begin':
                logs, settings = [], []
                out.append('ok')
            elif op == 'J.entry':
                logs.append(J.Entry(t))
                out.append('ok')
            elif op == 'J.sentry':
                settings.append(J.SEntry(t))
                out.append('ok')
            elif op == 'J.text':
                out.append(J.hx(J.log_text(logs)))
            elif op == 'J.read':
                out.append(J.read_logs(J.log_text(logs)))
            elif op == 'J.settings':
                out.append(J.read_settings(J.log_text(logs)))
            elif op == 'J.valid':
                out.append(verdict('log', J.log_text(logs)))
            elif op == 'J.prefix':
                out.append(J.hx(J.log_text(logs, close=t[2] == '1', upto=int(t[1]))))
            elif op == 'J.stext':
                out.append(J.hx(J.settings_text(settings)))
            elif op == 'J.sread':
                out.append(J.read_settings(J.settings_text(settings)))
            elif op == 'J.svalid':
                out.append(verdict('setting', J.settings_text(settings)))
            elif op == 'J.loads':
                out.append(J.py_loads_line(J.unhx(t[1])))
            elif op == 'J.validlog':
                out.append(verdict('log', J.unhx(t[1])))
            elif op == 'J.validsetting':
                out.append(verdict('setting', J.unhx(t[1])))
            elif op == 'J.readtext':
                out.append(J.read_logs(J.unhx(t[1])))
            elif op == 'J.sreadtext':
                out.append(J.read_settings(J.unhx(t[1])))
            else:
                out.append('bad-op')
        except common.Infra:
            raise
        except Exception as e:
            out.append(f'EXC {type(e).__name__}: {e}')
    return out


def canon(op, line):
    """document texts are compared as strict JSON token streams (white space between tokens is not an observable)"""
    o = op.split(' ', 1)[0]
    if o in ('J.text', 'J.stext', 'J.loads'):
        return J.canon_text(line)
    return line


def nontrivial(case, got):
    return case.ops


# ------------------------------------------------------------------ cases
def mutate_doc(rng, text):
    """documents the parser (not the writer) must cope with: optional members removed / nulled, required ones removed"""
    doc = json.loads(text)
    if not doc.get('logs'):
        return text
    rec = rng.choice(doc['logs'])
    k = rng.randrange(6)
    if k == 0:
        rec.pop(rng.choice(['players', 'bid_history', 'play_history', 'score_type', 'scores', 'dda']), None)
    elif k == 1:
        rec['play_history'] = None
    elif k == 2:
        rec.pop(rng.choice(['board_id', 'dealer', 'deal', 'vulnerability', 'declarer', 'contract', 'taken_trick']), None)
    elif k == 3:
        rec['vulnerability'] = rng.choice(['All', 'Love', '-', 'NONE', 'BOTH', 'both', 'ns', ''])
    elif k == 4:
        rec['dealer'] = rng.choice(['N', 'E', 'n', 'North', '', 'X'])
    else:
        rec['contract'] = rng.choice(['1C', '7NTXX', 'Passed_out', 'Pass', 'X', '', '1CXXX', '8C', '1c', 'XX'])
    return json.dumps(doc)


def mutate_for_schema(rng, text):
    doc = json.loads(text)
    if not doc.get('logs'):
        return json.dumps(rng.choice([{}, {'logs': {}}, {'logs': [1]}, [], {'logs': [{}]}, {'logs': None}]))
    rec = rng.choice(doc['logs'])
    k = rng.randrange(7)
    if k == 0:
        rec.pop(rng.choice(list(rec)), None)
    elif k == 1:
        key = rng.choice(list(rec))
        rec[key] = rng.choice([None, 1, 'x', [], {}, [1], True])
    elif k == 2 and isinstance(rec.get('deal'), dict):
        rec['deal'].pop(rng.choice(SEATS), None)
    elif k == 3 and isinstance(rec.get('dda'), dict) and rec['dda']:
        row = rec['dda'][rng.choice(list(rec['dda']))]
        if rng.random() < 0.5 and row:
            row.pop(rng.choice(list(row)), None)
        elif row:
            row[rng.choice(list(row))] = rng.choice(['3', None, [1], True])
    elif k == 4 and isinstance(rec.get('play_history'), list) and rec['play_history']:
        tr = rng.choice(rec['play_history'])
        tr[rng.choice(['leader', 'cards'])] = rng.choice([1, None, 'W', ['x', 2]])
    elif k == 5:
        rec['scores'] = rng.choice([{'NS': '1'}, {'NS': 1}, {}, [], {'NS': [], 'EW': True}])
    else:
        rec['extra'] = [1, 2]
    return json.dumps(doc)


SEATS = J.SEATS


def gen_document_ops(ctx, rng, n=None):
    n = rng.choice([0, 1, 1, 2, 3, 4, 6]) if n is None else n
    ctx.count('documents')
    if n == 0:
        ctx.count('empty_documents')
    return ['J.begin'] + [J.gen_entry_op(rng, ctx) for _ in range(n)]


def cases(ctx):
    rng = ctx.rng
    ndocs = 60 if ctx.quick else 500
    for i in range(ndocs):
        ops = gen_document_ops(ctx, rng, n=0 if i == 0 else None)
        yield Case(ops + ['J.text', 'J.read', 'J.settings', 'J.valid'], {'kind': 'document'})
    # the parser / validator on perturbed documents
    for i in range(40 if ctx.quick else 400):
        ops = gen_document_ops(ctx, rng, n=rng.choice([1, 2]))
        text = J.log_text([J.Entry(o.split(' ')) for o in ops[1:]])
        ctx.count('perturbed_documents')
        yield Case([f'J.readtext {J.hx(mutate_doc(rng, text))}', f'J.sreadtext {J.hx(mutate_doc(rng, text))}',
                    f'J.validlog {J.hx(mutate_for_schema(rng, text))}'], {'kind': 'perturbed'})
    # the reader model against json.loads
    ops = []
    for i in range(400 if ctx.quick else 6000):
        t = J.rand_json_text(rng)
        ctx.count('json_texts')
        try:
            json.loads(t)
        except ValueError:
            ctx.count('json_texts_rejected')
        toks = J.tokens(t)
        if toks is not None and any(0xd800 <= ord(ch) <= 0xdfff for tok in toks if tok[0] == 's' for ch in tok):
            ctx.count('json_texts_outside_domain')      # a lone surrogate escape: not representable in the Lean model
            continue
        try:
            ops.append(f'J.loads {J.hx(t)}')
        except UnicodeEncodeError:
            continue
        if len(ops) == 50:
            yield Case(ops, {'kind': 'json-texts'})
            ops = []
    if ops:
        yield Case(ops, {'kind': 'json-texts'})


# ------------------------------------------------------------------ independent Python oracle (no model involved)
def expected_value(en):
    """the JSON value a record must denote, built from the entry without looking at the writer"""
    def card(i):
        return 'CDHS'[i // 13] + J.RANKS[i % 13]

    def call(b):
        i = b.idx
        return 'Pass' if i == 35 else 'X' if i == 36 else 'XX' if i == 37 else f'{i // 5 + 1}{J.SUITS[i % 5]}'
    c = en.contract
    po = c.final_bid is None or c.final_bid.idx == 35
    ctext = 'Passed_out' if po else call(c.final_bid) + ('XX' if c.xx else 'X' if c.x else '')
    d = {'players': dict(en.names), 'board_id': en.board_id, 'dealer': en.dealer.name,
         'deal': {p: [card(i) for i in sorted(h)] for p, h in zip(SEATS, en.hands)},
         'vulnerability': {1: 'None', 2: 'NS', 3: 'EW', 4: 'Both'}[en.vul.value],
         'bid_history': [call(b) for b in en.calls], 'contract': ctext,
         'declarer': None if po else c.declarer.name,
         'play_history': None if en.play is None else [{'leader': t.leader.name, 'cards': [card(int(x)) for x in t.cards]}
                                                       for t in en.play.history],
         'taken_trick': en.tricks, 'score_type': en.scoring.value,
         'scores': {'NS': en.scores[J.env()['Pair'].NS], 'EW': en.scores[J.env()['Pair'].EW]}}
    if en.dda is not None:
        d['dda'] = {p.name: {s.name: v for s, v in r.items()} for p, r in en.dda.items()}
    return d


def check_readback(en, b):
    """field-by-field comparison of a BoardLog with what was written; list of problems"""
    e = J.env()
    P, Pair, Bid, Card = e['Player'], e['Pair'], e['Bid'], e['Card']
    bad = []
    c = en.contract
    po = c.is_passed_out()
    if b.board_id != en.board_id or type(b.board_id) is not str:
        bad.append('board_id')
    if b.dealer is not en.dealer:
        bad.append('dealer')
    if b.vul is not en.vul:
        bad.append('vulnerability')
    try:
        if not (b.hands == J.hands_obj(en.hands)):
            bad.append('deal')
    except Exception:
        bad.append('deal')
    if b.players != {P[p]: n for p, n in en.names.items()} or not all(isinstance(k, P) for k in b.players):
        bad.append('players')
    if b.bid_history != en.calls or not all(isinstance(x, Bid) for x in b.bid_history):
        bad.append('auction')
    want_decl = None if po else c.declarer
    if b.declarer is not want_decl:
        bad.append('declarer')
    bc = b.contract
    if (bc.is_passed_out() != po or (not po and (bc.final_bid is not c.final_bid or bc.declarer is not c.declarer
                                                 or (bc.xx, bc.x and not bc.xx) != (c.xx, c.x and not c.xx)))
            or bc.vul is not c.vul):
        bad.append('contract')
    if en.play is None:
        if b.play_history is not None:
            bad.append('play')
    else:
        want = [(t.leader, tuple(t.cards)) for t in en.play.history]
        try:
            got = [(t.leader, tuple(t.cards)) for t in b.play_history]
        except Exception:
            got = None
        if got != want:
            bad.append('play')
        elif not all(isinstance(l, P) for l, _ in got):
            bad.append('play-leader-not-a-Player')
        elif not all(isinstance(x, Card) for _, cs_ in got for x in cs_):
            bad.append('play-card-type')
    if b.taken_trick != en.tricks:
        bad.append('tricks')
    if b.score_type != en.scoring.value:
        bad.append('score_type')
    if b.scores != en.scores:
        bad.append('scores')
    elif not all(isinstance(k, Pair) for k in b.scores):
        bad.append('scores-keys-not-Pair')
    if b.dda != en.dda:
        bad.append('dda')
    return bad


def extra_checks(ctx):
    e = J.env()
    rng = random.Random(f'C12-oracle/{ctx.seed}/{ctx.shard}')
    fails = []
    ndocs = 40 if ctx.quick else 300
    for i in range(ndocs):
        ops = gen_document_ops(ctx, rng, n=0 if i == 0 else None)
        entries = [J.Entry(o.split(' ')) for o in ops[1:]]
        text = J.log_text(entries)
        ctx.count('_cases')
        ctx.count('_evals', 4)
        ctx.count('oracle_documents')

        def fail(key, detail):
            fails.append({'key': key, 'kind': 'counterexample', 'ops': ops + ['J.text', 'J.read', 'J.settings', 'J.valid'],
                          'diff': detail, 'text': text[:3000]})
        try:
            doc = json.loads(text)
        except ValueError as ex:
            fail('not-one-json-document', repr(ex))
            continue
        want = {'logs': [expected_value(en) for en in entries]}
        if doc != want:
            fail('document-value', {'got': json.dumps(doc)[:600], 'want': json.dumps(want)[:600]})
        v = oracle().ask('log', text)
        if v != '1':
            fail('schema-invalid', v)
        try:
            recs = e['JsonParser']().parse_board_logs(io.StringIO(text))
        except Exception as ex:
            fail('read-back-raises', repr(ex))
            continue
        if len(recs) != len(entries):
            fail('read-back-count', [len(recs), len(entries)])
            continue
        for k, (en, b) in enumerate(zip(entries, recs)):
            bad = check_readback(en, b)
            if bad:
                fail('read-back-' + bad[0], {'record': k, 'fields': bad})
                break
        try:
            sets = e['JsonParser']().parse_board_settings(io.StringIO(text))
            ok = len(sets) == len(entries) and all(
                s.board_id == en.board_id and s.dealer is en.dealer and s.vul is en.vul and s.hands == J.hands_obj(en.hands)
                and s.dda == en.dda for s, en in zip(sets, entries))
        except Exception as ex:
            ok = False
        if not ok:
            fail('log-as-settings', 'parse_board_settings(log) differs from the boards written')
    return fails


def classify(ops, exp, got):
    for o, a, b in zip(ops, exp, got):
        if a != b:
            return 'diff:' + o.split(' ', 1)[0]
    return 'diff'
