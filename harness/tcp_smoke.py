"""Real threads, real TCP over loopback: the unmodified Server with four bundled Client objects (no scheduler, no fake
network).  One session: a passed-out board then a played board (WeakBid: 1C passed out → played; AlwaysPass: passed out).
Exit 0 = the session completed (every thread finished, every client saw "End of session", the log parses and holds the
configured boards); exit 1 = it did not (hang → watchdog, exception, wrong log); exit 3 = loopback networking is not
available here (not a verdict).

Used by the thorough tier of C09 as the "partial aspect" run: it exercises the real primitives (threading.Barrier,
queue.Queue, sockets, time.sleep) that the deterministic scheduler replaces.
Run with PYTHONPATH=<repo> /venv/bin/python tcp_smoke.py [seed]"""
import json
import os
import pathlib
import random
import socket
import sys
import tempfile
import threading
import time


def free_port():
    s = socket.socket(socket.AF_INET, socket.SOCK_STREAM)
    try:
        s.bind(('127.0.0.1', 0))
        return s.getsockname()[1]
    finally:
        s.close()


def main():
    seed = int(sys.argv[1]) if len(sys.argv) > 1 else 0
    rng = random.Random(seed)
    try:
        port = free_port()
    except OSError as e:
        print('loopback not available:', e)
        return 3
    from bridge_env import Card, Hands, Player, Vul
    from bridge_env.data_handler.abstract_classes import BoardSetting
    from bridge_env.network_bridge import server as server_mod
    from bridge_env.network_bridge.bidding_system import AlwaysPass, WeakBid
    from bridge_env.network_bridge.client import Client
    from bridge_env.network_bridge.playing_system import RandomPlay
    from bridge_env.network_bridge.server import Server
    random.seed(seed)
    # the server sleeps 1 s per connection and per trick; shorten the sleeps (not the synchronisation) to keep the run brief
    real_sleep = time.sleep
    server_mod.time.sleep = lambda t: real_sleep(min(t, 0.02))

    def deal():
        deck = list(range(52))
        rng.shuffle(deck)
        return Hands(*[{Card.int_to_card(c) for c in deck[i * 13:(i + 1) * 13]} for i in range(4)])
    boards = [BoardSetting(deal(), rng.choice(list(Player)), rng.choice(list(Vul)), f'smoke-{k}') for k in range(2)]
    out = tempfile.mkdtemp(prefix='verif-smoke-')
    log_path = pathlib.Path(out) / 'log.json'
    results = {}

    def run_server():
        try:
            with Server('127.0.0.1', port, log_path, boards) as srv:
                srv.run()
            results['server'] = 'ok'
        except BaseException as e:      # noqa
            results['server'] = repr(e)

    def run_client(p, weak):
        try:
            for attempt in range(200):
                try:
                    with Client(p, 'NS' if p in (Player.N, Player.S) else 'EW', WeakBid() if weak else AlwaysPass(), RandomPlay(),
                                '127.0.0.1', port) as cl:
                        cl.run()
                    break
                except ConnectionRefusedError:
                    real_sleep(0.05)
            results[p.name] = 'ok'
        except BaseException as e:      # noqa
            results[p.name] = repr(e)
    threads = [threading.Thread(target=run_server, daemon=True)]
    weak = seed % 2 == 0
    threads += [threading.Thread(target=run_client, args=(p, weak), daemon=True) for p in Player]
    sys.stdout = open(os.devnull, 'w')
    for t in threads:
        t.start()
    deadline = time.time() + 90
    for t in threads:
        t.join(max(0.0, deadline - time.time()))
    sys.stdout = sys.__stdout__
    alive = [t.name for t in threads if t.is_alive()]
    ok = not alive and all(results.get(k) == 'ok' for k in ['server', 'N', 'E', 'S', 'W'])
    detail = {'results': results, 'still_running': alive}
    try:
        doc = json.loads(log_path.read_text())
        detail['boards_logged'] = [r['board_id'] for r in doc['logs']]
        ok = ok and detail['boards_logged'] == ['smoke-0', 'smoke-1']
    except Exception as e:
        detail['log'] = repr(e)
        ok = False
    print(json.dumps(detail))
    try:
        for f in os.listdir(out):
            os.unlink(os.path.join(out, f))
        os.rmdir(out)
    except OSError:
        pass
    return 0 if ok else 1


if __name__ == '__main__':
    rc = main()
    sys.stdout.flush()
    os._exit(rc)
