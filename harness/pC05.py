"""C05 — only the seat on turn can play, only a card it holds; cards are conserved."""
import play_common as pc
from play_common import impl_exec, impl_exec_multi, classify, nontrivial  # noqa: F401
from common import Case

TITLE = 'Only the seat on turn can play, only a card it holds; cards are conserved'
LEAN_TARGETS = ['BridgeVerif.Props.C05', 'BridgeVerif.Translated.Play']
AUDIT_PROPS = ['C05', 'Translated.Play']
REQUIRED = ['Translated.Play.play_by_translated', 'Translated.Play.with_hands_play_translated', 'Translated.Play.observed_play_translated', 'Translated.Play.set_dummy_translated', 'Translated.Play.wf_with_hands_play', 'Translated.Play.wf_observed_play',
            'refused_out_of_turn', 'refused_not_held', 'accepted_iff', 'accepted_effect', 'refusal_changes_nothing', 'conservation', 'no_card_twice',
            'after_52_all_empty', 'observed_refused_out_of_turn', 'observed_refused_not_held', 'observed_conservation']
RULE = ('boards played to the end with faults injected at every position with fixed probability: a play by a seat not on '
        'turn (its own card, or the active seat\'s card), the active seat playing a card of another hand, or a card already '
        'played; all four hands / own+dummy hand, turn, trick, history and played set compared after every accepted or refused '
        'play (a refusal must leave the line identical). Both PlayingPhaseWithHands and ObservedPlayingPhase (every observer '
        'seat, dummy hand supplied after the opening lead, or never). distinct = distinct (board, played set, op).')
REQUIRED_COUNTERS = {t: ['fault_out_of_turn', 'fault_out_of_turn_with_active_card', 'fault_card_of_other_hand',
                         'fault_card_already_played', 'dummy_never_set'] for t in ('quick', 'thorough')}
SHARDS = {'quick': 1, 'thorough': 16}
TRUSTED = ['the MiniPy semantics (Model/MiniPy.lean: value semantics, no aliasing) and the code translator (harness/translate_py.py), validated on every run by executing the translated program next to the real code (counters translated_*)',
           ]
ASSUMPTIONS = ['CPython set semantics (membership, remove)']


# areas of the pure core whose TRANSLATION (Generated/PyCore.lean) is run next to the real code in this check
TRANSLATED_AREAS = ('play',)

def cases(ctx):
    rng = ctx.rng
    n = 60 if ctx.quick else 500
    for _ in range(n):
        yield Case(pc.gen_board(ctx, rng, fault_p=rng.choice([0.2, 0.5]), revoke_p=0.3))
    for _ in range(n):
        me = rng.randrange(4)
        yield Case(pc.gen_board(ctx, rng, fault_p=rng.choice([0.2, 0.5]), revoke_p=0.3, mode='obs', me=me,
                                set_dummy=rng.random() < 0.85))
