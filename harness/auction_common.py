"""Auction correspondence (C01-C03): ops interpreter over the real BiddingPhase, an independent
statement of the Laws for generation, structure-aware generators with branch counters."""
import common
from common import Case

SEATS = ['N', 'E', 'S', 'W']
VULS = ['None', 'NS', 'EW', 'Both']
PASS, X, XX = 35, 36, 37


# ---------------------------------------------------------------- independent Laws (generation only)
def law_state(dealer_i, hist):
    """(last_bid, last_bidder_i, dbl, over)  from the history alone"""
    last_bid, last_bidder, dbl = None, None, 0
    for j, c in enumerate(hist):
        if c < 35:
            last_bid, last_bidder, dbl = c, (dealer_i + j) % 4, 0
        elif c == X:
            dbl = 1
        elif c == XX:
            dbl = 2
    n = len(hist)
    over = n >= 4 and hist[-3:] == [PASS] * 3
    return last_bid, last_bidder, dbl, over


def law_legal(dealer_i, hist):
    last_bid, last_bidder, dbl, over = law_state(dealer_i, hist)
    turn = (dealer_i + len(hist)) % 4
    leg = [False] * 38
    leg[PASS] = True
    for b in range(35):
        leg[b] = last_bid is None or b > last_bid
    if last_bid is not None:
        opp = (turn - last_bidder) % 2 == 1
        leg[X] = dbl == 0 and opp
        leg[XX] = dbl == 1 and not opp
    return leg, over


# ---------------------------------------------------------------- implementation side
def show_contract(c):
    if c is None:
        return '-'
    decl = '-' if c.declarer is None else c.declarer.name
    vul = str(c.vul)
    if c.is_passed_out():
        return f'PO:{vul}:{decl}'
    st = 'XX' if c.xx else 'X' if c.x else '-'
    return f'{c.final_bid.idx}:{st}:{vul}:{decl}'


def calls(l):
    return ','.join(str(b.idx) for b in l)


def obs(env, frozen_mask):
    import numpy as np
    from bridge_env import Player
    a = env.active_player
    mask = env.available_bid
    vals = [float(x) for x in np.asarray(mask).tolist()]
    if len(vals) != 38 or any(v not in (0.0, 1.0) for v in vals):
        m = 'BADMASK'
    elif env.has_done():
        m = 'frozen' if frozen_mask is not None and vals == frozen_mask else 'CHANGED'
    else:
        m = ''.join('1' if v == 1.0 else '0' for v in vals)
    ph = env.players_bid_history
    return (f'a={"-" if a is None else a.name} h={calls(env.bid_history)} m={m} '
            f'pN={calls(ph[Player.N])} pE={calls(ph[Player.E])} pS={calls(ph[Player.S])} pW={calls(ph[Player.W])} '
            f'd={1 if env.has_done() else 0} c={show_contract(env.contract())} dl={env.dealer.name} v={env.vul} ms=1')


class AuctionImpl:
    """one live BiddingPhase driven op by op"""

    def __init__(self):
        self.env, self.frozen = None, None

    def step(self, op):
        import numpy as np
        from bridge_env import Bid, BiddingPhase, BiddingPhaseState, Player, Vul
        vmap = {'None': Vul.NONE, 'NS': Vul.NS, 'EW': Vul.EW, 'Both': Vul.BOTH}
        t = op.split()
        if t[0] == 'A.new':
            self.env = BiddingPhase(dealer=Player[t[1]], vul=vmap[t[2]])
            self.frozen = None
            return 'NEW ' + obs(self.env, self.frozen)
        if t[0] == 'A.call':
            env = self.env
            try:
                r = env.take_bid(Bid.int_to_bid(int(t[1])))
                rs = {BiddingPhaseState.ILLEGAL: 'ILLEGAL', BiddingPhaseState.ONGOING: 'ONGOING',
                      BiddingPhaseState.FINISHED: 'FINISHED'}.get(r, f'RES?{r}')
            except Exception:
                rs = 'ERR'
            if env.has_done() and self.frozen is None:
                self.frozen = [float(x) for x in np.asarray(env.available_bid).tolist()]
            return rs + ' ' + obs(env, self.frozen)
        return 'bad-op'


def impl_exec(ops):
    im = AuctionImpl()
    return [im.step(op) for op in ops]


def impl_exec_multi(tagged):
    """several live objects advanced alternately: [(tag, op)] -> outputs in the same order"""
    ims = {}
    return [ims.setdefault(tag, AuctionImpl()).step(op) for tag, op in tagged]


# ---------------------------------------------------------------- generators
EDGE = [
    ('N', 'None', [PASS, PASS, PASS, PASS, PASS]),
    ('E', 'NS', [PASS, PASS, PASS, 0, PASS, PASS, PASS, PASS]),
    ('S', 'EW', [0, PASS, PASS, X, PASS, PASS, PASS, 3]),
    ('W', 'Both', [0, X, XX, PASS, PASS, 1, PASS, PASS, X, PASS, PASS, PASS]),
    ('N', 'NS', [4, PASS, 9, PASS, 14, X, PASS, PASS, XX, PASS, PASS, PASS]),       # both partners name NT
    ('N', 'EW', [2, 7, 12, 17, PASS, PASS, PASS]),                                   # both sides name hearts
    ('E', 'None', [34, X, XX, PASS, PASS, PASS, 0]),                                 # 7NT XX then anything
    ('S', 'Both', [0, XX, X, X, 0, 1, X, X, XX, XX, 36, 37, PASS, PASS, PASS]),
    ('N', 'None', [PASS, 0, PASS, PASS, PASS]),
    ('N', 'None', [PASS, PASS, 0, PASS, PASS, PASS]),
    ('N', 'None', [0, PASS, X]), ('N', 'None', [0, PASS, PASS, XX]), ('N', 'None', [0, X, PASS, XX]),
    ('N', 'None', [0, X, PASS, PASS, XX]), ('N', 'None', [0, X, XX, X]), ('N', 'None', [X]), ('N', 'None', [XX]),
    # the LONGEST auction (319 calls: three passes, then every bid passed round to a double, passed round to a redouble, passed
    # round to the next bid, and the closing pass — C02.bound_is_attained) with calls offered after its end; seeded change
    # C01e-2 (a fixed-capacity history vector one slot short) fails on its last call only
    ('N', 'Both', [PASS] * 3 + [c for b in range(35) for c in (b, PASS, PASS, X, PASS, PASS, XX, PASS, PASS)] + [PASS, PASS, 0]),
    ('W', 'None', [PASS] * 3 + [c for b in range(35) for c in (b, PASS, PASS, X, PASS, PASS, XX, PASS, PASS)] + [PASS, X]),
]


def walk(rng, ctx, dealer_i, p_pass, p_illegal, p_dbl):
    """a legal-biased random walk with illegal calls injected; returns the list of offered calls"""
    hist, offered = [], []
    while True:
        leg, over = law_legal(dealer_i, hist)
        if over:
            break
        # inject calls the Laws forbid here
        while rng.random() < p_illegal:
            bad = [c for c in range(38) if not leg[c]]
            if not bad:
                break
            # prefer the informative ones: X / XX and bids at or just below the last bid
            last_bid = law_state(dealer_i, hist)[0]
            near = [c for c in bad if c >= 35 or (last_bid is not None and last_bid - 2 <= c <= last_bid)]
            offered.append(rng.choice(near if near and rng.random() < 0.7 else bad))
            ctx.count('illegal_offered')
        r = rng.random()
        if leg[XX] and r < p_dbl * 1.5:
            c = XX
        elif leg[X] and r < p_dbl:
            c = X
        elif rng.random() < p_pass:
            c = PASS
        else:
            bids = [b for b in range(35) if leg[b]]
            if not bids:
                c = PASS
            else:
                # mostly cheap raises so that auctions get long
                k = min(len(bids) - 1, int(rng.expovariate(0.6)))
                c = bids[k]
        hist.append(c)
        offered.append(c)
    # after the end every further call must be refused
    for _ in range(rng.randrange(1, 4)):
        offered.append(rng.randrange(38))
    return offered, hist


def stats(ctx, dealer_i, hist):
    n = len(hist)
    ctx.count('len_%s' % ('4' if n == 4 else '5-8' if n <= 8 else '9-16' if n <= 16 else '17-40' if n <= 40 else '41+'))
    if all(c == PASS for c in hist):
        ctx.count('passed_out')
    if hist[:3] == [PASS] * 3 and n > 4:
        ctx.count('three_passes_then_bid')
    if X in hist:
        ctx.count('has_double')
    if XX in hist:
        ctx.count('has_redouble')
    last_bid, last_bidder, dbl, _ = law_state(dealer_i, hist)
    if dbl == 1:
        ctx.count('final_doubled')
    if dbl == 2:
        ctx.count('final_redoubled')
    # superseded double: a double followed later by a bid
    seen_x = False
    for c in hist:
        if c == X:
            seen_x = True
        elif c < 35 and seen_x:
            ctx.count('double_superseded')
            break
    for j in range(n - 3):
        if hist[j] < 35 and hist[j + 1] == PASS and hist[j + 2] == PASS and hist[j + 3] != PASS:
            ctx.count('fourth_seat_reopens')
            break
    if last_bid is not None:
        den = last_bid % 5
        namers = [(dealer_i + j) % 4 for j, c in enumerate(hist) if c < 35 and c % 5 == den]
        side = last_bidder % 2
        same = [p for p in namers if p % 2 == side]
        if len(set(same)) == 2:
            ctx.count('both_partners_named_denomination')
            if same[0] != last_bidder:
                ctx.count('declarer_is_not_last_bidder')
        if any(p % 2 != side for p in namers):
            ctx.count('both_sides_named_denomination')


def gen_cases(ctx, n_walks, bfs_depth):
    rng = ctx.rng
    if ctx.shard == 0:
        for d, v, seq in EDGE:
            ctx.count('edge')
            yield Case([f'A.new {d} {v}'] + [f'A.call {c}' for c in seq], {'edge': True})
    for i in range(n_walks):
        dealer_i = rng.randrange(4)
        v = rng.choice(VULS)
        mode = rng.random()
        p_pass = 0.75 if mode < 0.2 else 0.5 if mode < 0.6 else 0.3
        offered, hist = walk(rng, ctx, dealer_i, p_pass, rng.choice([0.0, 0.15, 0.4]), rng.choice([0.2, 0.5, 0.8]))
        stats(ctx, dealer_i, hist)
        yield Case([f'A.new {SEATS[dealer_i]} {v}'] + [f'A.call {c}' for c in offered],
                   {'dealer': SEATS[dealer_i], 'vul': v, 'accepted_len': len(hist)})
    # all 38 calls offered after every legal history up to bfs_depth (sharded)
    if bfs_depth:
        k = 0
        frontier = [[]]
        for depth in range(bfs_depth + 1):
            nxt = []
            for h in frontier:
                for dealer_i in ((0,) if depth else (0, 1, 2, 3)):
                    leg, over = law_legal(dealer_i, h)
                    if over:
                        continue
                    k += 1
                    if k % ctx.nshards != ctx.shard:
                        continue
                    for c in range(38):
                        ctx.count('bfs_offer')
                        yield Case([f'A.new {SEATS[dealer_i]} None'] + [f'A.call {x}' for x in h] + [f'A.call {c}'],
                                   {'bfs': depth})
                leg, over = law_legal(0, h)
                if not over and depth < bfs_depth:
                    for c in range(38):
                        if leg[c]:
                            nxt.append(h + [c])
            # keep the frontier bounded: all of depth<=2, a sample beyond
            if len(nxt) > 1500:
                nxt = rng.sample(nxt, 1500)
            frontier = nxt


def nontrivial(case, got):
    # distinct = distinct (dealer, vul, accepted-history, offered call) situations reached
    keys = []
    head = case.ops[0]
    for op, line in zip(case.ops[1:], got[1:]):
        h = line.split(' h=')[1].split(' ')[0] if ' h=' in line else ''
        keys.append((head, h, op))
    return keys


def classify(ops, exp, got):
    i = common.first_diff(exp, got)
    if i is None:
        return 'auction:none'
    e, g = exp[i].split(), got[i].split()
    fields = [a.split('=')[0] if '=' in a else 'result' for a, b in zip(e, g) if a != b]
    return 'auction:' + '+'.join(fields[:3])
