"""Comparison of a scheduled run of the real server with the Lean session model:
per-thread operation sequences (trace level), log records and the byte stream of every connection
(output level), completion (every thread finished, no deadlock)."""
import json

import common
import sched as S
import session
from session import SEATS, FORMAL

RANKS = '23456789TJQKA'


def hx(s):
    b = s if isinstance(s, (bytes, bytearray)) else s.encode('utf-8')
    return bytes(b).hex() if b else '-'


def cs(cards):
    return ','.join(str(c) for c in sorted(cards)) if cards else '-'


def scenario_ops(sc):
    """X.* lines that load the scenario into the driver"""
    ops = [f'X.begin {hx(sc["teams"]["NS"])} {hx(sc["teams"]["EW"])}']
    for b in sc['boards']:
        dda = '-'
        if b.get('dda'):
            dda = ','.join(str(b['dda'][p][s]) for p in SEATS for s in ['C', 'D', 'H', 'S', 'NT'])
        ops.append(f'X.board {hx(b["id"])} {b["dealer"]} {b["vul"]} ' + ' '.join(cs(h) for h in b['deal']) + f' {dda}')
        for c, text in b['calls']:
            ops.append(f'X.call {c} {hx(text)}')
        for c, text, _who in b['plays']:
            ops.append(f'X.card {c} {hx(text)}')
    return ops


QUERY = (['X.run', 'X.logops', 'X.nrec'] + [f'X.prog {t}' for t in
         ['main'] + [f'seat{p}' for p in SEATS] + [f'client{p}' for p in SEATS]] + [f'X.stream {p}' for p in SEATS] +
         [f'X.reactmodel {p}' for p in SEATS] + ['X.mainmodel'])


def model_session(driver, sc):
    ops = scenario_ops(sc)
    out = driver.run(ops + QUERY)
    res = dict(zip(QUERY, out[len(ops):]))
    if any(o != 'ok' for o in out[:len(ops)]):
        raise common.Infra('driver rejected scenario ops: ' + str([o for o in out[:len(ops)] if o != 'ok'][:3]))
    n = int(res['X.nrec'])
    recs = driver.run(ops + [f'X.rec {k}' for k in range(n)])[len(ops):]
    res['records'] = recs
    return res


# ------------------------------------------------------------------ implementation side -> canonical form
def thread_tokens(r, qmap):
    """per-thread op tokens in the model's vocabulary"""
    out = {}
    bar = None

    def tok(kind, obj, payload, role, seat):
        if kind in ('put', 'get'):
            ch = qmap.get(obj)
            if ch is None:
                return None
            if kind == 'put':
                return f's:{ch}:{hx(payload)}'
            return f'r:{ch}'
        if kind == 'arrive':
            return 'A'
        if kind == 'depart':
            return 'D'
        if kind == 'send':
            body = payload[:-2] if payload.endswith(b'\r\n') else payload + b'<no CRLF>'
            ch = ('s2c' if role == 'seat' else 'c2s') + seat
            return f's:{ch}:{hx(body)}'
        if kind == 'recv':
            ch = ('c2s' if role == 'seat' else 's2c') + seat
            return f'r:{ch}'
        return None
    for label, ops in r.ops.items():
        if label == 'main':
            toks = [tok(k, o, p, 'main', None) for (k, o, p) in ops]
            out['main'] = [t for t in toks if t]
        elif label.startswith('seat:client-'):
            seat = label[-1]
            # admission prefix: everything before the first barrier arrival
            idx = next((i for i, (k, o, p) in enumerate(ops) if k == 'arrive'), len(ops))
            toks = [tok(k, o, p, 'seat', seat) for (k, o, p) in ops[idx:]]
            out['seat' + seat] = [t for t in toks if t]
        elif label.startswith('client-') and len(label) == 8:
            seat = label[-1]
            sends = [i for i, (k, o, p) in enumerate(ops) if k == 'send']
            idx = sends[1] + 1 if len(sends) >= 2 else len(ops)
            toks = [tok(k, o, p, 'client', seat) for (k, o, p) in ops[idx:]]
            out['client' + seat] = [t for t in toks if t]
    return out


def show_contract_json(c):
    return hx(c)


def record_line(d):
    """canonical line of one log record (dict from the JSON log), same format as Driver/Session.showRecord"""
    def card_idx(s):
        return 'CDHS'.index(s[0]) * 13 + RANKS.index(s[1])

    def hand(l):
        return cs([card_idx(x) for x in l])

    def call_idx(s):
        if s == 'Pass':
            return 35
        if s == 'X':
            return 36
        if s == 'XX':
            return 37
        return (int(s[0]) - 1) * 5 + ['C', 'D', 'H', 'S', 'NT'].index(s[1:])
    play = 'null'
    if d['play_history'] is not None:
        play = ';'.join(f'{t["leader"]}:{",".join(str(card_idx(x)) for x in t["cards"])}' for t in d['play_history'])
    dda = '-'
    if 'dda' in d:
        dda = ','.join(str(d['dda'][p][s]) for p in SEATS for s in ['C', 'D', 'H', 'S', 'NT'])
    assert d['players']['N'] == d['players']['S'] and d['players']['E'] == d['players']['W']
    return (f'id={hx(d["board_id"])} ns={hx(d["players"]["N"])} ew={hx(d["players"]["E"])} dealer={d["dealer"]} '
            f'vul={d["vulnerability"]} deal={hand(d["deal"]["N"])}|{hand(d["deal"]["E"])}|{hand(d["deal"]["S"])}|{hand(d["deal"]["W"])} '
            f'calls={",".join(str(call_idx(x)) for x in d["bid_history"])} contract={hx(d["contract"])} '
            f'decl={"-" if d["declarer"] is None else d["declarer"]} play={play} '
            f'tricks={"null" if d["taken_trick"] is None else d["taken_trick"]} '
            f'ns_score={d["scores"]["NS"]} ew_score={d["scores"]["EW"]} dda={dda}')


def stream_messages(b):
    """split a connection's server->client byte log at CR LF"""
    parts = bytes(b).split(b'\r\n')
    tail = parts.pop()
    msgs = [hx(p) for p in parts]
    if tail:
        msgs.append('TRAILING:' + hx(tail))
    return msgs


def compare(sc, r, model, want_streams=True, want_ops=True, want_log=True, driver=None):
    """list of differences (dicts) between the run `r` and the model of scenario `sc`"""
    diffs = []
    if r.status != 'DONE':
        diffs.append({'what': 'completion', 'status': r.status, 'blocked': r.deadlock})
        return diffs
    if r.exceptions:
        diffs.append({'what': 'exception', 'threads': r.exceptions})
    unfinished = [l for l, f in r.finished.items() if not f]
    if unfinished:
        diffs.append({'what': 'unfinished-threads', 'threads': unfinished})
    if getattr(r, 'killed', None):
        # Server.run() returned while threads it started (daemons) were still running: they die with the process
        diffs.append({'what': 'unfinished-threads', 'threads': r.killed, 'how': 'still running when Server.run() ended'})
    for p in SEATS:
        if r.outs[p].get('end') != 'End of session':
            diffs.append({'what': 'client-did-not-see-end-of-session', 'seat': p, 'got': r.outs[p].get('end'),
                          'aborted': r.outs[p].get('aborted')})
    if want_log:
        try:
            doc = json.loads(r.log_text)
            recs = [record_line(d) for d in doc['logs']]
            for d in doc['logs']:
                if d['score_type'] != 'IMP':
                    diffs.append({'what': 'score_type', 'got': d['score_type']})
        except Exception as e:
            diffs.append({'what': 'log-not-parseable', 'error': repr(e), 'text': (r.log_text or '')[-200:]})
            recs = None
        if recs is not None and recs != model['records']:
            i = next((i for i, (a, b) in enumerate(zip(recs, model['records'])) if a != b), min(len(recs), len(model['records'])))
            diffs.append({'what': 'log-record', 'index': i,
                          'impl': recs[i] if i < len(recs) else None,
                          'model': model['records'][i] if i < len(model['records']) else None,
                          'n_impl': len(recs), 'n_model': len(model['records'])})
    if want_streams:
        by_client = {c[0]: c for c in r.conns}
        for p in SEATS:
            c = by_client.get(f'client-{p}')
            got = stream_messages(c[1]) if c else []
            # admission part of the stream: "<Seat> <team> seated", then the model stream starts with Teams
            exp = model[f'X.stream {p}'].split(',') if model[f'X.stream {p}'] else []
            got_body = got[1:]
            if got_body != exp:
                i = next((i for i, (a, b) in enumerate(zip(got_body, exp)) if a != b), min(len(got_body), len(exp)))
                diffs.append({'what': 'seat-stream', 'seat': p, 'index': i,
                              'impl': bytes.fromhex(got_body[i]).decode('utf-8', 'replace') if i < len(got_body) and got_body[i] != '-' and not got_body[i].startswith('TRAILING') else (got_body[i] if i < len(got_body) else None),
                              'model': bytes.fromhex(exp[i]).decode('utf-8', 'replace') if i < len(exp) and exp[i] != '-' else (exp[i] if i < len(exp) else None),
                              'n_impl': len(got_body), 'n_model': len(exp)})
    if want_ops:
        # the REACTIVE seat-thread model (Model/SeatThread.lean: control flow decided by the queue messages only) …
        for p in SEATS:
            # … agrees with the straight-line session model (a theorem; cross-checked here by evaluation) …
            if model.get(f'X.reactmodel {p}') != 'same':
                diffs.append({'what': 'thread-ops', 'thread': f'seat{p} (reactive model vs session model)',
                              'model': (model.get(f'X.reactmodel {p}') or '')[:300]})
        if model.get('X.mainmodel') != 'same':
            diffs.append({'what': 'thread-ops', 'thread': 'main (reactive model vs session model)',
                          'model': (model.get('X.mainmodel') or '')[:300]})
        if driver is not None:
            d = main_reactive_diff(sc, r, driver, model)
            if d:
                diffs.append(d)
        if driver is not None:
            # the TRANSLATED thread programs (Generated/PyCoreThreads.lean, from the source through desugar_threads.py and
            # translate_py.py), fed what the world handed the real threads, perform the real threads' operations
            import thread_check as TC
            tdiffs, _n = TC.check_session(common.REPO, r, driver, bundled=(), boards=session.board_settings(sc))
            for d in tdiffs:
                diffs.append(dict(d, what='thread-ops', thread=f'{d.get("thread")} ({d["what"]}: source -> sequential program over the world object)'))
        react = reactive_lines(sc, r, driver) if driver is not None else {}
        toks = thread_tokens(r, r.qmap)
        for p, line in react.items():
            # … and, fed the messages the REAL main thread queued and the REAL client sent, yields the operations the REAL
            # seat thread performed
            got = sort_send_runs(toks.get('seat' + p, []))
            exp = sort_send_runs([x for x in line.split(' ') if x])
            if got != exp:
                i = next((i for i, (a, b) in enumerate(zip(got, exp)) if a != b), min(len(got), len(exp)))
                diffs.append({'what': 'thread-ops', 'thread': f'seat{p} (reactive model on the observed streams)', 'index': i,
                              'impl': decode_tok(got[i]) if i < len(got) else None,
                              'model': decode_tok(exp[i]) if i < len(exp) else None, 'n_impl': len(got), 'n_model': len(exp)})
        for t in ['main'] + [f'seat{p}' for p in SEATS] + [f'client{p}' for p in SEATS]:
            # consecutive sends of one thread commute (different channels) or are ordered per channel:
            # sort maximal runs of sends by channel (stable), so that reordering independent puts is no alarm
            exp = sort_send_runs([x for x in model[f'X.prog {t}'].split(' ') if x and not x.startswith('e:')])
            got = sort_send_runs(toks.get(t, []))
            if got != exp:
                i = next((i for i, (a, b) in enumerate(zip(got, exp)) if a != b), min(len(got), len(exp)))
                diffs.append({'what': 'thread-ops', 'thread': t, 'index': i,
                              'impl': got[i] if i < len(got) else None, 'model': exp[i] if i < len(exp) else None,
                              'n_impl': len(got), 'n_model': len(exp)})
    return diffs


def reactive_lines(sc, r, driver):
    """X.react for every seat on the streams observed in the run: what main put on the seat's queue, what the client sent"""
    inv = {v: k for k, v in r.qmap.items()}
    ops = []
    seats = []
    by_client = {c[0]: c for c in r.conns}
    for p in SEATS:
        qlabel = inv.get('m2t' + p)
        q = [pl for (k, o, pl) in r.ops.get('main', []) if k == 'put' and o == qlabel]
        conn = by_client.get(f'client-{p}')
        if conn is None or qlabel is None:
            continue
        s2c = stream_messages(conn[1])
        c2s = stream_messages(conn[2])
        if len(s2c) < 2 or len(c2s) < 3:
            continue
        teams = s2c[1]                      # "<Seat> <team> seated", then the Teams message
        c = c2s[2:]                         # after the connection request and "ready for teams"
        ops.append(f'X.react {p} {teams} {",".join(hx(m) for m in q) or "-"} {",".join(c) or "-"}')
        seats.append(p)
    if not ops:
        return {}
    out = driver.run(ops)
    return dict(zip(seats, out))


def main_reactive_diff(sc, r, driver, model):
    """the reactive MAIN-thread model (Model/MainThread.lean: it parses what it receives, runs its own auction and play,
    assembles the record) fed the messages the REAL seat threads put on main's queues must perform the operations the
    REAL main thread performed and write the records found in the log"""
    inv = {v: k for k, v in r.qmap.items()}
    streams = []
    for p in SEATS:
        qlabel = inv.get('t2m' + p)
        msgs = [pl for (k, o, pl) in r.ops.get('seat:client-' + p, []) if k == 'put' and o == qlabel]
        streams.append(','.join(hx(m) for m in msgs) or '-')
    ops = scenario_ops(sc)
    line = driver.run(ops + ['X.mainreact ' + ' '.join(streams)])[-1]
    if line == 'RAISES':
        return {'what': 'thread-ops', 'thread': 'main (reactive model on the observed streams)', 'model': 'RAISES'}
    acts, _, recs = line.partition(' || ')
    exp = sort_send_runs([x for x in acts.split(' ') if x and not x.startswith('e:')])
    got = sort_send_runs(thread_tokens(r, r.qmap).get('main', []))
    if got != exp:
        i = next((i for i, (a, b) in enumerate(zip(got, exp)) if a != b), min(len(got), len(exp)))
        return {'what': 'thread-ops', 'thread': 'main (reactive model on the observed streams)', 'index': i,
                'impl': decode_tok(got[i]) if i < len(got) else None, 'model': decode_tok(exp[i]) if i < len(exp) else None,
                'n_impl': len(got), 'n_model': len(exp)}
    if (recs.split(' ## ') if recs else []) != model['records']:
        return {'what': 'thread-ops', 'thread': 'main (records of the reactive model vs session model)',
                'model': recs[:300]}
    return None


def sort_send_runs(toks):
    out, run = [], []
    for t in toks:
        if t.startswith('s:'):
            run.append(t)
        else:
            out.extend(sorted(run, key=lambda x: x.split(':')[1]))
            run = []
            out.append(t)
    out.extend(sorted(run, key=lambda x: x.split(':')[1]))
    return out


def decode_tok(t):
    if t and t.count(':') == 2:
        k, ch, h = t.split(':')
        try:
            return f'{k}:{ch}:' + (bytes.fromhex(h).decode('utf-8', 'replace') if h != '-' else '')
        except ValueError:
            return t
    return t
