#!/bin/bash
# usage: mutate.sh NAME 'python-expression transforming source string s'
set -e
name=$1
root=/tmp/regex/mut/$name
mkdir -p $root/BridgeVerif/Model
/venv/bin/python - "$2" $root <<'PY'
import sys
s=open('/verif/lean/BridgeVerif/Model/Regex.lean').read()
# drop the sanity examples (they would fail on a mutant)
s=s[:s.index('/-! ## Sanity checks')]+'\nend Bridge.Re\n'
old,new=eval(sys.argv[1])
assert s.count(old)==1,(s.count(old),old)
s=s.replace(old,new)
open(sys.argv[2]+'/BridgeVerif/Model/Regex.lean','w').write(s)
PY
cd $root
lean -R $root -o $root/BridgeVerif/Model/Regex.olean -c $root/Regex.c $root/BridgeVerif/Model/Regex.lean
cp /tmp/regex/Driver.lean $root/Driver.lean
LEAN_PATH=$root lean -R $root -c $root/Driver.c $root/Driver.lean
leanc -O2 -o $root/driver $root/Driver.c $root/Regex.c
echo built $root/driver
