#!/venv/bin/python
"""Differential test: CPython `re` versus the Lean model Bridge.Re (BridgeVerif/Model/Regex.lean).

usage: /venv/bin/python /tmp/regex/difftest.py [--random N] [--soup N] [--mut N] [--seed S] [--no-chars] [--native]
       (default: the driver is interpreted with `lake env lean --run /tmp/regex/Driver.lean`; --native compiles it)

Sections
  chars  : lowerNat / foldNat / isSpace / isDigit / isWord for EVERY code point, plus a check
           (inside Python) that "fold(c) == fold(x)" is exactly sre's IGNORECASE rule.
  fixed  : the code base's real patterns on realistic + mutated subjects.
  random : random patterns of the subset x random short subjects.
  soup   : random character soup as pattern (parser agreement: re.error => Lean says N;
           Lean accepts => same results as CPython).
Every (pattern, subject, flag) case is run through match, fullmatch, search, sub, findall.
"""
import re, sys, random, subprocess, warnings, argparse, time, _sre
import re._parser as sre_parse
import re._constants as sre_c
import re._casefix as casefix

warnings.simplefilter('ignore')
LEAN_DIR = '/verif/lean'
DRIVER = '/tmp/regex/Driver.lean'

def enc(s):
    return ','.join('%x' % ord(c) for c in s) or '-'

# ---------------------------------------------------------------- expected answers
def show_match(m):
    if m is None:
        return 'none'
    gs = []
    for i in range(1, m.re.groups + 1):
        b, e = m.span(i)
        gs.append('-' if b < 0 else '%d,%d' % (b, e))
    return '%d,%d|%s' % (m.start(), m.end(), ';'.join(gs))

def expected(op, ic, pat, s, repl):
    flags = re.I if ic else 0
    try:
        rx = re.compile(pat, flags)
    except (re.error, OverflowError, RecursionError):
        return 'N'
    if op == 'M':
        return show_match(rx.match(s))
    if op == 'F':
        return show_match(rx.fullmatch(s))
    if op == 'S':
        return show_match(rx.search(s))
    if op == 'U':
        return '=' + ','.join('%x' % ord(c) for c in rx.sub(repl, s))
    if op == 'A':
        rows = rx.findall(s)
        if not rows:
            return '[]'
        out = []
        for r in rows:
            if isinstance(r, str):
                r = (r,)
            out.append(';'.join('_' + ','.join('%x' % ord(c) for c in t) for t in r))
        return '/'.join(out)
    raise ValueError(op)

NATIVE = False
NATIVE_DRIVER = '/tmp/regex/driver'

def build_native():
    """Optional speed-up (about 100x): compile Driver.lean + the module's generated C into /tmp/regex/driver."""
    import os
    env = dict(os.environ, LEAN_PATH=LEAN_DIR + '/.lake/build/lib/lean')
    subprocess.run(['lean', '-R', '/tmp/regex', '-c', '/tmp/regex/Driver.c', DRIVER], check=True, env=env)
    subprocess.run(['leanc', '-O2', '-o', '/tmp/regex/driver', '/tmp/regex/Driver.c',
                    LEAN_DIR + '/.lake/build/ir/BridgeVerif/Model/Regex.c'], check=True)

LINE_TIMEOUT = 1.0
SKIPPED = []

def run_lean(lines):
    """Feed the driver line by line. A line that takes more than LINE_TIMEOUT seconds is answered
    'SLOW' (the driver is restarted): CPython prunes some hopeless matches with its minimum-width
    check, where a plain backtracking search is exponential; such cases carry no information."""
    import select, os
    t0 = time.time()
    open('/tmp/regex/last_input.txt', 'w').write('\n'.join(lines) + '\n')
    cmd = [NATIVE_DRIVER] if NATIVE else ['lake', 'env', 'lean', '--run', DRIVER]
    def start():
        return subprocess.Popen(cmd, cwd=LEAN_DIR, stdin=subprocess.PIPE, stdout=subprocess.PIPE, bufsize=0)
    p = start()
    out = []
    buf = b''
    CH = 200
    i = 0
    while i < len(lines):
        chunk = lines[i:i + CH]
        p.stdin.write(('\n'.join(chunk) + '\n').encode())
        got = 0
        last = time.time()
        limit = LINE_TIMEOUT if (NATIVE or i > 0) else 60.0   # interpreter start-up
        while got < len(chunk):
            r, _, _ = select.select([p.stdout], [], [], 0.1)
            if r:
                data = os.read(p.stdout.fileno(), 1 << 16)
                if not data:
                    print('LEAN DRIVER DIED at line', i + got, lines[i + got]); sys.exit(2)
                buf += data
                while b'\n' in buf and got < len(chunk):
                    l, buf = buf.split(b'\n', 1)
                    out.append(l.decode()); got += 1; last = time.time()
                    limit = LINE_TIMEOUT if NATIVE else 10.0
            elif time.time() - last > limit:
                p.kill(); p.wait()
                SKIPPED.append(lines[i + got])
                out.append('SLOW'); got += 1
                buf = b''
                p = start()
                rest = chunk[got:]
                if rest:
                    p.stdin.write(('\n'.join(rest) + '\n').encode())
                last = time.time()
                limit = LINE_TIMEOUT if NATIVE else 60.0
        i += len(chunk)
    p.stdin.close(); p.wait()
    return out, time.time() - t0

# ---------------------------------------------------------------- generator (subset)
ALPHA = ['a', 'b', 'A', 'B', '1', '2', ' ', '.', '-', '"', 's', '\u017f', '\u212a', 'k', '\n']
EXTRA_SUBJ = ['S', 'K', 'i', 'I', '\u0130', '\u0131', '\t', '\u00a0', '\u0663', '_', ']', '[', '\\', '(', ')',
              '{', '}', '|', '*', '+', '?', '^', '$', "'", '/', 'z', 'Z', '9', '0', '\u03c3', '\u03c2', '\u03a3',
              '\u00b5', '\u03bc', '\u00e9', '\u00c9', '\x1c', '\x85', '\u2028', '\u4e00']
META = set('.^$*+?{}[]\\|()')
PUNCT_ESC = list(".[](){}'\"\\|*+?-/^$")

def lit(c):
    if c == '\n':
        return random.choice(['\\n', '\n'])
    if c in META or (c in '-"\'/ ' and random.random() < 0.3):
        return '\\' + c
    return c

def gen_class():
    neg = random.random() < 0.3
    items = []
    n = random.choice([1, 1, 2, 2, 3, 4])
    first_special = random.random()
    if first_special < 0.1:
        items.append(']')
    elif first_special < 0.2:
        items.append('-')
    for _ in range(n):
        r = random.random()
        if r < 0.35:
            c = random.choice(ALPHA)
            if c == '\n':
                items.append(random.choice(['\\n', '\n']))
            elif c == '-':
                items.append('\\-')
            elif c in '.":' and random.random() < 0.4:
                items.append('\\' + c)
            else:
                items.append(c)
        elif r < 0.65:
            items.append(random.choice(['a-b', 'A-B', 'a-z', 'A-Z', '1-2', '0-9', '2-9', ' -.', 'a-s', 'K-s', '!-~',
                                        'j-l', 'J-L', 'r-t', '\u017f-\u017f', 'a-\u212a', '\\.-9', ' -\\-', 'h-j', 'H-J']))
        elif r < 0.85:
            items.append(random.choice(['\\d', '\\D', '\\s', '\\S', '\\w', '\\W']))
        else:
            items.append(random.choice(['\\' + c for c in PUNCT_ESC] + ['\\t', '\\n', '\\r', '[', '(', ')', '{', '}', '|', '*', '+', '?', '$', '^', '.']))
    if random.random() < 0.12:
        items.append('-')
    body = ''.join(items)
    if body.startswith('^') and not neg:
        body = '\\' + body
    return '[' + ('^' if neg else '') + body + ']'

def gen_atom(depth):
    r = random.random()
    if depth > 0 and r < 0.30:
        inner = gen_alt(depth - 1)
        return ('(' if random.random() < 0.7 else '(?:') + inner + ')'
    if r < 0.62:
        return lit(random.choice(ALPHA))
    if r < 0.70:
        return '.'
    if r < 0.80:
        return random.choice(['\\d', '\\D', '\\s', '\\S', '\\w', '\\W'])
    if r < 0.84:
        return random.choice(['\\' + c for c in PUNCT_ESC] + ['\\t', '\\n', '\\r', '}', ']'])
    return gen_class()

def gen_quant():
    r = random.random()
    if r < 0.5:
        return ''
    if r < 0.62:
        return '*'
    if r < 0.72:
        return '+'
    if r < 0.82:
        return '?'
    n = random.choice([0, 0, 1, 1, 2, 2, 3])
    k = random.random()
    if k < 0.34:
        return '{%d}' % n
    if k < 0.67:
        return '{%d,%d}' % (n, n + random.choice([0, 1, 1, 2, 3]))
    return '{%d,}' % n

def gen_seq(depth):
    n = random.choice([0, 1, 1, 2, 2, 3, 3, 4])
    return ''.join(gen_atom(depth) + gen_quant() for _ in range(n))

def gen_alt(depth):
    n = random.choice([1, 1, 1, 2, 2, 3])
    return '|'.join(gen_seq(depth) for _ in range(n))

def gen_subject():
    n = random.choice([0, 1, 2, 3, 4, 5, 6, 7, 8, 10, 12])
    return ''.join(random.choice(ALPHA) for _ in range(n))

def gen_subject_from(pat):
    """A subject biased towards matching: characters taken from the pattern's literals."""
    pool = [c for c in pat if c not in META and c not in 'dDsSwW,0123456789'] or ALPHA
    pool = pool + ALPHA
    n = random.choice([1, 2, 3, 4, 5, 6, 8, 10])
    return ''.join(random.choice(pool) for _ in range(n))

# ---------------------------------------------------------------- "tiny" generator: {a,b}, dense groups / quantifiers / empty branches
def tiny_alt(depth):
    return '|'.join(tiny_seq(depth) for _ in range(random.choice([1, 1, 2, 2, 3])))

def tiny_seq(depth):
    return ''.join(tiny_item(depth) for _ in range(random.choice([0, 1, 1, 2, 2, 3])))

def tiny_item(depth):
    r = random.random()
    if depth > 0 and r < 0.55:
        atom = ('(' if random.random() < 0.8 else '(?:') + tiny_alt(depth - 1) + ')'
    elif r < 0.9:
        atom = random.choice(['a', 'b', 'a', 'b', '.', '[ab]', '[^a]'])
    else:
        atom = random.choice(['()', '(?:)', '(|a)', '(a|)', '(a?)', '(b*)'])
    q = random.random()
    if q < 0.35:
        return atom
    return atom + random.choice(['*', '+', '?', '*', '+', '?', '{0}', '{1}', '{2}', '{0,1}', '{0,2}', '{1,2}', '{2,3}',
                                 '{0,}', '{1,}', '{2,}', '{3}', '{1,3}'])

# ---------------------------------------------------------------- fixed patterns
FIXED = [
    (r'([2-9TJQKA]*).([2-9TJQKA]*).([2-9TJQKA]*).([2-9TJQKA]*)',
     ['AKQ2.T98.765.432J', 'AKQ.JT9..8765432', '...', 'AK', 'akq.jt.98.7', 'AKQJT98765432...', '.AKQJT98765432..',
      'AKQ2 T98 765 432J', 'AKQ2.T98.765', 'AKQ2.T98.765.432J.AK', '1KQ2.T98.765.432J', 'AKQ2\nT98.765.432J', '']),
    (r'([NESW]):([2-9TJQKA\.]{16}|-) ([2-9TJQKA\.]{16}|-) ([2-9TJQKA\.]{16}|-) ([2-9TJQKA\.]{16}|-)',
     ['N:AKQJ.T987.6543.2 T98.AKQJ.2.76543 765.65.AKQJT.98 432.432.987.AKQJ',
      'N:AKQJ.T987.6543.2 - - -', 'W:- - - AKQJ.T987.6543.2', 'S:- - - -', 'n:akqj.t987.6543.2 - - -',
      'N:AKQJ.T987.6543.2  - - -', 'N:AKQJ.T987.6543 - - -', 'X:- - - -', 'N:- - -', 'N:AKQJ.T987.6543.22 - - -',
      'E:................ - - -', 'N:AKQJT98765432... ...AKQJT98765432 .AKQJT98765432.. ..AKQJT98765432.']),
    (r'\[[ ]?([A-Z][a-zA-Z]+) "([^"]*)"[ ]?\]',
     ['[Dealer "N"]', '[ Event "x y" ]', '[event "N"]', '[Deal "N:AKQJ.T987.6543.2 - - -"]', '[A "a"b"]',
      '[Dealer  "N"]', '[Dealer "N" ]', '[Dealer ""]', '[D "N"]', '[Dealer "N"', 'x[Dealer "N"]y[Vulnerable "None"]',
      '[Dealer "a\nb"]', '[DeaLer "N"]', '[Dealer1 "N"]', '[ \u0130x "N"]', '[\u212ax "k"]']),
    (r'[ \t\r\n]+', [' \t\r\n a "b c" d', 'abc', '', ' ', 'a  b\t\tc\n', '\u00a0 \x0b x', '\r\n\r\n']),
    (r'"[^"]*"|[ \t\r\n]+', [' \t\r\n a "b c" d', '"a b" "c d"', '"unterminated x y', 'a"b"c "" d', '""', '" " "', 'no quotes here']),
    (r'% PBN (\d+)\.(\d+)', ['% PBN 2.1', '% PBN 10.23 extra', '% PBN \u0662.\u0661', '% pbn 2.1', '% PBN 2,1', '% PBN .1',
                              '% PBN 2.', 'x % PBN 2.1', '% PBN  2.1', '% PBN 2.1.3', '% PBN \uff12.\U0001d7d9']),
    (r'% EXPORT', ['% EXPORT', '% export', '%EXPORT', '% EXPORT ', ' % EXPORT', '% EXPORT % EXPORT']),
    (r'North bids (\d)(C|D|H|S|NT)', ['North bids 3NT', 'North bids 1C', 'North bids 7S Alert.', 'north BIDS 3nt', 'North bids 8X',
                                       'North bids 1N', 'North bids 12C', 'North  bids 1C', 'North bids \u0663H', 'North bids 1\u017f',
                                       'NORTH BIDS 4\u017f', 'North bids 2nT', 'xNorth bids 2D North bids 3H']),
    (r'North (.*)', ['North passes', 'North doubles', 'North \n x', 'North ', 'North', 'north x', 'x North y North z', 'North a\nNorth b']),
    (r'East plays (.*)', ['East plays KS', 'east plays ks', 'East plays ', 'East plays', 'East plays 2C\n', 'East  plays 2C']),
    (r'North\s+ready\s+for\s+teams', ['North ready for teams', 'North  ready\tfor\u00a0teams', 'Northreadyforteams',
                                      'North ready for  teams.', 'north READY for Teams', 'North\nready\nfor\nteams', 'North ready for team',
                                      'North\u2003ready\x1cfor\u3000teams', 'North\u200bready for teams']),
    (r'Connecting "(.*)" as (.*) using protocol version (\d+)',
     ['Connecting "WBridge5" as North using protocol version 18', 'Connecting "a "b" c" as ANYPL using protocol version 1',
      'Connecting "" as  using protocol version 18', 'Connecting "x" as North using protocol version ', 'connecting "x" as north USING protocol VERSION 18',
      'Connecting "x" as N using protocol version 18 using protocol version 19', 'Connecting "x as North using protocol version 18']),
    (r'\s+Alert\.\s*', ['North bids 1NT Alert. ', '  Alert.', 'Alert.', 'x Alert', 'x Alert.  y Alert.', 'x\tALERT.\n', 'x \u00a0Alert.\u2028\u2029z', ' Alert, ']),
    (r'Teams : N/S : "(.*)".? E/W : "(.*)"', ['Teams : N/S : "Blue" E/W : "Red"', 'Teams : N/S : "Blue". E/W : "Red"',
                                              'Teams : N/S : "a"b" E/W : "c" E/W : "d"', 'Teams : N/S : "" E/W : ""', 'Teams : N/S : "x"  E/W : "y"',
                                              'Teams : N/S : "x".. E/W : "y"', 'teams : n/s : "x" e/w : "y"', 'Teams : N/S : "x" E/W : "y', 'Teams : N/S : "x"\n E/W : "y"']),
    (r'Board number (\d+)\. Dealer (.*)\. (.*) vulnerable\.', ['Board number 12. Dealer North. Neither vulnerable.',
                                                               'Board number 1. Dealer E. N/S vulnerable. x. y vulnerable.', 'Board number . Dealer N. Both vulnerable.',
                                                               'Board number 3. Dealer . E/W vulnerable.', 'board NUMBER 3. dealer South. BOTH VULNERABLE.',
                                                               'Board number 3, Dealer South. Both vulnerable.', 'Board number 03. Dealer South.  vulnerable.',
                                                               'Board number 3. Dealer South. Both vulnerable']),
    (r"West\'s cards : (.*)", ["West's cards : S A K. H -. D 2. C 3.", "West's cards : ", "West's cards :", "Wests cards : x", "WEST'S CARDS : s a",
                                "West's cards : a\nb", "x West's cards : y"]),
    (r'S (.*)\. H (.*)\. D (.*)\. C (.*)\.\s?', ['S A K J. H Q 2. D -. C 9 8 7. ', 'S A K J. H Q 2. D -. C 9 8 7.', 'S A K J. H Q 2. D -. C 9 8 7',
                                                 'S . H . D . C .', 'S A. H K. D Q. C J. S 2. H 3. D 4. C 5. ', 's a. h k. d q. c j.\n', 'S A. H K. D Q. C J.  x',
                                                 'S A K J H Q 2 D - C 9 8 7', 'S -. H -. D -. C A K Q J T 9 8 7 6 5 4 3 2.\u00a0']),
    (r'(.*) to lead', ['North to lead', ' to lead', 'x to lead to lead', 'to lead', 'North to  lead', 'NORTH TO LEAD', 'a\nWest to lead\n', '']),
]

MUT_ALPHA = list('aAzZ09 .-":[]()\\/\'%\t\n\r') + ['\u00a0', '\u0663', '\u017f', '\u212a', '\u0130', '\u0131', '\x0b', '\x1c', '\u2028']

def mutate(s):
    s = list(s)
    for _ in range(random.choice([1, 1, 2, 3])):
        k = random.random()
        if s and k < 0.3:
            del s[random.randrange(len(s))]
        elif k < 0.6:
            s.insert(random.randrange(len(s) + 1), random.choice(MUT_ALPHA))
        elif s and k < 0.8:
            i = random.randrange(len(s)); s[i] = s[i].swapcase()[:1] or s[i]
        elif s:
            s[random.randrange(len(s))] = random.choice(MUT_ALPHA)
    return ''.join(s)

# ---------------------------------------------------------------- subset check for soup patterns
OUT_OPS = {sre_c.AT, sre_c.MIN_REPEAT, sre_c.POSSESSIVE_REPEAT, sre_c.GROUPREF, sre_c.GROUPREF_EXISTS,
           sre_c.ASSERT, sre_c.ASSERT_NOT, sre_c.ATOMIC_GROUP}

def tree_out_of_scope(p):
    for op, av in p:
        if op in OUT_OPS:
            return True
        if op is sre_c.SUBPATTERN:
            g, af, df, sub = av
            if af or df or tree_out_of_scope(sub):
                return True
        elif op is sre_c.BRANCH:
            if any(tree_out_of_scope(b) for b in av[1]):
                return True
        elif op in (sre_c.MAX_REPEAT,):
            if tree_out_of_scope(av[2]):
                return True
    return False

SOUP = list('ab1 ()()[]|*+?{}{},,2-^\\\\.dsw:') + ['(?:', '{2}', '{1,2}', '{2,}', '[^', '\\d', '\\.', '\\]']

def classify_rejected(pat):
    """Why may Lean reject a pattern that CPython compiles? returns a reason or None."""
    try:
        tree = sre_parse.parse(pat)
    except Exception:
        return 'python-error'
    if tree_out_of_scope(tree) or tree.state.groupdict:
        return 'out-of-scope construct'
    if re.search(r'\\[A-Za-z0-9]', re.sub(r'\\[dDsSwWtnr\\]', '', pat)):
        return 'unsupported escape'
    if '{' in re.sub(r'\\.', '', pat):
        # an unescaped brace that is not {n} {n,m} {n,}: literal brace or {,m}
        stripped = re.sub(r'\{\d+(,\d*)?\}', '', re.sub(r'\\.', '', pat))
        if '{' in stripped or re.search(r'\[[^\]]*\{', pat):
            return 'literal brace / {,m}'
        return 'literal brace / {,m}'  # braces inside a class are also refused
    if '(?' in pat:
        return 'out-of-scope construct'
    return None

# ---------------------------------------------------------------- character tables
def check_fold_model():
    """fold(c)==fold(x) must be exactly sre's IGNORECASE relation (literals and classes)."""
    low = [_sre.unicode_tolower(c) for c in range(0x110000)]
    rep = {}
    for k, v in casefix._EXTRA_CASES.items():
        cls = sorted((k,) + v)
        for m in cls:
            rep[m] = cls[0]
    fold = [rep.get(l, l) for l in low]
    interesting = sorted({c for c in range(0x110000) if low[c] != c or _sre.unicode_iscased(c)} | set(rep)
                         | set(range(0x250)) | {0x4e00, 0x10ffff})
    interesting = [c for c in interesting if not 0xd800 <= c < 0xe000]
    big = ''.join(chr(c) for c in interesting)
    byfold = {}
    for c in interesting:
        byfold.setdefault(fold[c], set()).add(chr(c))
    bad = 0
    sample = interesting if len(interesting) < 4000 else interesting
    for c in sample:
        want = byfold[fold[c]]
        for pat in (re.escape(chr(c)), '[' + re.escape(chr(c)) + ']', '[%s-%s]' % (re.escape(chr(c)), re.escape(chr(c)))):
            got = set(re.compile(pat, re.I).findall(big))
            if got != want:
                bad += 1
                if bad < 10:
                    print('FOLD MODEL MISMATCH', hex(c), pat, sorted(map(hex, map(ord, got ^ want))))
    print('fold model vs sre on %d characters x 3 pattern forms: %d mismatches' % (len(sample), bad))
    return fold, bad

def check_chars():
    fold, bad = check_fold_model()
    lines = ['C %x' % c for c in range(0x110000)]
    out, dt = run_lean(lines)
    dis = {'lower': [], 'fold': [], 'space': [], 'digit': [], 'word': []}
    for c, o in enumerate(out):
        l, f, s, d, w = o.split()
        ch = chr(c)
        if int(l, 16) != _sre.unicode_tolower(c): dis['lower'].append(c)
        if int(f, 16) != fold[c]: dis['fold'].append(c)
        if (s == '1') != ch.isspace(): dis['space'].append(c)
        if (d == '1') != ch.isdecimal(): dis['digit'].append(c)
        if (w == '1') != (ch.isalnum() or ch == '_'): dis['word'].append(c)
    # and the predicates really are what re uses (spot check through re itself, BMP + astral sample)
    for c in list(range(0x3100)) + list(range(0x1d7c0, 0x1d800)):
        if 0xd800 <= c < 0xe000: continue
        ch = chr(c)
        assert bool(re.fullmatch(r'\s', ch)) == ch.isspace()
        assert bool(re.fullmatch(r'\d', ch)) == ch.isdecimal()
        assert bool(re.fullmatch(r'\w', ch)) == (ch.isalnum() or ch == '_')
    print('character tables over all 0x110000 code points (%.1fs):' % dt)
    for k, v in dis.items():
        extra = ''
        if v:
            extra = '  first U+%04X last U+%04X; below U+0530: %d' % (v[0], v[-1], sum(1 for c in v if c < 0x530))
        print('  %-6s disagreements: %d%s' % (k, len(v), extra))
    return bad + sum(len(v) for k, v in dis.items() if k != 'word') + sum(1 for c in dis['word'] if c < 0x530)

# ---------------------------------------------------------------- main
OPS = 'MFSUA'
REPLS = ['-', '', 'xy', '<>', ' ']

def main():
    ap = argparse.ArgumentParser()
    ap.add_argument('--random', type=int, default=24000)
    ap.add_argument('--soup', type=int, default=6000)
    ap.add_argument('--mut', type=int, default=40)
    ap.add_argument('--tiny', type=int, default=20000)
    ap.add_argument('--seed', type=int, default=1)
    ap.add_argument('--no-chars', action='store_true')
    ap.add_argument('--native', action='store_true', help='compile the driver instead of `lean --run`')
    ap.add_argument('--driver', default=None)
    a = ap.parse_args()
    global NATIVE, NATIVE_DRIVER
    if a.driver:          # a pre-built native driver (used for mutation checks of this harness)
        NATIVE, NATIVE_DRIVER = True, a.driver
    elif a.native:
        build_native()
        NATIVE = True
    random.seed(a.seed)
    print(sys.version.split()[0], 'seed', a.seed)
    total_bad = 0
    if not a.no_chars:
        total_bad += check_chars()

    cases = []   # (kind, ic, pat, s, repl)
    for pat, subs in FIXED:
        allsubs = list(subs)
        for s0 in subs:
            for _ in range(a.mut):
                allsubs.append(mutate(s0))
        for s in allsubs:
            for ic in (0, 1):
                cases.append(('fixed', ic, pat, s, random.choice(REPLS)))
    nfixed = len(cases)
    npat = 0
    while len(cases) - nfixed < a.random:
        pat = gen_alt(random.choice([0, 1, 2, 2, 3]))
        npat += 1
        for _ in range(random.choice([2, 3, 4])):
            s = gen_subject() if random.random() < 0.5 else gen_subject_from(pat)
            if random.random() < 0.08:
                s = mutate(s) + random.choice(EXTRA_SUBJ)
            cases.append(('random', random.randrange(2), pat, s, random.choice(REPLS)))
    nrandom = len(cases) - nfixed
    for _ in range(a.soup):
        pat = ''.join(random.choice(SOUP) for _ in range(random.choice([1, 2, 3, 4, 5, 6, 8, 10])))
        cases.append(('soup', random.randrange(2), pat, gen_subject_from(pat), random.choice(REPLS)))
    nsoup = len(cases) - nfixed - nrandom
    ntinypat = 0
    n0 = len(cases)
    while len(cases) - n0 < a.tiny:
        pat = tiny_alt(random.choice([1, 2, 2, 3]))
        ntinypat += 1
        for _ in range(3):
            s = ''.join(random.choice('aab') for _ in range(random.choice([0, 1, 2, 2, 3, 3, 4, 5, 6])))
            cases.append(('tiny', random.randrange(2), pat, s, random.choice(REPLS)))

    lines = []
    for kind, ic, pat, s, repl in cases:
        for op in OPS:
            lines.append('%s %d %s %s %s' % (op, ic, enc(pat), enc(s), enc(repl)))
    # CPython first; cases on which CPython itself backtracks for more than 50 ms are dropped
    # (exponential patterns such as ((a*)*)*b: nothing to learn, and Lean would take as long).
    import signal
    class Slow(Exception):
        pass
    def on_alarm(sig, frm):
        raise Slow()
    signal.signal(signal.SIGALRM, on_alarm)
    t0 = time.time()
    exp = []
    kept = []
    dropped = 0
    for case in cases:
        kind, ic, pat, s, repl = case
        try:
            signal.setitimer(signal.ITIMER_REAL, 0.05)
            e5 = [expected(op, ic, pat, s, repl) for op in OPS]
            signal.setitimer(signal.ITIMER_REAL, 0)
        except Slow:
            dropped += 1
            continue
        finally:
            signal.setitimer(signal.ITIMER_REAL, 0)
        kept.append(case)
        exp.extend(e5)
    cases = kept
    tpy = time.time() - t0
    print('dropped %d cases on which CPython needs more than 50 ms' % dropped)
    lines = []
    for kind, ic, pat, s, repl in cases:
        for op in OPS:
            lines.append('%s %d %s %s %s' % (op, ic, enc(pat), enc(s), enc(repl)))
    out, tlean = run_lean(lines)

    stats = {'fixed': [0, 0], 'random': [0, 0], 'soup': [0, 0], 'tiny': [0, 0]}   # cases, disagreeing cases
    nmatch = {'fixed': 0, 'random': 0, 'soup': 0, 'tiny': 0}
    soup_rejected = {}
    nslow = 0
    soup_accepted = 0
    soup_pyerr = 0
    shown = 0
    unexplained = []
    for ci, (kind, ic, pat, s, repl) in enumerate(cases):
        e = exp[ci * 5:ci * 5 + 5]
        o = out[ci * 5:ci * 5 + 5]
        if 'SLOW' in o:
            nslow += 1
            continue
        stats[kind][0] += 1
        if e[2] not in ('none', 'N'):
            nmatch[kind] += 1
        ok = (e == o)
        if kind == 'soup':
            if e[0] == 'N':
                soup_pyerr += 1          # CPython rejects: Lean must reject too (ok == all N)
            elif all(x == 'N' for x in o):
                why = classify_rejected(pat)  # CPython compiles, Lean refuses: must be an out-of-subset feature
                if why is None:
                    unexplained.append(pat)
                else:
                    soup_rejected[why] = soup_rejected.get(why, 0) + 1
                    ok = True
            else:
                soup_accepted += 1
        if not ok:
            stats[kind][1] += 1
            if shown < 25:
                shown += 1
                print('DISAGREE [%s] ic=%d pat=%r s=%r repl=%r' % (kind, ic, pat, s, repl))
                for op, x, y in zip(OPS, e, o):
                    if x != y:
                        print('    %s python=%s lean=%s' % (op, x, y))
    print('python %.1fs, lean %.1fs, %d driver lines' % (tpy, tlean, len(lines)))
    print('cases skipped because the Lean driver needed more than %.1fs on one of their lines: %d' % (LINE_TIMEOUT, nslow))
    print('alphabet (patterns and subjects):', [c for c in ALPHA])
    for k in ('fixed', 'random', 'tiny', 'soup'):
        print('%-6s cases=%6d  (x5 operations)  with a search hit=%6d  DISAGREEMENTS=%d' % (k, stats[k][0], nmatch[k], stats[k][1]))
    print('random: %d generated patterns; tiny ({a,b} only, dense groups/quantifiers/empty branches): %d generated patterns' % (npat, ntinypat))
    print('soup: CPython rejects=%d (Lean must say N), both accept=%d, Lean refuses a pattern CPython compiles=%s, unexplained refusals=%d'
          % (soup_pyerr, soup_accepted, soup_rejected, len(unexplained)))
    for p in unexplained[:20]:
        print('   UNEXPLAINED refusal:', repr(p))
    total_bad += sum(v[1] for v in stats.values())
    print('TOTAL DISAGREEMENTS:', total_bad)
    return 1 if total_bad else 0

if __name__ == '__main__':
    sys.exit(main())
