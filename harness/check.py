"""./check <Cxx> [--tier quick|thorough] [--replay file]

Verdict logic (DESIGN.md §1.3):
  1 regenerate Generated/* (properties that have them)      2 lake build obligations + driver
  3 axiom audit + source scan                               4 correspondence campaign
  5 all pass -> evidence, exit 0
  6 otherwise: concrete failing input -> VIOLATION (or KNOWN-FINDING when listed);
     broken obligation without failing input -> VIOLATION ... no-failing-input-found
  infrastructure failure -> exit 2, no VIOLATION line.
"""
import argparse
import importlib
import json
import multiprocessing
import os
import random
import shutil
import sys
import time
import traceback

sys.path.insert(0, os.path.dirname(os.path.abspath(__file__)))
import common  # noqa: E402
from common import Infra, VERIF  # noqa: E402


def canon_lines(mod, ops, lines):
    """optional per-module canonicalisation of an output line (applied to BOTH sides before comparing)"""
    f = getattr(mod, 'canon', None)
    return list(lines) if f is None else [f(o, l) for o, l in zip(ops, lines)]


class CanonSide:
    """the model driver / the implementation with the module's canonicalisation applied"""

    def __init__(self, mod, driver):
        self.mod, self.driver = mod, driver

    def run(self, ops):
        return canon_lines(self.mod, ops, self.driver.run(ops))

    def impl(self, ops):
        return canon_lines(self.mod, ops, self.mod.impl_exec(ops))


class Ctx:
    def __init__(self, prop, tier, seed, shard=0, nshards=1, workdir=None):
        self.prop, self.tier, self.seed = prop, tier, seed
        self.shard, self.nshards = shard, nshards
        self.workdir = workdir
        self.rng = random.Random(f'{prop}/{seed}/{shard}/{nshards}')
        self.quick = tier == 'quick'
        self.counters = {}
        self.distinct = set()
        self.samples = []

    def count(self, key, n=1):
        self.counters[key] = self.counters.get(key, 0) + n


def corpus_cases(prop):
    """minimised past disagreements (corpus/<prop>/*.ops, one case per file): always run first"""
    d = os.path.join(VERIF, 'corpus', prop)
    out = []
    if os.path.isdir(d):
        for f in sorted(os.listdir(d)):
            if f.endswith('.ops'):
                ops = [l for l in open(os.path.join(d, f)).read().split('\n') if l.strip()]
                if ops:
                    out.append(common.Case(ops, {'kind': 'corpus', 'file': f}))
    return out


def run_shard(args):
    """generate this shard's cases, run both sides, return stats + (unshrunk) diffs"""
    prop, tier, seed, shard, nshards, workdir = args
    try:
        mod = importlib.import_module('p' + prop)
        ctx = Ctx(prop, tier, seed, shard, nshards, workdir)
        driver = common.ModelDriver()
        cases = (corpus_cases(prop) if shard == 0 else []) + list(mod.cases(ctx))
        flat, spans = [], []
        for c in cases:
            spans.append((len(flat), len(flat) + len(c.ops)))
            flat.extend(c.ops)
        t0 = time.time()
        model_out = driver.run(flat) if flat else []
        t_model = time.time() - t0
        diffs, distinct, evals = [], set(), 0
        samples = []
        t0 = time.time()
        for c, (a, b) in zip(cases, spans):
            try:
                got = mod.impl_exec(c.ops)
            except Infra:
                raise
            except Exception as e:  # an unexpected exception of the real code is a behaviour
                got = [f'EXC {type(e).__name__}: {e}'] * len(c.ops)
            exp = canon_lines(mod, c.ops, model_out[a:b])
            got = canon_lines(mod, c.ops, got)
            evals += len(c.ops)
            keys = mod.nontrivial(c, got) if hasattr(mod, 'nontrivial') else c.ops
            for key in keys:
                distinct.add(hash(key))
            if len(samples) < 3 and (shard == 0):
                samples.append({'ops': c.ops[:12], 'model': exp[:12], 'impl': got[:12], 'meta': c.meta})
            if got != exp:
                if len(diffs) < 5:
                    diffs.append({'ops': c.ops, 'meta': c.meta})
                else:
                    diffs.append(None)
            elif getattr(mod, 'PURE_OPS', False) and len(c.ops) > 1 and not diffs:
                # the ops of these modules are calls of functions that must not depend on what was called before:
                # evaluate them again in a shuffled and in the reverse order (module-level caches, tables mutated by a call)
                for order in ('shuffled', 'reversed'):
                    perm = list(range(len(c.ops)))
                    if order == 'shuffled':
                        random.Random(f'{prop}/{seed}/{shard}/{len(diffs)}/{evals}').shuffle(perm)
                    else:
                        perm.reverse()
                    ops2 = [c.ops[i] for i in perm]
                    try:
                        got2 = canon_lines(mod, ops2, mod.impl_exec(ops2))
                    except Infra:
                        raise
                    except Exception as e:
                        got2 = [f'EXC {type(e).__name__}: {e}'] * len(ops2)
                    evals += len(ops2)
                    if got2 != [exp[i] for i in perm]:
                        diffs.append({'ops': ops2, 'meta': dict(c.meta, order=order)})
                        break
        t_impl = time.time() - t0
        extra_fail = mod.extra_checks(ctx) if hasattr(mod, 'extra_checks') else []
        if getattr(mod, 'TRANSLATED_AREAS', ()):
            # translation validation: the translated program (Generated/PyCore.lean under MiniPy) next to the real code
            import pycore_check
            extra_fail = list(extra_fail) + pycore_check.validate(ctx, mod.TRANSLATED_AREAS)
        # several live objects advanced ALTERNATELY (state shared between instances — class attributes, module-level
        # caches, aliased arguments — shows only then): two cases are merged op by op on the implementation side; the
        # model ran them one after the other, and its objects are values
        if hasattr(mod, 'impl_exec_multi') and len(cases) >= 2:
            irng = random.Random(f'interleave/{prop}/{seed}/{shard}')
            idx = [k for k, c in enumerate(cases) if 2 <= len(c.ops) <= 400]
            irng.shuffle(idx)
            npairs = min(len(idx) // 2, getattr(mod, 'INTERLEAVED_PAIRS', {}).get(tier, 40 if tier == 'quick' else 400))
            for k in range(npairs):
                ia, ib = idx[2 * k], idx[2 * k + 1]
                tagged, exp = [], []
                pa, pb = 0, 0
                oa, ob = cases[ia].ops, cases[ib].ops
                ea = canon_lines(mod, oa, model_out[spans[ia][0]:spans[ia][1]])
                eb = canon_lines(mod, ob, model_out[spans[ib][0]:spans[ib][1]])
                while pa < len(oa) or pb < len(ob):
                    take_a = pb >= len(ob) or (pa < len(oa) and irng.random() < 0.5)
                    if take_a:
                        tagged.append(('a', oa[pa])); exp.append(ea[pa]); pa += 1
                    else:
                        tagged.append(('b', ob[pb])); exp.append(eb[pb]); pb += 1
                try:
                    got = mod.impl_exec_multi(tagged)
                except Exception as e:
                    got = [f'EXC {type(e).__name__}: {e}'] * len(tagged)
                got = canon_lines(mod, [o for _, o in tagged], got)
                evals += len(tagged)
                ctx.count('interleaved_pairs')
                if got != exp:
                    i = next(i for i, (x, y) in enumerate(zip(got, exp)) if x != y)
                    extra_fail.append({'key': 'interleaved-instances', 'kind': 'counterexample',
                                       'tagged_ops': tagged[:i + 1],
                                       'diff': {'what': 'two live objects advanced alternately: one behaves differently from the '
                                                        'same object used alone', 'op': tagged[i][1], 'object': tagged[i][0],
                                                'impl': got[i][:400], 'alone': exp[i][:400]}})
                    break
        for e in extra_fail:
            e.setdefault('shard', [shard, nshards])     # lets `--replay` re-run exactly this part of the campaign
        distinct.update(ctx.distinct)
        if shard == 0:
            samples = (samples + ctx.samples)[:4]
        evals += ctx.counters.pop('_evals', 0)
        return {'ok': True, 'cases': len(cases) + ctx.counters.pop('_cases', 0), 'evals': evals, 'distinct': list(distinct),
                'diffs': diffs, 'samples': samples, 'counters': ctx.counters,
                't_model': t_model, 't_impl': t_impl, 'extra_fail': extra_fail}
    except Infra as e:
        return {'ok': False, 'infra': str(e)}
    except Exception:
        return {'ok': False, 'infra': traceback.format_exc()}


def replay(prop, path):
    mod = importlib.import_module('p' + prop)
    r = json.load(open(path))
    if hasattr(mod, 'replay') and r.get('scenario') is not None:
        ok, out = common.lake_build(['driver'])
        if not ok:
            print(out[-3000:])
            return 2
        return mod.replay(r)
    if r.get('tagged_ops') and hasattr(mod, 'impl_exec_multi'):
        ok, out = common.lake_build(['driver'])
        tagged = [tuple(x) for x in r['tagged_ops']]
        driver = CanonSide(mod, common.ModelDriver())
        exp_by = {tag: driver.run([o for t_, o in tagged if t_ == tag]) for tag in {t_ for t_, _ in tagged}}
        pos = {tag: 0 for tag in exp_by}
        got = canon_lines(mod, [o for _, o in tagged], mod.impl_exec_multi(tagged))
        bad = 0
        for (tag, o), g in zip(tagged, got):
            e = exp_by[tag][pos[tag]]
            pos[tag] += 1
            mark = '  ' if e == g else '!!'
            bad += e != g
            print(f'{mark} [{tag}] {o}\n{mark}   alone      : {e[:300]}\n{mark}   interleaved: {g[:300]}')
        print(f'{bad} differing line(s)')
        return 1 if bad else 0
    ops = r.get('ops')
    if not ops and r.get('shard') and hasattr(mod, 'extra_checks') and r.get('key'):
        # a failure found by the module's independent oracle: re-run that shard of the oracle campaign (it is a pure
        # function of property, tier, seed and shard) and look for the same failure
        ok, out = common.lake_build(['driver'])
        workdir = os.path.join(VERIF, '.work', f'{prop}-replay-{os.getpid()}')
        os.makedirs(workdir, exist_ok=True)
        try:
            ctx = Ctx(prop, r.get('tier', 'quick'), r.get('seed', 0), r['shard'][0], r['shard'][1], workdir)
            again = [e for e in mod.extra_checks(ctx) if e.get('key') == r['key']]
        finally:
            shutil.rmtree(workdir, ignore_errors=True)
        print(f'replay {path}: re-ran the oracle campaign of shard {r["shard"]} (tier {r.get("tier")}, seed {r.get("seed")})')
        for e in again[:3]:
            print('FAILS AGAIN:', e.get('key'), json.dumps(e.get('diff'), default=str)[:1500])
        if not again:
            print('the recorded failure does not reproduce on this tree; recorded:', json.dumps(r.get('diff'), default=str)[:800])
        return 1 if again else 0
    if not ops:
        print(f'replay {path}: kind={r.get("kind")} obligation={r.get("obligation")} (no concrete input)')
        print(json.dumps(r, indent=1)[:4000])
        return 0
    ok, out = common.lake_build(['driver'])
    if not ok:
        print(out[-3000:])
        return 2
    driver = CanonSide(mod, common.ModelDriver())
    exp = driver.run(ops)
    try:
        got = driver.impl(ops)
    except Exception as e:
        got = [f'EXC {type(e).__name__}: {e}'] * len(ops)
    bad = 0
    for o, e, g in zip(ops, exp, got):
        mark = '  ' if e == g else '!!'
        bad += e != g
        print(f'{mark} op   : {o}\n{mark} model: {e}\n{mark} impl : {g}')
    print(f'{bad} differing line(s)')
    return 1 if bad else 0


def main():
    ap = argparse.ArgumentParser()
    ap.add_argument('prop')
    ap.add_argument('--tier', default=os.environ.get('VERIF_TIER') or 'quick')
    ap.add_argument('--replay')
    ap.add_argument('--jobs', type=int, default=0)
    a = ap.parse_args()
    prop, tier = a.prop, a.tier
    if tier not in ('quick', 'thorough'):
        tier = 'quick'
    try:
        seed = int(os.environ.get('VERIF_SEED') or 0)
    except ValueError:
        seed = 0
    if a.replay:
        sys.exit(replay(prop, a.replay))
    t_start = time.time()
    workdir = os.path.join(VERIF, '.work', f'{prop}-{os.getpid()}')
    os.makedirs(workdir, exist_ok=True)
    try:
        rc = run_check(prop, tier, seed, workdir, t_start, a.jobs)
    except Infra as e:
        print(f'INFRASTRUCTURE FAILURE ({prop}): {e}')
        rc = 2
    except subprocess_timeout() as e:  # pragma: no cover
        print(f'INFRASTRUCTURE FAILURE ({prop}): timeout {e}')
        rc = 2
    finally:
        shutil.rmtree(workdir, ignore_errors=True)
    sys.exit(rc)


def subprocess_timeout():
    import subprocess
    return subprocess.TimeoutExpired


REPLAYS = os.environ.get('VERIF_REPLAY_DIR') or os.path.join(VERIF, 'replays')
# experiments only (harness/mutsweep.py): correspondence and oracles with the driver as built, no rebuild, no proof audit
NO_BUILD = bool(os.environ.get('VERIF_NO_BUILD'))

SOURCE_PINNED = {'C08', 'C09', 'C10', 'C11', 'C13', 'C14', 'C17', 'C18', 'C19', 'C20'}


def run_check(prop, tier, seed, workdir, t_start, jobs):
    mod = importlib.import_module('p' + prop)
    evidence_path = os.path.join(os.environ.get('VERIF_EVIDENCE_DIR') or os.path.join(VERIF, 'evidence'),
                                 f'{prop}.json')
    problems = []      # broken obligations (strings)
    lock = common.BuildLock()
    if NO_BUILD:
        return run_correspondence(prop, tier, seed, workdir, t_start, jobs, mod, evidence_path, problems, {}, 0, 0, ['(no build)'], '')
    lock.__enter__()
    try:
        # 1. regenerate the Lean files that are TRANSLATED from the repository (JSON schemas, scoring tables): every run
        #    re-checks the theorems against what the source says now.  The driver imports both, so both are always
        #    regenerated; a translation failure is an obligation problem for the properties whose theorems depend on the file.
        targets = getattr(mod, 'LEAN_TARGETS', [f'BridgeVerif.Props.{prop}']) + ['driver']
        audit_props = list(getattr(mod, 'AUDIT_PROPS', None) or [prop])
        if prop in SOURCE_PINNED:
            # these properties rest on scanners written for particular regular expressions / on the literal queue
            # messages: the texts extracted from the source must still be the ones the models were written for
            targets.insert(0, 'BridgeVerif.Props.Source')
            audit_props.append('Source')
        import translate_consts
        import translate_py
        import translate_schema
        import translate_score
        closure = set(common.import_closure([t for t in targets if t != 'driver']))
        for modname, tr in (('Schemas', translate_schema), ('ScoreTables', translate_score), ('SourceConsts', translate_consts)):
            changed, err = tr.regenerate(common.REPO, common.LEAN)
            gen_file = os.path.join(common.LEAN, 'BridgeVerif', 'Generated', modname + '.lean')
            if err and gen_file in closure:
                problems.append(err)
        # the FUNCTIONS of the pure core, re-written as MiniPy programs (Generated/PyCore{Base,Auction,Play}.lean and their
        # union PyCore.lean): the driver runs the union (ops Y.*); the theorems of lean/BridgeVerif/Translated/ are about them
        gdir = os.path.join(common.LEAN, 'BridgeVerif', 'Generated')
        before = {}
        for name in translate_py.FILES:
            fp = os.path.join(gdir, name)
            before[name] = open(fp, encoding='utf-8').read() if os.path.exists(fp) else None
        changed, err = translate_py.regenerate(common.REPO, common.LEAN)
        if changed and all(v is not None for v in before.values()):
            ok_gen, out_gen = common.lake_build(['BridgeVerif.Generated.PyCore'])
            if not ok_gen:
                # the translator produced something Lean does not accept: keep the last good program for the driver
                err = 'core translation does not elaborate: ' + ' | '.join(
                    l for l in out_gen.splitlines() if 'error' in l)[:600]
                for name, text in before.items():
                    with open(os.path.join(gdir, name), 'w', encoding='utf-8') as fh:
                        fh.write(text)
        uses_translation = any(os.path.join(gdir, name) in closure for name in translate_py.FILES) or \
            bool(getattr(mod, 'TRANSLATED_AREAS', ()))
        if err and uses_translation:
            problems.append(err)
        if hasattr(mod, 'prepare'):
            for msg in mod.prepare(workdir) or []:
                if msg not in problems:
                    problems.append(msg)
        # 2. build (the driver first and on its own: it must exist even when a property module no longer checks)
        common.lake_build(['driver'])
        ok, out = common.lake_build(targets)
        build_ok = ok
        if not ok:
            problems.append('lake build failed: ' + ' | '.join(
                l for l in out.splitlines() if 'error' in l)[:1500])
        if tier == 'thorough' and ok:
            # independent re-check of the compiled modules by leanchecker
            mods = [t for t in targets if t != 'driver']
            rc, lo = common.sh(['lake', 'env', 'leanchecker'] + mods, cwd=common.LEAN, timeout=3000)
            if rc != 0:
                problems.append('leanchecker rejected: ' + lo[-800:])
        # 3. audit
        audit_res, obligations, discharged = {}, 0, 0
        if build_ok:
            audit_res, aout, arc = common.audit(prop, workdir, audit_props)
            required = list(getattr(mod, 'REQUIRED', []))
            for n in required:
                if n not in audit_res:
                    problems.append(f'required theorem {n} is missing from Props/{prop}.lean')
                    audit_res[n] = None
            obligations = len(audit_res)
            for n, ax in audit_res.items():
                if ax is None:
                    problems.append(f'theorem {n} did not check (no axiom report)')
                elif not set(ax) <= common.ALLOWED_AXIOMS:
                    problems.append(f'theorem {n} uses inadmissible axioms {ax}')
                else:
                    discharged += 1
            hits = common.source_scan([t for t in targets if t != 'driver'])
            if hits:
                problems.append('forbidden constructs in Lean sources: ' + '; '.join(hits[:10]))
        # a private copy of the driver for the correspondence run of THIS check
        if os.path.exists(common.DRIVER):
            shutil.copy2(common.DRIVER, os.path.join(workdir, 'driver'))
            os.environ['VERIF_DRIVER'] = os.path.join(workdir, 'driver')
    finally:
        lock.__exit__()
    return run_correspondence(prop, tier, seed, workdir, t_start, jobs, mod, evidence_path, problems, audit_res, obligations,
                              discharged, targets, out)


def run_correspondence(prop, tier, seed, workdir, t_start, jobs, mod, evidence_path, problems, audit_res, obligations,
                       discharged, targets, out):
    # 4. correspondence
    if not os.path.exists(os.environ.get('VERIF_DRIVER') or common.DRIVER):
        raise Infra('model driver could not be built:\n' + out[-2000:])
    nshards = jobs or (getattr(mod, 'SHARDS', {}).get(tier, 1))
    args = [(prop, tier, seed, i, nshards, workdir) for i in range(nshards)]
    if nshards == 1:
        results = [run_shard(args[0])]
    else:
        with multiprocessing.Pool(min(nshards, 16)) as pool:
            results = pool.map(run_shard, args)
    for r in results:
        if not r['ok']:
            raise Infra(r['infra'])
    evals = sum(r['evals'] for r in results)
    ncases = sum(r['cases'] for r in results)
    distinct = set()
    counters = {}
    for r in results:
        distinct.update(r['distinct'])
        for k, v in r['counters'].items():
            counters[k] = counters.get(k, 0) + v
    samples = [s for r in results for s in r['samples']][:3]
    raw_diffs = [d for r in results for d in r['diffs']]
    extra_fail = [e for r in results for e in r['extra_fail']]
    # required branch counters (sanity of the generator, not a violation)
    # (only meaningful for a run that went through: a campaign cut short by a failure has not filled its counters)
    for k in ([] if (raw_diffs or extra_fail) else getattr(mod, 'REQUIRED_COUNTERS', {}).get(tier, [])):
        if counters.get(k, 0) == 0:
            raise Infra(f'generator sanity: required branch counter {k!r} is 0')
    # 5/6 verdict
    known, fixed = common.load_known()
    known = [(k, t) for (p, k, t) in known if p == prop]
    violations, known_hits = [], {}
    broken_corr = []
    driver = CanonSide(mod, common.ModelDriver())
    n_more = sum(1 for d in raw_diffs if d is None)
    for d in [d for d in raw_diffs if d is not None]:
        ops = common.shrink_case(d['ops'], driver.impl, driver,
                                 keep_first=getattr(mod, 'KEEP_FIRST', 1))
        exp = driver.run(ops)
        try:
            got = driver.impl(ops)
        except Exception as e:
            got = [f'EXC {type(e).__name__}: {e}'] * len(ops)
        key = mod.classify(ops, exp, got) if hasattr(mod, 'classify') else 'diff'
        hit = [k for (k, t) in known if k == key]
        if hit:
            known_hits.setdefault(key, [t for (k, t) in known if k == key][0])
            continue
        # an op whose output is an intermediate representation (e.g. the text a writer produces, which the property
        # constrains only through what a reader makes of it) breaks the CORRESPONDENCE when it differs, not by itself the
        # property: the module's independent oracle then has to exhibit a failing input, else `no-failing-input-found`
        co = getattr(mod, 'CORRESPONDENCE_ONLY_OPS', ())
        bad_ops = [o.split(' ', 1)[0] for o, a, b in zip(ops, exp, got) if a != b]
        if bad_ops and all(b in co for b in bad_ops):
            i = next(i for i, (a, b) in enumerate(zip(exp, got)) if a != b)
            msg = (f'correspondence broken at op {bad_ops[0]}: model {str(exp[i])[:200]!r} / implementation {str(got[i])[:200]!r}')
            if not any(p_.startswith('correspondence broken') for p_ in problems):
                problems.append(msg)
                broken_corr.append({'ops': ops, 'model': exp, 'impl': got, 'key': key})
            continue
        violations.append({'kind': 'counterexample', 'ops': ops, 'model': exp, 'impl': got,
                           'key': key, 'meta': d['meta']})
    for e in extra_fail:
        key = e.get('key', 'oracle')
        if e.get('kind') == 'broken-correspondence':
            # model and implementation differ on something the property does not itself demand
            msg = 'correspondence broken: ' + json.dumps(e.get('diff', key), default=str)[:700]
            if not any(p_.startswith('correspondence broken') for p_ in problems):
                problems.append(msg)
                broken_corr.append(e)
            continue
        if any(k == key for (k, t) in known):
            known_hits.setdefault(key, [t for (k, t) in known if k == key][0])
        else:
            violations.append(dict(e, kind=e.get('kind', 'counterexample')))
    for key, text in known_hits.items():
        print(f'KNOWN-FINDING: property={prop} key={key} {text}')
    rc = 0
    os.makedirs(REPLAYS, exist_ok=True)
    seen_keys = set()
    nrep = 0
    for v in violations:
        if v.get('key') in seen_keys:
            continue
        seen_keys.add(v.get('key'))
        nrep += 1
        path = os.path.join(REPLAYS, f'{prop}-{seed}-{nrep}.json')
        common.write_json(path, dict(v, property=prop, seed=seed, tier=tier, obligation=None,
                                     replay_cmd=f'./check {prop} --replay replays/{os.path.basename(path)}'))
        print(f'VIOLATION property={prop} replay={path}')
        rc = 1
    if problems and rc == 0:
        # an obligation no longer checks and the campaign found no failing input
        nrep += 1
        path = os.path.join(REPLAYS, f'{prop}-{seed}-{nrep}.json')
        common.write_json(path, {'property': prop, 'kind': 'broken-obligation', 'seed': seed,
                                 'tier': tier, 'ops': None, 'obligation': problems,
                                 'correspondence_witness': broken_corr[:1],
                                 'searched': {'cases': ncases, 'evaluations': evals}})
        for pmsg in problems:
            print(f'obligation broken: {pmsg[:600]}')
        print(f'VIOLATION property={prop} replay={path} no-failing-input-found')
        rc = 1
    elif problems:
        for pmsg in problems:
            print(f'obligation broken: {pmsg[:600]}')
    wall = time.time() - t_start
    cov = {
        'obligations': max(obligations, 1), 'discharged': discharged,
        'checker_cmd': 'cd lean && lake build ' + ' '.join(targets) +
                       ' && lake env lean <#print axioms of every theorem in Props/%s.lean>' % prop +
                       (' && lake env leanchecker <modules>' if tier == 'thorough' else ''),
        'trusted_base': getattr(mod, 'TRUSTED', []) + [
            'Lean 4.33 kernel; axioms admitted: propext, Classical.choice, Quot.sound (no native_decide, no bv_decide, no sorry)',
            'hand-written model faithfulness is tested by the correspondence campaign of this run, not proved'],
        'theorems': {n: ax for n, ax in audit_res.items()},
        'evaluations': evals, 'cases': ncases,
        'distinct_nontrivial': len(distinct),
        'rule': getattr(mod, 'RULE', ''),
        'samples': samples or [{'note': 'no correspondence cases'}],
        'exhaustive': bool(getattr(mod, 'EXHAUSTIVE', False)),
        'generator_distribution': counters,
        'disagreements': len(raw_diffs), 'disagreements_not_shrunk': n_more,
        'known_findings_reported': sorted(known_hits),
        'model_seconds': round(sum(r['t_model'] for r in results), 2),
        'impl_seconds': round(sum(r['t_impl'] for r in results), 2),
        'traces_validated_against_impl': ncases,
    }
    if hasattr(mod, 'coverage_extra'):
        cov.update(mod.coverage_extra())
    common.write_json(evidence_path, {
        'property_id': prop, 'tier': tier, 'seed': seed, 'level': 'proof', 'coverage': cov,
        'assumptions': getattr(mod, 'ASSUMPTIONS', []), 'wall_s': round(wall, 2),
        'violations': len(seen_keys) + (1 if (problems and not violations) else 0)})
    print(f'{prop} {tier} seed={seed}: obligations {discharged}/{obligations} discharged, '
          f'{ncases} cases / {evals} evaluations, {len(raw_diffs)} disagreement(s), '
          f'{len(known_hits)} known finding(s), {wall:.1f}s -> exit {rc}')
    return rc


if __name__ == '__main__':
    main()
