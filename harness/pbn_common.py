"""Shared by C17 / C18: the Python side of the `B.*` driver ops (real PbnParser / PbnWriter), layout and result
generators, a text-soup generator for the reader model."""
import datetime
import io
import os
import tempfile

import common
import json_common as J
from json_common import hx, unhx, cs, SEATS, VULS

RANKS = '23456789TJQKA'
VUL_SPELLINGS = {'None': ['None', 'Love', '-', 'NONE'], 'NS': ['NS'], 'EW': ['EW'], 'Both': ['Both', 'All', 'BOTH']}


def _env():
    from bridge_env.data_handler.pbn_handler.parser import PbnParser
    from bridge_env.data_handler.pbn_handler.writer import PbnWriter, Scoring
    return locals()


E = None


def env():
    global E
    if E is None:
        E = dict(J.env())
        E.update(_env())
    return E


# ------------------------------------------------------------------ reading
def read_lines_mode(text, mode, fn):
    """run fn(fp) on the text presented as io.StringIO ('s') or as a real file opened in text mode ('f')"""
    if mode == 's':
        return fn(io.StringIO(text))
    fd, path = tempfile.mkstemp(prefix='verif-pbn-', suffix='.pbn')
    try:
        with os.fdopen(fd, 'w', newline='', encoding='utf-8') as f:
            f.write(text)
        with open(path, 'r', encoding='utf-8') as fp:
            return fn(fp)
    finally:
        os.unlink(path)


def show_game(g):
    if not g:
        return '{}'
    return ','.join(f'{hx(k)}={hx(v)}' for k, v in g.items())


def show_games(gs):
    return ' ## '.join(show_game(g) for g in gs) if gs else 'EMPTY'


def parse_all(text, mode):
    P = env()['PbnParser']
    return show_games(read_lines_mode(text, mode, lambda fp: P().parse_all(fp)))


def parse_settings(text, mode):
    P = env()['PbnParser']
    try:
        got = read_lines_mode(text, mode, lambda fp: P().parse_board_settings(fp))
        line = J.show_many(J.show_setting, got)
        # the boards read are USED (played out in place, as PlayingPhaseWithHands does with the hands it is given), so that
        # a reader which hands out shared mutable sets (a cache) shows when the same file / board is read again
        for g in got:
            for pl in env()['Player']:
                g.hands[pl].clear()
        return line
    except Exception:
        return 'ERR'


# ------------------------------------------------------------------ layouts (import files)
class Layout:
    def __init__(self, eol):
        self.eol = '\n' if eol == 'lf' else '\r\n'
        self.header, self.leading, self.games = [], [], []

    def text(self):
        out = [h + self.eol for h in self.header] + [b + self.eol for b in self.leading]
        for items, seps in self.games:
            for it in items:
                if it[0] == 'tag':
                    _, n, v, so, sc, tr = it
                    out.append('[' + (' ' if so else '') + n + ' "' + v + '"' + (' ' if sc else '') + ']' + tr + self.eol)
                else:
                    out.append(it[1] + self.eol)
            out.extend(s + self.eol for s in seps)
        return ''.join(out)

    def admissible(self):
        def plain(s):
            return '; ' not in s and '{ ' not in s and not any(c in '"\n\r' for c in s)

        def blank(s):
            return all(c in ' \t' for c in s)

        def name_ok(n):
            return (len(n) >= 2 and 'A' <= n[0] <= 'Z' and all('A' <= c <= 'Z' or 'a' <= c <= 'z' for c in n[1:]))
        if not all(h[:1] == '%' and not any(c in '\n\r' for c in h) for h in self.header):
            return False
        if not all(blank(b) for b in self.leading):
            return False
        for k, (items, seps) in enumerate(self.games):
            if not items or items[0][0] != 'tag':
                return False
            for it in items:
                if it[0] == 'tag':
                    if not (name_ok(it[1]) and plain(it[2]) and blank(it[5])):
                        return False
                else:
                    t = it[1]
                    if not (plain(t) and not blank(t) and '[' not in t and t[:1] != '%'):
                        return False
            if not all(blank(s) for s in seps):
                return False
            if k < len(self.games) - 1 and not seps:
                return False
        return True


# ------------------------------------------------------------------ export (PbnWriter)
class RecordingWriter:
    def __init__(self):
        self.chunks = []

    def write(self, s):
        self.chunks.append(s)


class Result:
    def __init__(self, t):
        e = env()
        (_, ev, site, y, m, d, num, w, n, ea, s, dealer, hn, he, hs, hw, sc, bid, x, xx, vul, decl, tricks) = t
        self.event, self.site = unhx(ev), unhx(site)
        self.date = datetime.date(int(y), int(m), int(d))
        self.num = int(num)
        self.names = {'W': unhx(w), 'N': unhx(n), 'E': unhx(ea), 'S': unhx(s)}
        self.dealer = e['Player'][dealer]
        self.hands = [J.cards_arg(h) for h in (hn, he, hs, hw)]
        self.scoring = e['Scoring'](sc)
        fb = None if bid == '-' else (e['Bid'].Pass if bid == 'P' else J.call_obj(int(bid)))
        self.vul = e['Vul'].str_to_vul(vul)
        self.contract = e['Contract'](fb, x == '1', xx == '1', self.vul, None if decl == '-' else e['Player'][decl])
        self.tricks = None if tricks == 'null' else int(tricks)

    def write(self, w):
        w.write_board_result(self.event, self.site, self.date, self.num, self.names['W'], self.names['N'],
                             self.names['E'], self.names['S'], self.dealer, J.hands_obj(self.hands), self.scoring,
                             self.contract, self.tricks)


def written_chunks(results):
    """chunks passed to writer.write for the results, or None if write_board_result raises"""
    rw = RecordingWriter()
    w = env()['PbnWriter'](rw)
    try:
        for r in results:
            r.write(w)
    except Exception:
        return None
    return rw.chunks


# ------------------------------------------------------------------ implementation side of the B.* ops
def impl_exec(ops):
    lay, results, out = Layout('lf'), [], []
    for line in ops:
        t = line.split(' ')
        op = t[0]
        try:
            if op == 'B.fbegin':
                lay = Layout(t[1])
                out.append('ok')
            elif op == 'B.fheader':
                lay.header.append(unhx(t[1]))
                out.append('ok')
            elif op == 'B.flead':
                lay.leading.append(unhx(t[1]))
                out.append('ok')
            elif op == 'B.fgame':
                lay.games.append(([], []))
                out.append('ok')
            elif op == 'B.ftag' and not lay.games:
                out.append('bad-op')
            elif op == 'B.ftag':
                lay.games[-1][0].append(('tag', unhx(t[1]), unhx(t[2]), t[3] == '1', t[4] == '1', unhx(t[5])))
                out.append('ok')
            elif op == 'B.frow' and not lay.games:
                out.append('bad-op')
            elif op == 'B.frow':
                lay.games[-1][0].append(('row', unhx(t[1])))
                out.append('ok')
            elif op == 'B.fsep' and not lay.games:
                out.append('bad-op')
            elif op == 'B.fsep':
                lay.games[-1][1].append(unhx(t[1]))
                out.append('ok')
            elif op == 'B.ftext':
                out.append(hx(lay.text()))
            elif op == 'B.fadm':
                out.append('1' if lay.admissible() else '0')
            elif op == 'B.fparse':
                out.append(parse_all(lay.text(), t[1]))
            elif op == 'B.fsettings':
                out.append(parse_settings(lay.text(), t[1]))
            elif op == 'B.parse':
                out.append(parse_all(unhx(t[1]), t[2]))
            elif op == 'B.settings':
                out.append(parse_settings(unhx(t[1]), t[2]))
            elif op == 'B.wbegin':
                results = []
                out.append('ok')
            elif op == 'B.result':
                results.append(Result(t))
                out.append('ok')
            elif op == 'B.wtext':
                ch = written_chunks(results)
                out.append('ERR' if ch is None else hx(''.join(ch)))
            elif op == 'B.wmax':
                ch = written_chunks(results)
                out.append('ERR' if ch is None else
                           f'max={max([len(c) for c in ch] + [0])} nl={"1" if all(c.endswith(chr(10)) for c in ch) else "0"}')
            elif op == 'B.wread':
                ch = written_chunks(results)
                out.append('ERR' if ch is None else parse_all(''.join(ch), 's'))
            elif op == 'B.wsettings':
                ch = written_chunks(results)
                out.append('ERR' if ch is None else parse_settings(''.join(ch), 's'))
            elif op == 'B.line':
                rw = RecordingWriter()
                try:
                    env()['PbnWriter'](rw).write_line(unhx(t[1]))
                    out.append(','.join(hx(c) for c in rw.chunks))
                except Exception:
                    out.append('ERR')
            elif op.startswith('J.'):
                import pC12
                out.extend(pC12.impl_exec([line]))     # stateless J ops only (J.loads …); stateful ones live in pC12/pC17
            else:
                out.append('bad-op')
        except common.Infra:
            raise
        except Exception as e:
            out.append(f'EXC {type(e).__name__}: {e}')
    return out


# ------------------------------------------------------------------ generators
def pbn_of(hands, first):
    def hand(h):
        if not h:
            return '-'
        return '.'.join(''.join(RANKS[c % 13] for c in sorted(h, reverse=True) if c // 13 == s) for s in (3, 2, 1, 0))
    i = SEATS.index(first)
    return first + ':' + ' '.join(hand(hands[(i + k) % 4]) for k in range(4))


VALUE_ALPHABET = (list('abcdefXYZ0123456789') + list(' ' * 6) + list("!#$%&'()*+,-./:<=>?@[\\]^_`|~") +
                  [';', '{', '}', '\t', 'é', '日'])


def no_openers(s):
    while '; ' in s or '{ ' in s:
        s = s.replace('; ', ';').replace('{ ', '{')
    return s


def rand_value(rng, maxlen=12):
    """a tag value over the stated alphabet: no quote, no line end, no comment opener ('; ' / '{ ')"""
    r = rng.random()
    if r < 0.25:
        s = str(rng.randrange(1, 200))
    elif r < 0.35:
        s = rng.choice(['', ' ', '  ', ' 7', '7 ', '2  x', 'a  b   c', '\t', ' \t ', ']', '[', '[Board ', '] [', ';', '{', '}', ';x',
                        'x;', '{}', '%', '% x', '-', 'Board', 'N', "it's", '\\', '\\2R;Result\\2R'])
    else:
        s = ''.join(rng.choice(VALUE_ALPHABET) for _ in range(rng.randrange(0, maxlen)))
    return no_openers(s)


def rand_blank(rng):
    return rng.choice(['', '', '', ' ', '  ', '\t', ' \t '])


def rand_row(rng):
    r = rng.random()
    if r < 0.4:
        s = ' '.join(rng.choice(['1C', 'Pass', 'X', 'XX', '7NT', 'SK', 'H2', '-', '*', 'AP', '=1=', '$1']) for _ in range(rng.randrange(1, 5)))
    elif r < 0.6:
        s = rng.choice(['KQ86    -       QJ      K', 'N S 3 =', '*', '+', '  1C  ', '\tPass', 'x]', ']', 'a;b', 'a{b', 'a}b', '}', 'x %', ' %'])
    else:
        s = ''.join(rng.choice([c for c in VALUE_ALPHABET if c != '[']) for _ in range(rng.randrange(1, 14)))
    s = no_openers(s).replace('[', '(')
    if not s.strip(' \t') or s[:1] == '%':
        s = 'x' + s
    return s


def gen_board(rng, complete=True):
    hands = J.rand_deal(rng, partial_ok=False)
    if not complete or rng.random() < 0.12:
        for i in rng.sample(range(4), rng.randrange(1, 4)):
            hands[i] = []
    return {'id': rand_value(rng), 'dealer': rng.choice(SEATS), 'vul': rng.choice(VULS), 'hands': hands}


def gen_layout_ops(rng, ctx=None, nboards=None):
    """ops that build an ADMISSIBLE import file for a random list of boards; returns (ops, boards)"""
    cnt = ctx.count if ctx else (lambda *a: None)
    n = rng.choice([0, 1, 1, 2, 3, 5]) if nboards is None else nboards
    eol = rng.choice(['lf', 'crlf'])
    cnt('layout_' + eol)
    ops = [f'B.fbegin {eol}']
    for _ in range(rng.choice([0, 0, 1, 2, 3])):
        ops.append('B.fheader ' + hx(rng.choice(['% PBN 2.1', '% EXPORT', '%', '% [Board "99"]', '%%', '% ; x { y', '%"'])))
        cnt('header_lines')
    nlead = rng.choice([0, 0, 0, 1, 2, 3])
    for _ in range(nlead):
        ops.append('B.flead ' + hx(rand_blank(rng)))
    if nlead:
        cnt('leading_blank_lines')
    boards = []
    for k in range(n):
        b = gen_board(rng)
        boards.append(b)
        first = rng.choice(SEATS)
        spell = rng.choice(VUL_SPELLINGS[b['vul']])
        req = [('Deal', pbn_of(b['hands'], first)), ('Dealer', b['dealer']), ('Vulnerable', spell), ('Board', b['id'])]
        extra = [(rng.choice(['Event', 'Site', 'Date', 'West', 'North', 'Scoring', 'Declarer', 'Contract', 'Result', 'Auction',
                              'Play', 'OptimumScore', 'OptimumResultTable', 'Zz', 'Ab']), rand_value(rng))
                 for _ in range(rng.randrange(0, 8))]
        tags = req + extra
        rng.shuffle(tags)
        # later duplicates of the required tags, with other values (first occurrence wins)
        for _ in range(rng.choice([0, 0, 1, 2])):
            tags.append((rng.choice(['Deal', 'Dealer', 'Vulnerable', 'Board']), rand_value(rng)))
            cnt('duplicate_tags')
        if tags[0][0] != 'Deal':
            cnt('deal_not_first')
        ops.append('B.fgame')
        for i, (name, val) in enumerate(tags):
            so, sc = rng.random() < 0.15, rng.random() < 0.15
            ops.append(f'B.ftag {hx(name)} {hx(val)} {int(so)} {int(sc)} {hx(rand_blank(rng))}')
            if '  ' in val:
                cnt('value_with_double_space')
            for _ in range(rng.choice([0, 0, 0, 1, 3])):
                ops.append('B.frow ' + hx(rand_row(rng)))
                cnt('table_rows')
        nsep = rng.choice([1, 1, 2, 3]) if k < n - 1 else rng.choice([0, 0, 1, 2, 3])
        if nsep > 1:
            cnt('multiple_blank_lines')
        if k == n - 1 and nsep:
            cnt('trailing_blank_lines')
        for _ in range(nsep):
            ops.append('B.fsep ' + hx(rand_blank(rng)))
    return ops, boards


def expected_settings_line(boards):
    def one(b):
        return (f'id={hx(b["id"])} dealer={b["dealer"]} vul={b["vul"]} '
                f'deal={"|".join(cs(h) for h in b["hands"])} dda=-')
    return ' ## '.join(one(b) for b in boards) if boards else 'EMPTY'


def rand_soup(rng):
    """PBN-ish text with comments, stray quotes and brackets: for the reader MODEL (not in the property's domain)"""
    pieces = ['[Board "1"]', '[Deal "N:- - - -"]', '[Dealer "N"]', '[Vulnerable "None"]', '[ Event "x y" ]', '[Site ""]',
              '[A "b"]', '[Ab "c"]', '[ab "c"]', '[Ab"c"]', '[Ab  "c"]', '[Ab "c" ]', '[Ab "c"  ]', '[  Ab "c"]', '[Ab "c]', '"', '[',
              ']', '; ', ';', '{ ', '{', '}', ' } ', '% x', '%', 'x', ' ', '\t', '1C Pass', '[Note "1; 2"]', '[Note "a { b"] c } d',
              '{ [Board "9"] }', '; [Board "8"]', 'é', '[Board\t"2"]', '[Board "2  x"]', '[X1 "y"]', '[Abc "multi', 'line"]']
    lines = []
    for _ in range(rng.randrange(0, 9)):
        if rng.random() < 0.25:
            lines.append(rng.choice(['', ' ', '\t', '  ']))
        else:
            lines.append(''.join(rng.choice(pieces) + rng.choice(['', '', ' ']) for _ in range(rng.randrange(1, 4))))
    eol = rng.choice(['\n', '\n', '\r\n'])
    text = eol.join(lines) + rng.choice(['', eol])
    if rng.random() < 0.1:
        text = text.replace(eol, rng.choice(['\r', '\n\r', eol]), 1)
    return text


def gen_result_op(rng, ctx=None, long_ok=True):
    cnt = ctx.count if ctx else (lambda *a: None)

    def name():
        r = rng.random()
        if long_ok and r < 0.04:
            cnt('long_values')
            return ''.join(rng.choice('abc d') for _ in range(rng.choice([240, 250, 260, 520])))
        return rand_value(rng, 20)
    hands = J.rand_deal(rng, partial_ok=False)
    if rng.random() < 0.1:
        for i in rng.sample(range(4), rng.randrange(1, 4)):
            hands[i] = []
        cnt('results_with_unknown_hands')
    passed = rng.random() < 0.25
    if passed:
        bid, x, xx, decl, tricks = rng.choice(['-', 'P']), '0', '0', '-', 'null'
        cnt('passed_out_results')
    else:
        bid = str(rng.randrange(35))
        r = rng.random()
        x, xx = ('0', '0') if r < 0.5 else (('1', '0') if r < 0.75 else ('1', '1'))
        decl, tricks = rng.choice(SEATS), str(rng.randrange(0, 14))
        cnt('played_results')
    y = rng.choice([1, 5, 999, 1000, 1998, 2019, 2024, 9999])
    if y < 1000:
        cnt('year_below_1000')
    return ' '.join(['B.result', hx(name()), hx(name()), str(y), str(rng.randrange(1, 13)), str(rng.randrange(1, 29)),
                     str(rng.choice([1, 2, 16, 99, 12345678901234567890])), hx(name()), hx(name()), hx(name()), hx(name()),
                     rng.choice(SEATS)] + [cs(h) for h in hands] +
                    [rng.choice(J.SCORINGS), bid, x, xx, rng.choice(VULS), decl, tricks])
