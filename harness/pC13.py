"""C13 — an aborted session still leaves a well-formed log of the completed boards (fault enumeration)."""
import io
import json
import random

import common
import json_common as J
from auction_common import law_legal, PASS, X, XX

SEATS = ['N', 'E', 'S', 'W']
FORMAL = {'N': 'North', 'E': 'East', 'S': 'South', 'W': 'West'}
# NOTE: sched / session (which patch threading, queue and socket in their home modules) are imported lazily, inside the
# worker processes only: the parent's multiprocessing.Pool must keep the real primitives.

TITLE = 'An aborted session still leaves a well-formed log of the completed boards'
LEAN_TARGETS = ['BridgeVerif.Props.C13', 'BridgeVerif.Translated.ThreadsMainF', 'BridgeVerif.Translated.ThreadsMainG', 'BridgeVerif.Translated.ThreadsMainH']
AUDIT_PROPS = ['C13', 'Translated.ThreadsMainF', 'Translated.ThreadsMainG', 'Translated.ThreadsMainH', 'Translated.MsgParsersE', 'Translated.MsgParsersF']
REQUIRED = ['Translated.ThreadsMainF.main_bidding_unparseable_raises', 'Translated.ThreadsMainG.main_card_unparseable_raises', 'Translated.ThreadsMainG.main_trick_unparseable_raises', 'Translated.ThreadsMainH.main_playing_unparseable_raises', 'Translated.MsgParsersE.parse_card_refuses', 'Translated.MsgParsersF.parse_bid_refuses', 'abort_closes_writer', 'aborted_log_is_wellformed', 'aborted_log_reads_back', 'unclosed_log_not_json_old',
            'session_records_are_wellformed']
SHARDS = {'quick': 4, 'thorough': 16}
RULE = ('fault enumeration on the unmodified threaded Server under the deterministic scheduler: sessions of 1-3 boards in which '
        'one client, at one point (board k; call j of the auction; card j of the play), sends an illegal call, an unparseable '
        'call, a call in the name of another seat, an unparseable card, a card it does not hold (a card of another hand / an '
        'already played card), or the operator interrupt (KeyboardInterrupt) is delivered to the main thread while it waits for '
        'its m-th queue message. quick: a stratified sample of abort points; thorough: EVERY abort point of a one-board, a '
        'two-board and a three-board session. After Server.run has raised, the output file must (1) be one JSON document '
        '(strict token stream equal to the Lean model of the closed log of the k completed boards), (2) contain exactly the k '
        'boards finished before the abort, each equal to the record of the un-aborted session, (3) be read by the real '
        'JsonParser.parse_board_logs as k records. distinct = distinct (scenario, abort point, kind).')
TRUSTED = ['the `with` statement calls __exit__ on every exception incl. KeyboardInterrupt (Python semantics)',
           'primitive semantics of Queue / socket / Barrier as stated for C09',
           'KeyboardInterrupt is modelled as raised by the blocking Queue.get of the main thread']
ASSUMPTIONS = ['in-memory network instead of TCP', 'the interrupt is delivered while main waits for a message (the only place it blocks)',
               'an interrupt delivered in the middle of a single writer call (inside json.dumps / file.write) is not modelled']
REQUIRED_COUNTERS = {
    'quick': ['abort_sessions', 'kind_illegal_call', 'kind_unparseable_call', 'kind_unparseable_card', 'kind_card_not_held',
              'kind_interrupt', 'aborts_in_first_board', 'aborts_in_later_board'],
    'thorough': ['abort_sessions', 'kind_illegal_call', 'kind_unparseable_call', 'kind_wrong_name_call', 'kind_unparseable_card',
                 'kind_card_not_held', 'kind_card_already_played', 'kind_interrupt', 'aborts_in_first_board',
                 'aborts_in_later_board']}


def cases(ctx):
    return []


# ------------------------------------------------------------------ abort points of a scenario
def abort_points(sc):
    """all (board, phase, index, kind, seat, text) fault descriptions of a scenario"""
    import session
    pts = []
    for k, b in enumerate(sc['boards']):
        dealer_i = SEATS.index(b['dealer'])
        hist = []
        for j, (c, _text) in enumerate(b['calls']):
            turn = (dealer_i + j) % 4
            seat = SEATS[turn]
            leg, _over = law_legal(dealer_i, hist)
            illegal = [x for x in range(38) if not leg[x]]
            if illegal:
                # the highest illegal bid if any (just below / equal to the last bid), else X / XX
                x = max([i for i in illegal if i < 35], default=illegal[0])
                pts.append((k, 'call', j, 'illegal_call', seat, session.call_text(random.Random(0), seat, x, fancy=False)))
            pts.append((k, 'call', j, 'unparseable_call', seat, f'{FORMAL[seat]} bids 9C' if j % 2 else f'{FORMAL[seat]} says hello'))
            other = SEATS[(turn + 1) % 4]
            pts.append((k, 'call', j, 'wrong_name_call', seat, f'{FORMAL[other]} passes'))
            hist.append(c)
        con = session.contract_of(dealer_i, hist)
        if con is None:
            continue
        _bid, _dbl, decl = con
        dummy = (decl + 2) % 4
        live = [set(h) for h in b['deal']]
        played = []
        for j, (c, _text, who) in enumerate(b['plays']):
            who_i = SEATS.index(who)
            sender = SEATS[decl if who_i == dummy else who_i]
            pts.append((k, 'card', j, 'unparseable_card', sender, f'{FORMAL[who]} plays ZZ' if j % 2 else f'{FORMAL[who]} plays'))
            foreign = sorted(live[(who_i + 1) % 4] or live[(who_i + 2) % 4] or live[(who_i + 3) % 4])
            if foreign:
                x = foreign[j % len(foreign)]
                pts.append((k, 'card', j, 'card_not_held', sender, f'{FORMAL[who]} plays {session.RANKS[x % 13]}{"CDHS"[x // 13]}'))
            if played:
                x = played[j % len(played)]
                pts.append((k, 'card', j, 'card_already_played', sender, f'{FORMAL[who]} plays {"CDHS"[x // 13]}{session.RANKS[x % 13]}'))
            live[who_i].discard(c)
            played.append(c)
    return pts


def interrupt_bounds(sc, r):
    """(kmin, kmax) boards in the log for an interrupt at the point where the main thread of run `r` stopped"""
    ops = r.ops.get('main', [])
    g = sum(1 for o in ops if o[0] == 'get')
    cum, kmax = 0, 0
    for n in main_gets(sc):
        cum += n
        if cum <= g:
            kmax += 1
    nb = sum(1 for o in ops if o[0] == 'put' and o[2] == 'next board')
    end = any(o[0] == 'put' and o[2] == 'End of session' for o in ops)
    kmin = min(kmax, (nb + 3) // 4 + (1 if end else 0))
    return kmin, kmax


def main_gets(sc):
    """number of Queue.get calls of the main thread per board of the un-aborted session: one per call, one per card"""
    out = []
    for b in sc['boards']:
        out.append(len(b['calls']) + len(b['plays']))
    return out


def run_abort(ctx, driver, sc, model, fault=None, inject=None, policy=None):
    """one aborted session; returns list of failure dicts"""
    import session
    import session_check as SC
    import session_props as SP
    pdesc = policy or {'kind': 'random', 'seed': ctx.rng.randrange(1 << 30)}
    r = session.run_session(sc, SP.make_policy(pdesc), ctx.workdir, faults=fault, inject=inject, max_steps=400000)
    ctx.count('_cases')
    ctx.count('_evals', r.steps)
    ctx.count('abort_sessions')
    fails = []
    if inject is not None and inject.get('op') == 'yield':
        # an interrupt between two arbitrary steps of the main thread: the boards that MUST be in the log are those after
        # which the server has already announced the next board (or the end of the session); a board whose last call /
        # card the server has not received yet must NOT be in it; in between (result being worked out) either is right
        kmin, kmax = interrupt_bounds(sc, r)
        try:
            logged = len(json.loads(r.log_text)['logs'])
        except Exception:
            logged = None
        if logged is not None and kmin <= logged <= kmax:
            k = logged
        else:
            k = kmin
        ctx.count('interrupt_between_boards' if kmin == kmax and kmin > 0 and any(
            o[0] == 'put' and o[2] == 'next board' for o in r.ops.get('main', [])[-12:]) else 'interrupt_elsewhere')
    else:
        k = fault['board'] if fault else inject['board']
    ctx.count('aborts_in_first_board' if k == 0 else 'aborts_in_later_board')

    def fail(key, detail, kind='counterexample'):
        fails.append({'key': key, 'kind': kind, 'scenario': sc, 'policy': pdesc, 'schedule': r.schedule,
                      'fault': fault, 'inject': inject, 'diff': detail})
    if r.status == 'WATCHDOG':
        fail('completion', {'status': r.status, 'blocked': r.deadlock})
        return fails
    if 'main' not in r.exceptions:
        # the server did not abandon the session: the fault description does not apply (harness problem, not a violation)
        raise common.Infra(f'expected Server.run to raise for fault={fault} inject={inject}; status={r.status} '
                           f'exceptions={r.exceptions}')
    text = r.log_text
    if text is None:
        fail('no-output-file', 'the output file does not exist after the abort')
        return fails
    exp_hex = driver.run(SC.scenario_ops(sc) + [f'X.abortlog {k} 1'])[-1]
    try:
        doc = json.loads(text)
    except ValueError as e:
        fail('aborted-log-not-json', {'error': repr(e), 'tail': text[-120:], 'boards_completed': k,
                                      'main_exception': r.exceptions.get('main')})
        return fails
    if J.tokens(text) != J.tokens(J.unhx(exp_hex)):
        fail('aborted-log-text', {'impl_tail': text[-200:], 'model_tail': J.unhx(exp_hex)[-200:]}, kind='broken-correspondence')
    logs = doc.get('logs') if isinstance(doc, dict) else None
    if not isinstance(logs, list) or len(logs) != k:
        fail('aborted-log-boards', {'logged': None if not isinstance(logs, list) else len(logs), 'completed': k})
        return fails
    try:
        lines = [SC.record_line(d) for d in logs]
    except Exception as e:
        lines = None
        fail('aborted-log-record-shape', repr(e))
    if lines is not None and lines != model['records'][:k]:
        i = next(i for i, (a, b) in enumerate(zip(lines, model['records'])) if a != b)
        fail('aborted-log-record', {'index': i, 'impl': lines[i], 'model': model['records'][i]})
    try:
        recs = J.env()['JsonParser']().parse_board_logs(io.StringIO(text))
        if len(recs) != k:
            fail('aborted-log-readback', {'records': len(recs), 'completed': k})
    except Exception as e:
        fail('aborted-log-readback', repr(e))
    return fails


def fault_of(pt):
    k, phase, j, kind, seat, text = pt
    return {'board': k, 'phase': phase, 'index': j, 'seat': seat, 'text': text, 'kind': kind}


def extra_checks(ctx):
    import session
    import session_check as SC
    driver = common.ModelDriver()
    rng = ctx.rng
    fails = []
    if ctx.quick:
        plans = [(random.Random(f'C13/{ctx.seed}/q{i}'), nb, 9) for i, nb in enumerate([1, 2, 3, 2])]
        plans = plans[ctx.shard::ctx.nshards]
    else:
        plans = [(random.Random(f'C13/{ctx.seed}/t{nb}'), nb, None) for nb in (1, 2, 3)]
    for prng, nb, sample in plans:
        kinds = [None] * nb
        if nb >= 2:
            kinds[0] = prng.choice(['short', None])
        sc = session.gen_scenario(prng, nb, fancy=True, kinds=kinds)
        model = SC.model_session(driver, sc)
        pts = abort_points(sc)
        gets = main_gets(sc)
        ints = []
        base = 0
        for k, g in enumerate(gets):
            ints += [{'thread': 'main', 'op': 'get', 'k': base + m + 1, 'board': k} for m in range(g)]
            base += g
        # interrupts between ANY two synchronisation steps of the main thread once the boards have begun (barrier waits,
        # queue puts, ...): the yield numbers come from an undisturbed run of the same scenario
        import session_props as SP0
        ref = session.run_session(sc, SP0.make_policy({'kind': 'lowest'}), ctx.workdir, max_steps=400000)
        mops, mat = ref.ops.get('main', []), ref.ops_at.get('main', [])
        first_put = next((i for i, o in enumerate(mops) if o[0] == 'put'), len(mops))
        cand = [(mat[i], mops[i]) for i in range(first_put, len(mops)) if mops[i][0] != 'join']
        special = [y for y, o in cand if o[0] in ('arrive', 'depart') or (o[0] == 'put' and o[2] in ('next board', 'End of session'))
                   or (o[0] == 'put' and isinstance(o[2], str) and o[2].startswith('Board number'))]
        if sample is not None:
            ys = sorted(set(prng.sample(special, min(len(special), 10)) + prng.sample([y for y, _ in cand], min(len(cand), 6))))
        else:
            ys = sorted({y for y, _ in cand})
        yints = [{'thread': 'main', 'op': 'yield', 'k': y} for y in ys]
        jobs = [('fault', p) for p in pts] + [('int', i) for i in ints]
        if sample is not None:
            # stratified sample: every kind, first / middle / last positions, every board
            by_kind = {}
            for jb in jobs:
                key = (jb[1][3] if jb[0] == 'fault' else 'interrupt', jb[1][0] if jb[0] == 'fault' else jb[1]['board'])
                by_kind.setdefault(key, []).append(jb)
            picked = []
            for key, l in sorted(by_kind.items(), key=lambda kv: str(kv[0])):
                idx = sorted({0, len(l) // 2, len(l) - 1, prng.randrange(len(l))})
                picked += [l[i] for i in idx][:2 if len(by_kind) > 12 else 3]
            prng.shuffle(picked)
            jobs = picked[:sample * 4] + [('yint', i) for i in yints]
        else:
            jobs = (jobs + [('yint', i) for i in yints])[ctx.shard::ctx.nshards]
        for kind, d in jobs:
            if kind == 'fault':
                ctx.count('kind_' + d[3])
                ctx.distinct.add(hash((json.dumps(sc, sort_keys=True), d)))
                fails += run_abort(ctx, driver, sc, model, fault=fault_of(d))
            else:
                ctx.count('kind_interrupt' if kind == 'int' else 'kind_interrupt_any_step')
                ctx.distinct.add(hash((json.dumps(sc, sort_keys=True), kind, d['k'])))
                fails += run_abort(ctx, driver, sc, model, inject=d)
            if len(fails) > 6 or any((f.get('diff') or {}).get('status') == 'WATCHDOG' for f in fails if isinstance(f.get('diff'), dict)):
                return fails
    if ctx.shard == 0:
        # minimised past failures first-class: corpus/C13/*.json (scenario + fault), re-run under their recorded policy
        import os
        cdir = os.path.join(common.VERIF, 'corpus', 'C13')
        for fn in sorted(os.listdir(cdir)) if os.path.isdir(cdir) else []:
            if fn.endswith('.json'):
                rec = json.load(open(os.path.join(cdir, fn)))
                csc = rec['scenario']
                ctx.count('corpus_cases')
                fails += run_abort(ctx, driver, csc, SC.model_session(driver, csc), fault=rec.get('fault'),
                                   inject=rec.get('inject'), policy=rec.get('policy'))
        # the operator's interrupt as a REAL signal: Server.run() in the main thread of a child process over loopback TCP,
        # SIGINT while board 2 is under way (harness/sigint_smoke.py); what the scheduler-injected KeyboardInterrupt cannot
        # exhibit (signal dispositions, the process dying before the `with` unwinds)
        import subprocess
        import sys
        for rep in range(1 if ctx.quick else 3):
            try:
                pr = subprocess.run([sys.executable, os.path.join(common.VERIF, 'harness', 'sigint_smoke.py')],
                                    env=dict(os.environ, PYTHONPATH=common.REPO), stdout=subprocess.PIPE,
                                    stderr=subprocess.STDOUT, text=True, timeout=120)
                rc, out = pr.returncode, pr.stdout
            except subprocess.TimeoutExpired as e:
                rc, out = 1, 'watchdog of the harness: no exit after 120 s ' + str(e.stdout)[-300:]
            if rc == 3:
                ctx.count('sigint_smoke_unavailable')
                break
            ctx.count('sigint_smoke_sessions')
            ctx.count('_cases')
            if rc != 0:
                fails.append({'key': 'log-after-real-sigint', 'kind': 'counterexample', 'scenario': None,
                              'diff': {'what': 'SIGINT sent to the table manager process while board 2 was under way: the output '
                                               'file is not the complete log of board 1', 'output': out[-800:],
                                       'rerun': 'PYTHONPATH=/repo /venv/bin/python harness/sigint_smoke.py'}})
                break
        ctx.samples.append({'note': 'a case is (scenario, abort point, fault kind); the output file is compared with the '
                                    'closed log of the completed boards'})
    return fails


def replay(record):
    import sched as S
    import session_check as SC
    driver = common.ModelDriver()
    sc = record['scenario']
    model = SC.model_session(driver, sc)

    class C:
        workdir = common.VERIF + '/.work'
        rng = random.Random(0)
        counters = {}
        distinct = set()

        def count(self, *a):
            pass
    import os
    os.makedirs(C.workdir, exist_ok=True)
    pol = {'kind': 'replay', 'schedule': record['schedule']} if record.get('schedule') else record.get('policy')
    try:
        fails = run_abort(C(), driver, sc, model, fault=record.get('fault'), inject=record.get('inject'), policy=pol)
    except RuntimeError:
        S.end_run()
        fails = run_abort(C(), driver, sc, model, fault=record.get('fault'), inject=record.get('inject'), policy=record.get('policy'))
    for f in fails:
        print('DIFF', json.dumps(f['diff'], default=str)[:1500])
    print(f'{len(fails)} failure(s)')
    return 1 if fails else 0
