"""C20 — admission seats one conforming client per seat and turns the others away."""
import json
import random
import re

import common
from common import Case

TITLE = 'Admission seats one conforming client per seat and turns the others away'
LEAN_TARGETS = ['BridgeVerif.Props.C20', 'BridgeVerif.Translated.Messages', 'BridgeVerif.Translated.ThreadsSeatB', 'BridgeVerif.Translated.ThreadsSeatC', 'BridgeVerif.Translated.ThreadsMainC', 'BridgeVerif.Lemmas.RegexConnectB', 'BridgeVerif.Translated.ConnectInfo', 'BridgeVerif.Translated.ThreadsSeatE']
AUDIT_PROPS = ['C20', 'Translated.Messages', 'Translated.ThreadsSeatB', 'Translated.ThreadsSeatC', 'Translated.ThreadsMainC', 'Lemmas.RegexConnect', 'Lemmas.RegexConnectB', 'Translated.ConnectInfo', 'Translated.ThreadsSeatE']
REQUIRED = ['Lemmas.RegexConnect.match_connect', 'Lemmas.RegexConnectB.agreeLit_all', 'Translated.ConnectInfo.parse_connection_info_translated', 'Translated.ThreadsMainC.main_accept_loop_translated', 
            'Translated.ThreadsSeatC.seat_run_refused_translated', 
            'Translated.ThreadsSeatB.seat_connect_translated', 'Translated.ThreadsSeatB.seat_connect_not_ready_translated', 'Translated.ThreadsSeatB.seat_connect_matches_connectR', 
            'Translated.Messages.connection_line_read',
            'accept_iff_ok', 'error_is_first_failing_test', 'reject_leaves_table_unchanged', 'loop_continues_until_full',
            'one_client_per_seat', 'partners_share_team', 'teams_message_correct', 'verdicts_are_a_prefix', 'order_matters',
            'accept_loop_is_the_fold']
SHARDS = {'quick': 4, 'thorough': 16}
SEATS = ['N', 'E', 'S', 'W']
FORMAL = {'N': 'North', 'E': 'East', 'S': 'South', 'W': 'West'}
RULE = ('sequences of 4-14 well-formed connection requests (valid; wrong protocol version; seat already taken; team name '
        'different from the seated partner\'s; seat names and keywords in any letter case; versions with leading zeros; empty and '
        'spaced team names) sent by concurrently scheduled client threads to the UNMODIFIED threaded Server under the '
        'deterministic scheduler. Two modes: "sequence" (request i+1 is sent after request i was answered, so the request '
        'sequence is the generated one; any verdict mix, always completed to a full table) and "free" (no ordering: the '
        'scheduler decides who is accepted first; the model is folded over the observed accept order). Compared with the Lean '
        'model: the verdict KIND of every request (seated / error — the wording of an error is not compared), the exact '
        '"<Seat> <team> seated" reply, that the server closes a rejected connection, the final seat table, the two names in '
        'the Teams message of each of the four seated clients, and that the first board then starts and the (one-board) session '
        'runs to completion with every thread finished. distinct = distinct (request sequence, mode, policy).')
TRUSTED = ['primitive semantics of Queue / socket / Barrier / Event as stated for C09; accept order = connect order (FIFO backlog)',
           'the accept loop serves one connection at a time (it waits for the connection thread\'s verdict event), so every '
           'interleaving of connecting clients is a request sequence — argued in DESIGN.md, exercised by the "free" mode']
ASSUMPTIONS = ['requests are well-formed (they match the connection pattern) and an accepted client then follows the protocol',
               'in-memory network instead of TCP (no backlog limit)']
REQUIRED_COUNTERS = {t: ['admission_sessions', 'mode_sequence', 'mode_free', 'verdict_seated', 'verdict_badVersion',
                         'verdict_seatTaken', 'verdict_teamMismatch', 'unserved_requests']
                     for t in ('quick', 'thorough')}


# areas of the pure core whose TRANSLATION (Generated/PyCore.lean) is run next to the real code in this check
TRANSLATED_AREAS = ('msg',)

def cases(ctx):
    return []


def hx(s):
    return s.encode('utf-8').hex() if s else '-'


def recase(rng, s):
    m = rng.randrange(4)
    if m == 0:
        return s
    if m == 1:
        return s.upper()
    if m == 2:
        return s.lower()
    return ''.join(c.upper() if rng.random() < 0.5 else c.lower() for c in s)


def request_text(rng, att):
    ver = str(att['version'])
    if rng.random() < 0.15:
        ver = '0' + ver
    return (f'{recase(rng, "Connecting")} "{att["team"]}" {recase(rng, "as")} {recase(rng, FORMAL[att["seat"]])} '
            f'{recase(rng, "using protocol version")} {ver}')


def model_serve(driver, atts):
    arg = ';'.join(f'{hx(a["team"])},{a["seat"]},{a["version"]}' for a in atts) or '-'
    line = driver.run([f'G.serve {arg}'])[0]
    m = re.fullmatch(r'v=(\S*) table=N:(\S+),E:(\S+),S:(\S+),W:(\S+) full=([01]) teams=(\S+) replies=(\S*)', line)
    if not m:
        raise common.Infra('driver G.serve answered: ' + line[:200])

    def unh(h):
        return None if h == 'none' else ('' if h == '-' else bytes.fromhex(h).decode('utf-8'))
    return {'verdicts': [v for v in m.group(1).split(',') if v], 'table': {p: unh(m.group(i + 2)) for i, p in enumerate(SEATS)},
            'full': m.group(6) == '1', 'teams': unh(m.group(7)),
            'replies': [unh(x) for x in m.group(8).split(',')] if m.group(8) else []}


NAMES = ['a', 'b', 'Team A', 'x y', '', 'ñ', 'N/S', 'team (1)', 'TEAM A', 'A']


def near_miss(rng, team):
    """another team name that differs from `team` as little as a name can: letter case only, one blank more, one character
    more — the partner test is an exact comparison (seeded change C20e-1 made it case-insensitive)"""
    cands = [t for t in (team.upper(), team.lower(), team.swapcase(), team + ' ', ' ' + team, team + 'x', team[:-1]) if t != team]
    return rng.choice(cands)



def gen_sequence(rng, driver, ctx_count=lambda k: None):
    """a request sequence with every kind of verdict that ends with a full table"""
    ns, ew = rng.sample(NAMES, 2)
    atts = []
    for _ in range(rng.randrange(0, 9)):
        seat = rng.choice(SEATS)
        r = rng.random()
        if r < 0.25:
            atts.append({'team': rng.choice(NAMES), 'seat': seat, 'version': rng.choice([17, 19, 1, 0, 180])})
        elif r < 0.5:
            atts.append({'team': rng.choice(NAMES), 'seat': seat, 'version': 18})          # often a mismatch or a duplicate
        else:
            atts.append({'team': ns if seat in 'NS' else ew, 'seat': seat, 'version': 18})
    # complete to a full table: for every seat still free, a request that the table at that moment accepts
    while True:
        mres = model_serve(driver, atts)
        if mres['full']:
            break
        free = [p for p in SEATS if mres['table'][p] is None]
        p = rng.choice(free)
        partner = SEATS[(SEATS.index(p) + 2) % 4]
        team = mres['table'][partner] if mres['table'][partner] is not None else (ns if p in 'NS' else ew)
        if rng.random() < 0.3:
            atts.append({'team': team, 'seat': rng.choice([q for q in SEATS if mres['table'][q] is not None] or [p]), 'version': 18})
        if mres['table'][partner] is not None and rng.random() < 0.5:
            # a free seat whose partner is seated, under another team name: must be turned away, the seat stays free
            other = near_miss(rng, team) if rng.random() < 0.5 else rng.choice([x for x in NAMES if x != team])
            ctx_count('near_miss_team' if other.lower() == team.lower() else 'other_team')
            atts.append({'team': other, 'seat': p, 'version': 18})
        atts.append({'team': team, 'seat': p, 'version': 18})
    # drop what would come after the table is full, then add a few requests that will never be served
    atts = atts[:len(mres['verdicts'])]
    return atts


def gen_free(rng):
    """requests whose verdict mix cannot leave the table incomplete whatever the order: one team name per side"""
    ns, ew = rng.sample(NAMES, 2)
    atts = [{'team': ns if p in 'NS' else ew, 'seat': p, 'version': 18} for p in SEATS]
    for _ in range(rng.randrange(0, 7)):
        p = rng.choice(SEATS)
        if rng.random() < 0.5:
            atts.append({'team': ns if p in 'NS' else ew, 'seat': p, 'version': 18})
        else:
            atts.append({'team': rng.choice(NAMES), 'seat': p, 'version': rng.choice([17, 19, 2])})
    rng.shuffle(atts)
    return atts


def run_admission(ctx, driver, atts, mode, pdesc, text_seed):
    import sched as S
    import session
    import session_props as SP
    trng = random.Random(text_seed)
    # a one-board passed-out session for the four clients that get seated
    sc = session.gen_scenario(random.Random(text_seed), 1, fancy=False, kinds=['passout'])
    texts = [request_text(trng, a) for a in atts]
    outs_att = [{} for _ in atts]

    def attempts(addr, outs):
        import threading
        gates = [threading.Event() for _ in atts]      # controlled events (sched.install patched threading.Event)
        res = []
        for i, a in enumerate(atts):
            def fn(i=i, a=a):
                import socket
                o = outs_att[i]
                if mode == 'sequence' and i > 0:
                    gates[i - 1].wait()
                sock = socket.socket(socket.AF_INET, socket.SOCK_STREAM)
                w = session.Wire(sock)
                try:
                    sock.connect(addr)
                    w.send(texts[i])
                    try:
                        o['reply'] = w.recv()
                    finally:
                        gates[i].set()
                    if o['reply'].startswith('ERROR') or not o['reply'].endswith('seated'):
                        try:
                            extra = w.recv()
                            o['after_error'] = extra
                        except EOFError:
                            o['closed_by_server'] = True
                        return
                    o['seated'] = True
                    session.client_session(w, a['seat'], sc, o)
                except (EOFError, session.ClientAbort) as e:
                    o['aborted'] = repr(e)
                finally:
                    sock.close()
            res.append((f'att-{i}', fn))
        return res
    r = session.run_session(sc, SP.make_policy(pdesc), ctx.workdir, attempts=attempts, max_steps=400000)
    r.scenario = sc
    return r, outs_att, texts


def check_run(ctx, driver, atts, mode, pdesc, text_seed):
    r, outs, texts = run_admission(ctx, driver, atts, mode, pdesc, text_seed)
    ctx.count('_cases')
    ctx.count('_evals', r.steps)
    ctx.count('admission_sessions')
    ctx.count('mode_' + mode)
    fails = []

    def fail(key, detail, kind='counterexample'):
        fails.append({'key': key, 'kind': kind, 'attempts': atts, 'mode': mode, 'policy': pdesc, 'text_seed': text_seed,
                      'schedule': r.schedule, 'request_texts': texts, 'diff': detail})
    # the TRANSLATED connection threads and accept loop (Generated/PyCoreThreads.lean: SeatThread._connect / run, MainThread.run)
    # on what the world handed the real ones: every accepted connection, seated or refused
    if r.status == 'DONE' and not r.exceptions:
        import session
        import thread_check as TC
        tdiffs, n_lean = TC.check_session(common.REPO, r, driver, bundled=(), boards=session.board_settings(r.scenario))
        ctx.count('translated_thread_runs', n_lean)
        for d in tdiffs:
            fail('translated-thread-ops', d, kind='broken-correspondence')
    # the order in which the server accepted the requests = order of connection (FIFO backlog)
    order = [int(c[0].split('-')[1]) for c in r.conns if c[0].startswith('att-')]
    if mode == 'sequence' and order != sorted(order):
        raise common.Infra(f'sequence mode did not serialise the requests: {order}')
    served = [atts[i] for i in order]
    m = model_serve(driver, served)
    nserved = len(m['verdicts'])
    for v in m['verdicts']:
        ctx.count('verdict_' + v)
    ctx.count('unserved_requests', len(order) - nserved + (len(atts) - len(order)))
    # 1. per request: verdict kind, exact seated reply, connection closed after an error
    for pos, i in enumerate(order):
        o = outs[i]
        if pos >= nserved:
            if 'reply' in o:
                fail('reply-after-table-full', {'request': atts[i], 'reply': o['reply']})
            continue
        want = m['verdicts'][pos]
        got_reply = o.get('reply')
        if got_reply is None:
            fail('no-reply', {'request': atts[i], 'position': pos, 'model_verdict': want, 'status': r.status, 'out': o})
            continue
        got_kind = 'error' if got_reply.upper().startswith('ERROR') else 'seated'
        if (want == 'seated') != (got_kind == 'seated'):
            fail('verdict', {'request': atts[i], 'position': pos, 'model': want, 'impl_reply': got_reply,
                             'requests_before': [atts[j] for j in order[:pos]]})
            continue
        if want == 'seated':
            if got_reply != m['replies'][pos]:
                fail('seated-reply-text', {'impl': got_reply, 'model': m['replies'][pos]}, kind='broken-correspondence')
        else:
            if not o.get('closed_by_server'):
                fail('rejected-connection-not-closed', {'request': atts[i], 'out': o})
    if not m['full']:
        if fails:
            return fails             # the implementation seated / rejected differently: already reported with the request
        if r.exceptions or r.status != 'DONE':
            # the model has not seated four players on the requests served so far, yet the server stopped serving
            fail('admission-stopped-early', {'status': r.status, 'exceptions': r.exceptions, 'blocked': r.deadlock,
                                             'served': [atts[i] for i in order], 'model_table': m['table']})
            return fails
        raise common.Infra('generated request set cannot fill the table: ' + json.dumps(atts))
    # 2. the four seated clients: Teams message, first board, end of session
    seated = [(order[pos], served[pos]) for pos in range(nserved) if m['verdicts'][pos] == 'seated']
    seats = sorted(a['seat'] for _, a in seated)
    if seats != sorted(SEATS):
        raise common.Infra('model seated ' + str(seats))
    for i, a in seated:
        o = outs[i]
        if not o.get('seated'):
            continue                     # already reported as a verdict difference
        tm = re.fullmatch(r'Teams : N/S : "(.*)".? E/W : "(.*)"', o.get('teams') or '', re.I)
        if not tm:
            fail('teams-message-missing', {'seat': a['seat'], 'got': o.get('teams'), 'status': r.status, 'blocked': r.deadlock})
        elif (tm.group(1), tm.group(2)) != (m['table']['N'], m['table']['E']) or \
                m['table'][a['seat']] != a['team'] or (tm.group(1) if a['seat'] in 'NS' else tm.group(2)) != a['team']:
            fail('teams-message-names', {'seat': a['seat'], 'got': [tm.group(1), tm.group(2)],
                                         'model_table': m['table'], 'own_team': a['team']})
        if not (o.get('start') and re.fullmatch(r'start\s+of\s+board\.?', o['start'][0], re.I)):
            fail('first-board-did-not-start', {'seat': a['seat'], 'out': {k: v for k, v in o.items() if k != 'cards'},
                                               'status': r.status, 'blocked': r.deadlock})
        elif o.get('end') != 'End of session':
            fail('session-did-not-complete', {'seat': a['seat'], 'end': o.get('end'), 'aborted': o.get('aborted'),
                                              'status': r.status, 'blocked': r.deadlock})
    # 2b. thread level: the reactive model of `_connect` and of the accept loop (Model/Admission.lean: connectR,
    # acceptLoopR) fed the request texts in accept order must yield the operations the REAL connection threads performed
    # before their verdict (receive / send / close / signal) and the REAL main thread's accept-loop operations
    conn_texts = []
    for i in order:
        ready = f'{FORMAL[atts[i]["seat"]]} ready for teams'
        conn_texts.append(f'{hx(texts[i])}:{hx(ready)}')
    line = driver.run(['G.loop ' + (';'.join(conn_texts) or '-')])[0]
    mm = re.fullmatch(r'threads=(\S*) main=(\S*) table=(\S+)', line)
    if not mm:
        fail('admission-model-raises', {'model': line[:200]}, kind='broken-correspondence')
    else:
        want_threads = [x.split(',') for x in mm.group(1).split('|')] if mm.group(1) else []
        for pos, i in enumerate(order[:len(want_threads)]):
            ops_i = r.ops.get(f'seat:att-{i}', [])
            got = []
            for (k, o, pl) in ops_i:
                if k in ('arrive',):
                    break
                if k == 'recv':
                    got.append('r')
                elif k == 'send':
                    body = pl[:-2] if pl.endswith(b'\r\n') else pl
                    got.append('s:' + (body.hex() or '-'))
                elif k == 'close':
                    got.append('c')
                elif k == 'set':
                    got.append('g')
            exp = want_threads[pos]
            # the wording of an error reply is not part of the property: compare it as "an error line"
            def norm(tok):
                if tok.startswith('s:') and tok != 's:-':
                    try:
                        t_ = bytes.fromhex(tok[2:]).decode('utf-8', 'replace')
                    except ValueError:
                        return tok
                    return 's:ERROR' if t_.upper().startswith('ERROR') else tok
                return tok
            if [norm(x) for x in got] != [norm(x) for x in exp]:
                fail('connection-thread-ops', {'request': atts[i], 'position': pos, 'impl': got, 'model': exp},
                     kind='broken-correspondence')
                break
        want_main = [x for x in mm.group(2).split(',') if x and x not in ('sleep', 'alive')]
        got_main = []
        verdict_events = {o for (k, o, pl) in r.ops.get('main', []) if k == 'clear'}      # `event_thread`
        for (k, o, pl) in r.ops.get('main', []):
            if k == 'arrive':
                break
            if k in ('accept', 'start', 'clear') or (k == 'wait' and o in verdict_events):
                got_main.append(k)
        if got_main != want_main:
            fail('accept-loop-ops', {'impl': got_main, 'model': want_main}, kind='broken-correspondence')
        ctx.count('admission_thread_comparisons', len(want_threads))
    # 3. completion: every thread finished, except clients whose request was never accepted (they wait for ever)
    unserved_labels = {f'att-{i}' for pos, i in enumerate(order) if pos >= nserved} | \
                      {f'att-{i}' for i in range(len(atts)) if i not in order}
    live = [l for l, f in r.finished.items() if not f]
    if r.exceptions:
        fail('exception', r.exceptions)
    if r.status == 'DONE':
        pass
    elif r.status == 'DEADLOCK' and set(live) <= unserved_labels:
        pass
    else:
        fail('admission-hangs', {'status': r.status, 'blocked': r.deadlock, 'unserved': sorted(unserved_labels)})
    ctx.distinct.add(hash((json.dumps(atts, sort_keys=True), mode, json.dumps(pdesc, sort_keys=True))))
    return fails


def extra_checks(ctx):
    import session_props as SP
    driver = common.ModelDriver()
    rng = ctx.rng
    fails = []
    n = 8 if ctx.quick else 120
    for k in range(n):
        mode = 'sequence' if k % 2 == 0 else 'free'
        atts = gen_sequence(rng, driver, ctx.count) if mode == 'sequence' else gen_free(rng)
        if k == 0 and ctx.shard == 0:
            atts = [{'team': 'x', 'seat': 'N', 'version': 17}, {'team': 'x', 'seat': 'N', 'version': 18},
                    {'team': 'x', 'seat': 'N', 'version': 18}, {'team': 'y', 'seat': 'S', 'version': 18},
                    {'team': 'z', 'seat': 'W', 'version': 18}, {'team': 'x', 'seat': 'S', 'version': 18},
                    {'team': 'z', 'seat': 'E', 'version': 18}]
        if k == 2 and ctx.shard == 0:
            # partners' names that differ in letter case / by one blank only are DIFFERENT names (fixed case; seeded C20e-1)
            atts = [{'team': 'Alpha', 'seat': 'N', 'version': 18}, {'team': 'ALPHA', 'seat': 'S', 'version': 18},
                    {'team': 'b', 'seat': 'W', 'version': 18}, {'team': 'b ', 'seat': 'E', 'version': 18},
                    {'team': 'Alpha', 'seat': 'S', 'version': 18}, {'team': 'B', 'seat': 'E', 'version': 18},
                    {'team': 'b', 'seat': 'E', 'version': 18}]
            ctx.count('near_miss_team', 3)
        pdesc = SP.random_policy_desc(rng, 600)
        if pdesc['kind'] in ('stall', 'stall_after') and not pdesc['victim'].startswith(('main', 'seat')):
            pdesc['victim'] = 'main'
        fails += check_run(ctx, driver, atts, mode, pdesc, rng.randrange(1 << 30))
        if len(fails) > 10:
            break
    if ctx.shard == 0:
        ctx.samples.append({'note': 'a case is (request sequence, mode, scheduling policy)',
                            'example_requests': atts[:6]})
    return fails


def replay(record):
    driver = common.ModelDriver()

    class C:
        workdir = common.VERIF + '/.work'
        counters = {}
        distinct = set()

        def count(self, *a):
            pass
    import os
    os.makedirs(C.workdir, exist_ok=True)
    fails = check_run(C(), driver, record['attempts'], record['mode'], record['policy'], record['text_seed'])
    for f in fails:
        print('DIFF', f['key'], json.dumps(f['diff'], default=str)[:1500])
    print(f'{len(fails)} failure(s)')
    return 1 if fails else 0
