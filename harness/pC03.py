"""C03 — auction correspondence; see auction_common.py"""
import auction_common as ac
from auction_common import impl_exec, impl_exec_multi, nontrivial, classify  # noqa: F401

SHARDS = {'quick': 1, 'thorough': 16}
TITLE = 'Final contract is the last bid, its doubling state and its true declarer'
LEAN_TARGETS = ['BridgeVerif.Props.C03', 'BridgeVerif.Translated.Auction', 'BridgeVerif.Props.C03t']
AUDIT_PROPS = ['C03', 'Translated.Auction', 'C03t']
REQUIRED = ['C03t.translated_contract_is_spec', 'Translated.Auction.init_translated', 'Translated.Auction.take_bid_translated', 'Translated.Auction.run_translated', 'Translated.Auction.contract_translated',
            'contract_none_before_end', 'contract_is_spec', 'declarer_is_first_namer', 'first_namer_some', 'first_namer_none', 'passed_out_shape', 'flags_follow_status',
            'superseded_double_cleared', 'passed_out_iff_no_bid']
RULE = ('same campaign as C01; the contract is compared after every call (None before the end), as level/denomination, '
        'doubling STATUS (-, X, XX), vulnerability and declarer; branch counters require auctions where both partners / both '
        'sides named the final denomination, the declarer is not the last bidder, and a double was superseded. '
        'distinct = distinct (dealer, vul, accepted history, offered call).')
REQUIRED_COUNTERS = {t: ['both_partners_named_denomination', 'declarer_is_not_last_bidder', 'both_sides_named_denomination',
                         'double_superseded', 'final_doubled', 'final_redoubled', 'passed_out'] for t in ('quick', 'thorough')}
TRUSTED = ['the MiniPy semantics (Model/MiniPy.lean: value semantics, no aliasing) and the code translator (harness/translate_py.py), validated on every run by executing the translated program next to the real code (counters translated_*)',
           ]
ASSUMPTIONS = ['CPython list/dict semantics']


# areas of the pure core whose TRANSLATION (Generated/PyCore.lean) is run next to the real code in this check
TRANSLATED_AREAS = ('auction',)

def cases(ctx):
    return ac.gen_cases(ctx, 500 if ctx.quick else 1500, 0)
