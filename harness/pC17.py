"""C17 — board-settings files are read back as the boards that were written, in order (JSON and PBN)."""
import io
import random

import common
import json_common as J
import pbn_common as B
import pC12
from common import Case

TITLE = 'Board-settings files are read back as the boards that were written, in order'
LEAN_TARGETS = ['BridgeVerif.Props.C17', 'BridgeVerif.Translated.JsonWriter', 'BridgeVerif.Translated.JsonParser', 'BridgeVerif.Translated.JsonRoundTrip', 'BridgeVerif.Lemmas.RegexPbn', 'BridgeVerif.Translated.PbnParserClosed', 'BridgeVerif.Translated.PbnParserWide', 'BridgeVerif.Translated.PbnSettings', 'BridgeVerif.Translated.PbnPct', 'BridgeVerif.Lemmas.RegexHands', 'BridgeVerif.Translated.HandsPbnClosed', 'BridgeVerif.Props.Regex']
AUDIT_PROPS = ['C17', 'Translated.JsonWriter', 'Translated.JsonParser', 'Translated.JsonRoundTrip', 'Lemmas.RegexPbn', 'Translated.PbnParser', 'Translated.PbnParserClosed', 'Translated.PbnParserWide', 'Translated.PbnSettings', 'Translated.PbnPct', 'Lemmas.RegexHands', 'Translated.HandsPbn', 'Translated.HandsPbnClosed', 'Regex']
REQUIRED = ['Translated.PbnPct.pctLineOk_ascii', 'Translated.PbnPct.pp_pbn_import_round_trip_translated_ascii',
            'Translated.JsonRoundTrip.jr_settings_round_trip_translated',
            'Lemmas.RegexPbn.pbnRegexFacts', 'Translated.PbnParserClosed.pp_parse_all_closed', 'Translated.PbnParserWide.pp_parse_all_wide_closed', 'Translated.PbnSettings.pp_parse_board_settings_wide_closed', 'Translated.PbnSettings.pp_pbn_import_round_trip_translated', 'Translated.PbnSettings.pp_pbn_import_round_trip_translated_universal', 'Translated.PbnParser.pp_parse_all_translated', 'Regex.pbn_patterns_are_the_translated_constants',
            'Translated.JsonWriter.jw_settings_document_translated', 'Translated.JsonParser.jp_parse_board_settings_translated_same', 'Translated.JsonParser.jp_parse_board_settings_translated_partial',
            'settings_round_trip', 'settings_document_is_json', 'settings_validate', 'pbn_import_round_trip',
            'pbn_import_round_trip_universal', 'pbn_lines_of_text', 'first_occurrence_wins', 'old_reader_defects']
KEEP_FIRST = 1
SHARDS = {'quick': 2, 'thorough': 16}
RULE = ('JSON: documents of 0-6 boards written by the real JsonBoardSettingWriter (Unicode ids, partial deals, double-dummy tables '
        'in any key order) — text as JSON token stream, parse_board_settings result, published schema verdict. PBN: admissible '
        'import layouts RENDERED BY THE LEAN SPECIFICATION and independently by the harness (texts compared): 0-5 boards, deal '
        'from any first seat, tags in random order with optional inner spaces and trailing blanks, extra tags, later duplicates '
        'of the required tags, table rows, % header lines, LF / CRLF, 0-3 blank lines before, 1-3 between, 0-3 after the games, '
        'every accepted vulnerability spelling, ids over printable ASCII (+ non-ASCII letters) without quote incl. leading / '
        'trailing / double spaces; read through io.StringIO and through a real file opened in text mode. Plus a text soup with '
        'comments, stray quotes and brackets for the reader model. Independent oracle: parse_board_settings == the generated '
        'boards. distinct = distinct op lines.')
TRUSTED = ['the MiniPy semantics (Model/MiniPy.lean: value semantics, no aliasing) and the code translator (harness/translate_py.py), validated on every run by executing the translated program next to the real code (counters translated_*)',
           're (TAG_PATTERN, REPLACE_PATTERN, _VALUE_OR_SPACE_PATTERN): the hand-written scanners of Model/Pbn.lean are PROVED equal, on every subject string, to the generic regex engine of Model/Regex.lean on the pattern texts of the source (Lemmas/RegexPbn.lean, Props/Regex.lean), and the translated parser is proved equal to the reader model (Translated/PbnParser*.lean); what remains assumed is that this engine is CPython\'s re on the subset (differential-tested on every C19 run, and here on the generated files)',
           'text-mode line iteration = split after LF (io.StringIO) / universal newlines then split (open())',
           'as C12 for the JSON half']
ASSUMPTIONS = ['tag values contain no double quote, no line end and no comment opener ("; " or "{ "); table rows moreover no "[" '
               'and are not blank; a fresh PbnParser per file', 'hands are complete (13 cards) or unknown ("-")']
REQUIRED_COUNTERS = {t: ['layouts', 'layout_lf', 'layout_crlf', 'header_lines', 'leading_blank_lines', 'multiple_blank_lines',
                         'trailing_blank_lines', 'duplicate_tags', 'table_rows', 'value_with_double_space', 'deal_not_first',
                         'settings_documents', 'settings_with_dda', 'soup_texts']
                     for t in ('quick', 'thorough')}


# areas of the pure core whose TRANSLATION (Generated/PyCore.lean) is run next to the real code in this check
TRANSLATED_AREAS = ('json',)

def prepare(workdir):
    return pC12.prepare(workdir)


CORRESPONDENCE_ONLY_OPS = ('J.stext', 'B.ftext', 'B.fadm', 'B.fparse', 'B.parse', 'B.settings')


def impl_exec(ops):
    """J.* (stateful, settings and log documents) and B.* ops"""
    if ops and all(o.startswith('J.') for o in ops):
        return pC12.impl_exec(ops)
    return B.impl_exec(ops)


def canon(op, line):
    return pC12.canon(op, line)


def cases(ctx):
    rng = ctx.rng
    # ---- JSON board settings
    for i in range(40 if ctx.quick else 400):
        n = 0 if i == 0 else rng.choice([1, 1, 2, 3, 6])
        ctx.count('settings_documents')
        yield Case(['J.begin'] + [J.gen_sentry_op(rng, ctx) for _ in range(n)] + ['J.stext', 'J.sread', 'J.svalid'],
                   {'kind': 'json-settings'})
    # ---- PBN import layouts
    for i in range(120 if ctx.quick else 1500):
        ops, boards = B.gen_layout_ops(rng, ctx, nboards=0 if i == 0 else None)
        ctx.count('layouts')
        yield Case(ops + ['B.fadm', 'B.ftext', 'B.fparse s', 'B.fsettings s', 'B.fparse f', 'B.fsettings f'], {'kind': 'pbn-layout'})
    # ---- reader model on a text soup (comments, stray quotes …)
    ops = []
    for i in range(300 if ctx.quick else 5000):
        t = B.rand_soup(rng)
        ctx.count('soup_texts')
        ops += [f'B.parse {J.hx(t)} s', f'B.settings {J.hx(t)} {rng.choice("sf")}']
        if len(ops) >= 40:
            yield Case(ops, {'kind': 'pbn-soup'})
            ops = []
    if ops:
        yield Case(ops, {'kind': 'pbn-soup'})


def extra_checks(ctx):
    """independent oracle: what the real parsers return for a rendered file is the generated boards"""
    rng = random.Random(f'C17-oracle/{ctx.seed}/{ctx.shard}')
    fails = []
    pbn_texts = []
    for i in range(60 if ctx.quick else 600):
        ops, boards = B.gen_layout_ops(rng, ctx=None)
        ctx.count('_cases')
        ctx.count('_evals', 2)
        ctx.count('oracle_layouts')
        lay_out = B.impl_exec(ops + ['B.fadm', 'B.fsettings s', 'B.fsettings f'])
        pbn_texts.append(B.unhx(B.impl_exec(ops + ['B.ftext'])[-1]))
        want = B.expected_settings_line(boards)
        if lay_out[-3] != '1':
            raise common.Infra('layout generator produced an inadmissible layout: ' + repr(ops)[:400])
        for mode, got in (('s', lay_out[-2]), ('f', lay_out[-1])):
            if got != want:
                fails.append({'key': 'pbn-import-readback', 'kind': 'counterexample',
                              'ops': ops + ['B.fadm', 'B.ftext', f'B.fsettings {mode}'],
                              'diff': {'mode': mode, 'got': got[:600], 'want': want[:600]}})
                break
    # the TRANSLATED PBN parser (Generated/PyCorePbn.lean: extract_content, parse_board, the generator parse_stream, parse_all,
    # parse_board_settings) reads these import files — and PBN-ish soup with comments, stray quotes and brackets — as the real
    # parser does (same games, same boards, same exception class)
    import pbn_translated as PT
    soup = [B.rand_soup(rng) for _ in range(40 if ctx.quick else 400)]
    tdiffs, nrun = PT.check(common.REPO, common.ModelDriver(), pbn_texts[:40 if ctx.quick else 300] + soup)
    ctx.count('translated_pbn_parser_runs', nrun)
    for d in tdiffs[:4]:
        fails.append({'key': 'translated-pbn-parser', 'kind': 'broken-correspondence', 'ops': [], 'diff': d})
    # JSON settings: what was written is what is read
    e = J.env()
    for i in range(40 if ctx.quick else 300):
        n = rng.choice([0, 1, 2, 4])
        sops = [J.gen_sentry_op(rng) for _ in range(n)]
        entries = [J.SEntry(o.split(' ')) for o in sops]
        ctx.count('_cases')
        ctx.count('oracle_settings_documents')
        text = J.settings_text(entries)
        try:
            got = e['JsonParser']().parse_board_settings(io.StringIO(text))
            ok = len(got) == len(entries) and all(
                g.board_id == en.board_id and g.dealer is en.dealer and g.vul is en.vul and g.hands == J.hands_obj(en.hands)
                and g.dda == en.dda and (g.dda is None or all(isinstance(k, e['Player']) and all(isinstance(s, e['Suit']) for s in r)
                                                              for k, r in g.dda.items()))
                for g, en in zip(got, entries))
        except Exception as ex:
            ok = False
        if not ok:
            fails.append({'key': 'json-settings-readback', 'kind': 'counterexample', 'ops': ['J.begin'] + sops + ['J.stext', 'J.sread'],
                          'diff': 'parse_board_settings(written) differs from the boards written'})
    # a write that RAISES (a double-dummy table json cannot serialise) writes no board: the boards written before and after it
    # are still read back, in order
    for i in range(15 if ctx.quick else 150):
        n = rng.choice([1, 2, 3])
        sops = [J.gen_sentry_op(rng) for _ in range(n)]
        entries = [J.SEntry(o.split(' ')) for o in sops]
        k = rng.randrange(n + 1)
        ctx.count('_cases')
        ctx.count('oracle_refused_writes')
        buf = io.StringIO()
        raised = False

        def bad(w):
            nonlocal raised
            try:
                w.write(board_id='unserialisable', dealer=entries[0].dealer, deal=J.hands_obj(entries[0].hands), vul=entries[0].vul,
                        dda={e['Player'].N: {e['Suit'].C: {1, 2}}})
            except Exception:
                raised = True
        try:
            with e['JsonBoardSettingWriter'](buf) as w:
                for j, en in enumerate(entries):
                    if j == k:
                        bad(w)
                    en.write(w)
                if k == n:
                    bad(w)
            got = e['JsonParser']().parse_board_settings(io.StringIO(buf.getvalue()))
            ok = (not raised) or (len(got) == len(entries) and all(
                g.board_id == en.board_id and g.dealer is en.dealer and g.vul is en.vul and g.hands == J.hands_obj(en.hands)
                and g.dda == en.dda for g, en in zip(got, entries)))
        except Exception as ex:
            ok = False
        if not ok:
            fails.append({'key': 'json-settings-after-refused-write', 'kind': 'counterexample', 'ops': ['J.begin'] + sops,
                          'diff': {'refused_write_before_entry': k, 'text': buf.getvalue()[-300:]}})
    return fails


def classify(ops, exp, got):
    for o, a, b in zip(ops, exp, got):
        if a != b:
            return 'diff:' + o.split(' ', 1)[0]
    return 'diff'
