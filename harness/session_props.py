"""Campaigns over scheduled sessions of the real Server, shared by C08 / C09 / C10 (and used by C11, C13, C20).

A campaign = scenarios (boards + the four players' decisions) x scheduling policies.  Every run is executed on the
unmodified threaded server under the deterministic scheduler (sched.py) and compared with the Lean session model
(session_check.compare); each property keeps the differences that concern it."""
import json
import os
import random
import re

import common
import sched as S
import session
import session_check as SC
from session import SEATS, FORMAL

THREADS = (['main'] + [f'seat:client-{p}' for p in SEATS] + [f'client-{p}' for p in SEATS])
CANON_ORDER = (['main'] + [f'seat:client-{p}' for p in SEATS] + [f'client-{p}' for p in SEATS])


# ------------------------------------------------------------------ policies
def make_policy(desc):
    """desc is a JSON-able description; returns a fresh policy object"""
    k = desc['kind']
    if k == 'random':
        return S.RandomPolicy(random.Random(desc['seed']))
    if k == 'pct':
        return S.PCTPolicy(random.Random(desc['seed']), depth=desc.get('depth', 3), horizon=desc.get('horizon', 4000))
    if k == 'lowest':
        return S.LowestFirstPolicy(desc.get('order', CANON_ORDER))
    if k == 'stall':
        return S.StallPolicy(make_policy(desc['base']), desc['victim'], desc['start'], desc['length'])
    if k == 'stall_after':
        return S.StallAfterPolicy(make_policy(desc['base']), desc['victim'], desc['op'], desc['k'], desc['length'])
    if k == 'replay':
        return S.ReplayPolicy(desc['schedule'], then=S.LowestFirstPolicy(CANON_ORDER))
    raise ValueError(k)


def random_policy_desc(rng, steps_hint=1500):
    d = _random_policy_desc(rng, steps_hint)
    if rng.random() < 0.35:
        # the network may deliver one sendall in two segments (e.g. CR now, LF later): session.run_session(segment=…)
        d['segment'] = rng.randrange(1 << 30)
    return d


def _random_policy_desc(rng, steps_hint=1500):
    r = rng.random()
    if r < 0.3:
        return {'kind': 'random', 'seed': rng.randrange(1 << 30)}
    if r < 0.5:
        return {'kind': 'pct', 'seed': rng.randrange(1 << 30), 'depth': rng.randrange(1, 6), 'horizon': steps_hint}
    if r < 0.58:
        order = list(CANON_ORDER)
        rng.shuffle(order)
        return {'kind': 'lowest', 'order': order}
    base = {'kind': 'random', 'seed': rng.randrange(1 << 30)} if rng.random() < 0.7 else {'kind': 'lowest', 'order': CANON_ORDER}
    if r < 0.85:
        return {'kind': 'stall', 'base': base, 'victim': rng.choice(THREADS), 'start': rng.randrange(0, steps_hint),
                'length': rng.choice([50, 400, 3000, 10 ** 7])}
    victim = rng.choice(THREADS)
    op = rng.choice(['arrive', 'depart', 'put', 'get', 'send', 'recv'])
    return {'kind': 'stall_after', 'base': base, 'victim': victim, 'op': op, 'k': rng.randrange(1, 40),
            'length': rng.choice([50, 400, 3000, 10 ** 7])}


# ------------------------------------------------------------------ message classification (C10)
_SEATN = {'north': 'N', 'east': 'E', 'south': 'S', 'west': 'W'}
_RANKS = '23456789TJQKA'


def _cards_of(text):
    m = re.fullmatch(r'S (.*)\. H (.*)\. D (.*)\. C (.*)\.\s?', text, re.I)
    if not m:
        return None
    out = set()
    for g, su in zip(m.groups(), (3, 2, 1, 0)):
        for tok in g.split(' '):
            if tok in ('-', ''):
                continue
            t = tok.upper()
            if t == '10':
                t = 'T'
            if len(t) != 1 or t not in _RANKS:
                return None
            out.add(su * 13 + _RANKS.index(t))
    return tuple(sorted(out))


def classify(msg):
    """protocol event of one server->client message (text)"""
    low = msg.lower().strip()
    m = re.fullmatch(r'teams : n/s : "(.*)".? e/w : "(.*)"', msg, re.I)
    if m:
        return ('teams', m.group(1), m.group(2))
    if re.fullmatch(r'start\s+of\s+board\.?', low):
        return ('start',)
    if re.fullmatch(r'end\s+of\s+session\.?', low):
        return ('end',)
    m = re.fullmatch(r'board number (\d+)\. dealer (\w+)\. (.*) vulnerable\.', msg, re.I)
    if m:
        return ('header', int(m.group(1)), _SEATN.get(m.group(2).lower(), m.group(2)), m.group(3).lower())
    m = re.fullmatch(r"(\w+)'s cards : (.*)", msg, re.I)
    if m:
        cards = _cards_of(m.group(2))
        who = m.group(1).lower()
        if cards is not None:
            return ('dummy', cards) if who == 'dummy' else ('cards', _SEATN.get(who, who), cards)
    m = re.fullmatch(r'(\w+) bids (\d)(c|d|h|s|nt)', msg, re.I)
    if m and m.group(1).lower() in _SEATN:
        return ('call', _SEATN[m.group(1).lower()], (int(m.group(2)) - 1) * 5 + ['c', 'd', 'h', 's', 'nt'].index(m.group(3).lower()))
    m = re.fullmatch(r'(\w+) (passes|doubles|redoubles)', msg, re.I)
    if m and m.group(1).lower() in _SEATN:
        return ('call', _SEATN[m.group(1).lower()], {'passes': 35, 'doubles': 36, 'redoubles': 37}[m.group(2).lower()])
    m = re.fullmatch(r'(\w+) plays (\w)(\w)', msg, re.I)
    if m and m.group(1).lower() in _SEATN:
        a, b = m.group(2).upper(), m.group(3).upper()
        if a in 'SHDC' and b in _RANKS:
            return ('card', _SEATN[m.group(1).lower()], 'CDHS'.index(a) * 13 + _RANKS.index(b))
        if b in 'SHDC' and a in _RANKS:
            return ('card', _SEATN[m.group(1).lower()], 'CDHS'.index(b) * 13 + _RANKS.index(a))
    m = re.fullmatch(r'(\w+) to lead\.?', msg, re.I)
    if m:
        who = m.group(1).lower()
        return ('lead', 'dummy' if who == 'dummy' else _SEATN.get(who, who))
    return ('other', msg)


def hex_to_text(h):
    if h == '-' or h == '':
        return ''
    if h.startswith('TRAILING:'):
        return '<unterminated>' + bytes.fromhex(h[9:]).decode('utf-8', 'replace')
    return bytes.fromhex(h).decode('utf-8', 'replace')


def stream_events(hex_msgs):
    return [classify(hex_to_text(h)) for h in hex_msgs]


# ------------------------------------------------------------------ one run, compared
def run_and_compare(driver, sc, pdesc, workdir, want, model=None, max_steps=400000):
    """want: set of {'completion', 'log', 'streams', 'ops'}.  returns (diffs, result, model)"""
    r = session.run_session(sc, make_policy(pdesc), workdir, max_steps=max_steps, segment=pdesc.get('segment'))
    # status WATCHDOG = a thread that was given the processor did not reach its next synchronisation step (nor its end)
    # within the watchdog time: it spins or blocks in the code under test — reported as a failure to complete
    if model is None:
        model = SC.model_session(driver, sc)
    diffs = []
    if r.status != 'DONE':
        diffs.append({'what': 'completion', 'status': r.status, 'blocked': r.deadlock, 'steps': r.steps})
        return diffs, r, model
    raw = SC.compare(sc, r, model, want_streams=False, want_ops='ops' in want, want_log='log' in want, driver=driver)
    for d in raw:
        w = d['what']
        if w in ('exception', 'unfinished-threads', 'client-did-not-see-end-of-session', 'log-not-parseable'):
            if 'completion' in want or w == 'log-not-parseable' and 'log' in want:
                diffs.append(d)
        elif w in ('log-record', 'score_type'):
            if 'log' in want:
                diffs.append(d)
        elif w == 'thread-ops':
            if 'ops' in want:
                diffs.append(d)
    if 'completion' in want:
        if model['X.run'].split()[2:] != ['alldone=1', 'chans_empty=1', 'hist_ok=1']:
            diffs.append({'what': 'model-canonical-run', 'got': model['X.run']})
        try:
            doc = json.loads(r.log_text)
            if len(doc['logs']) != len(sc['boards']):
                diffs.append({'what': 'boards-played', 'logged': len(doc['logs']), 'configured': len(sc['boards'])})
        except Exception as e:
            diffs.append({'what': 'log-not-closed', 'error': repr(e)})
    if 'streams' in want:
        by_client = {c[0]: c for c in r.conns}
        for p in SEATS:
            c = by_client.get(f'client-{p}')
            got = SC.stream_messages(c[1]) if c else []
            exp = model[f'X.stream {p}'].split(',') if model[f'X.stream {p}'] else []
            ge, ee = stream_events(got[1:]), stream_events(exp)
            if ge != ee:
                i = next((i for i, (a, b) in enumerate(zip(ge, ee)) if a != b), min(len(ge), len(ee)))
                diffs.append({'what': 'seat-stream', 'seat': p, 'index': i,
                              'impl': list(ge[i]) if i < len(ge) else None, 'model': list(ee[i]) if i < len(ee) else None,
                              'impl_text': hex_to_text(got[1 + i]) if i + 1 < len(got) else None,
                              'n_impl': len(ge), 'n_model': len(ee)})
    return diffs, r, model


def kind_of(d):
    # a difference in the internal operation sequences is a broken correspondence, not by itself a violation
    return 'broken-correspondence' if d['what'] in ('thread-ops', 'model-canonical-run') else 'counterexample'


def scenario_kinds(rng, n):
    return [rng.choice([None, None, None, 'passout', 'short', 'zero', 'all13'] + (['mirror', 'mirror'] if i else [])) for i in range(n)]


def campaign(ctx, want, n_sessions, boards_choices=(1, 1, 2, 2, 3), policies_per_scenario=2, fixed_first=True,
             independent_log=False):
    """returns failures (dicts with key/scenario/policy/schedule/diffs); fills ctx counters"""
    driver = common.ModelDriver()
    rng = ctx.rng
    fails = []
    done = 0
    idx = 0
    while done < n_sessions:
        nb = rng.choice(boards_choices)
        sc = session.gen_scenario(rng, nb, fancy=True, kinds=scenario_kinds(rng, nb))
        if fixed_first and idx == 0 and ctx.shard == 0:
            sc = session.gen_scenario(random.Random(12345), 2, fancy=True, kinds=['passout', None])
        if fixed_first and idx == 0 and ctx.shard == 1 % max(1, ctx.nshards):
            # a played board on which declarer's side wins NO trick, then a passed-out one, then all thirteen tricks
            sc = session.gen_scenario(random.Random(f'extremes/{ctx.seed}'), 3, fancy=True, kinds=['zero', 'passout', 'all13'])
        if fixed_first and idx == 1 and ctx.shard == 0:
            # the same contract and the same tricks declared first by one side, then by the other, one side vulnerable
            sc = session.gen_scenario(random.Random(f'mirror/{ctx.seed}'), 2, fancy=True, kinds=[None, 'mirror'])
        idx += 1
        model = None
        logs = []
        steps_hint = 700 * nb
        for j in range(policies_per_scenario):
            pdesc = ({'kind': 'lowest', 'order': CANON_ORDER} if (j == 0 and idx % 4 == 1)
                     else random_policy_desc(rng, steps_hint))
            diffs, r, model = run_and_compare(driver, sc, pdesc, ctx.workdir, want, model)
            steps_hint = max(r.steps, 200)
            done += 1
            ctx.count('_cases')
            ctx.count('_evals', r.steps)
            ctx.count('sessions')
            ctx.count('boards', nb)
            ctx.count('policy_' + pdesc['kind'])
            ctx.count('sched_steps', r.steps)
            for b in sc['boards']:
                if not b['plays']:
                    ctx.count('passed_out_boards')
                ctx.count('boards_kind_' + str(b.get('kind')))
                if any('lert' in t.lower() for _, t in b['calls']):
                    ctx.count('boards_with_alert')
            ctx.distinct.add(hash((json.dumps(sc, sort_keys=True), json.dumps(pdesc, sort_keys=True))))
            if r.status == 'DONE':
                logs.append(r.log_text)
            for d in diffs:
                fails.append({'key': f'{d["what"]}', 'kind': kind_of(d), 'scenario': sc, 'policy': pdesc,
                              'schedule': r.schedule, 'diff': d, 'status': r.status})
            if done >= n_sessions:
                break
            if len(fails) > 6 or any(f.get('status') == 'WATCHDOG' for f in fails):
                return fails             # enough to report; a stuck thread costs the whole watchdog time per session
        if independent_log and len(set(logs)) > 1:
            fails.append({'key': 'log-depends-on-schedule', 'kind': 'counterexample', 'scenario': sc,
                          'policy': 'several', 'diff': {'what': 'log-depends-on-schedule', 'n_distinct': len(set(logs))}})
    return fails


def stall_sweep(ctx, want, sc, stride, length=10 ** 7, base=None, victims=THREADS):
    """stall every victim at every `stride`-th yield point of the session (sharded)"""
    driver = common.ModelDriver()
    base = base or {'kind': 'lowest', 'order': CANON_ORDER}
    diffs, r0, model = run_and_compare(driver, sc, base, ctx.workdir, want)
    fails = [{'key': d['what'], 'kind': kind_of(d), 'scenario': sc, 'policy': base, 'schedule': r0.schedule,
              'diff': d} for d in diffs]
    total = r0.steps
    jobs = [(v, s) for v in victims for s in range(0, total + stride, stride)]
    jobs = jobs[ctx.shard::ctx.nshards]
    for v, s in jobs:
        pdesc = {'kind': 'stall', 'base': base, 'victim': v, 'start': s, 'length': length}
        diffs, r, model = run_and_compare(driver, sc, pdesc, ctx.workdir, want, model)
        ctx.count('_cases')
        ctx.count('_evals', r.steps)
        ctx.count('stall_sweep_sessions')
        ctx.count('sched_steps', r.steps)
        ctx.distinct.add(hash((json.dumps(sc, sort_keys=True), v, s)))
        for d in diffs:
            fails.append({'key': d['what'], 'kind': kind_of(d), 'scenario': sc, 'policy': pdesc,
                          'schedule': r.schedule, 'diff': d})
    return fails


def replay(record, want):
    """re-run a recorded failing session exactly (scenario + schedule)"""
    driver = common.ModelDriver()
    sc = record['scenario']
    workdir = os.path.join(common.VERIF, '.work')
    os.makedirs(workdir, exist_ok=True)
    if record.get('schedule'):
        pdesc = {'kind': 'replay', 'schedule': record['schedule']}
        if isinstance(record.get('policy'), dict) and record['policy'].get('segment') is not None:
            pdesc['segment'] = record['policy']['segment']
    else:
        pdesc = record['policy']
    try:
        diffs, r, model = run_and_compare(driver, sc, pdesc, workdir, want)
    except RuntimeError as e:
        print(f'recorded schedule does not apply to this tree ({e}); re-running with the recorded policy instead')
        S.end_run()
        diffs, r, model = run_and_compare(driver, sc, record['policy'], workdir, want)
    print(f'replayed {len(r.schedule)} steps, status {r.status}')
    for d in diffs:
        print('DIFF', json.dumps(d, default=str)[:1500])
    return 1 if diffs else 0
