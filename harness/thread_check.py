"""The TRANSLATED thread code next to the real threads.

`desugar_threads.py` re-writes `PlayerThread`, `Server`, `Client` and the framing methods of `MessageInterface` into
sequential code over an explicit world object; `translate_py.py` turns that into the MiniPy program
`Generated/PyCoreThreads.lean`.  For one scheduled run of the REAL server and clients (a `session.Result`) this module

  1. reconstructs, for every thread, the values the world handed it (what main queued for the seat thread, what the client
     sent, what the seat threads forwarded to main, what the server sent the client, the seat table as it was, the
     decisions the bundled systems took),
  2. runs the desugared Python on them and requires the REAL thread's operation sequence (queue / socket / barrier / event /
     thread operations, texts included) and, for main, the very log file,
  3. runs the translated MiniPy program (compiled driver, ops `Y.meth`) on the same inputs and requires the same outcome and
     the same list of operations, value by value.

(2) validates the desugaring pass against the source, (3) the translator + interpreter against CPython; together they tie
`Generated/PyCoreThreads.lean` — what the theorems of Translated/Threads*.lean are about — to the code.
"""
import io
import os
import re

import py_common as PC

SEATS = ['N', 'E', 'S', 'W']
_CACHE = {}


def load_desugared(repo):
    """the desugared module, executed: {class name: class}"""
    import desugar_threads
    src = desugar_threads.desugar(repo)
    key = hash(src)
    if key in _CACHE:
        return _CACHE[key]
    import bridge_env
    from bridge_env import Bid, BiddingPhase, BiddingPhaseState, Card, Contract, Hands, Pair, Player, Suit, Vul
    from bridge_env.playing_phase import ObservedPlayingPhase, PlayingPhaseWithHands
    from bridge_env.network_bridge.server import PlayerThread, Server
    from bridge_env.network_bridge.client import Client
    from bridge_env.network_bridge.socket_interface import MessageInterface
    from bridge_env.data_handler.pbn_handler.writer import Scoring
    from bridge_env.score import calc_score
    ns = dict(Bid=Bid, BiddingPhase=BiddingPhase, BiddingPhaseState=BiddingPhaseState, Card=Card, Contract=Contract,
              Hands=Hands, Pair=Pair, Player=Player, Suit=Suit, Vul=Vul, ObservedPlayingPhase=ObservedPlayingPhase,
              PlayingPhaseWithHands=PlayingPhaseWithHands, PlayerThread=PlayerThread, Server=Server, Client=Client,
              MessageInterface=MessageInterface, Scoring=Scoring, calc_score=calc_score, re=re, copy=__import__('copy'))
    exec(compile(src, '<desugared threads>', 'exec'), ns)
    _CACHE[key] = ns
    return ns


# ------------------------------------------------------------------ values for the driver
def enc_in(v):
    """a python value as an INPUT of the translated program (`Hands` and the record classes as instances)"""
    import dataclasses
    if type(v).__name__ == 'Hands':
        return 'oHands{' + ''.join(f'{k}={PC.enc(getattr(v, k))}' for k in ('north', 'east', 'south', 'west')) + '}'
    if dataclasses.is_dataclass(v) and not isinstance(v, type):
        return 'o' + type(v).__name__ + '{' + ''.join(f'{f.name}={enc_in(getattr(v, f.name))}' for f in dataclasses.fields(v)) + '}'
    if isinstance(v, (list, tuple)) and not hasattr(v, '_fields'):
        return 't(' + ''.join(enc_in(x) for x in v) + ')'
    if isinstance(v, dict):
        return 'd[' + ''.join(enc_in(k) + enc_in(x) for k, x in v.items()) + ']'
    return PC.enc(v)


def world_code(ins, table, tables, eof=False):
    return ('o_World{ins=' + enc_in(ins) + 'out=t()' + 'table=' + enc_in(table) + 'tables=' + enc_in(tables) +
            'eof=' + PC.enc(eof) + '}')


# ------------------------------------------------------------------ what the real threads did, in one vocabulary
def body(b):
    return b[:-2].decode('utf-8') if b.endswith(b'\r\n') else b.decode('utf-8', 'replace') + '<no CRLF>'


def real_tokens(ops, qmap):
    out = []
    # `Thread.start()` itself waits on the new thread's private `_started` event: not an operation of the code under test.
    # The events of the code are those somebody clears or sets explicitly (event_thread).
    own_events = {o for (k, o, p) in ops if k in ('clear', 'set')}
    for (k, o, p) in ops:
        if k == 'wait' and o not in own_events:
            continue
        if k == 'put':
            ch = qmap.get(o)
            if ch:
                out.append(('put', ch[:3], ch[3], p))
        elif k == 'get':
            ch = qmap.get(o)
            if ch:
                out.append(('get', ch[:3], ch[3]))
        elif k == 'arrive':
            out.append(('sync',))
        elif k == 'send':
            out.append(('send', body(p)))
        elif k == 'recv':
            out.append(('recv',))
        elif k in ('close', 'accept', 'start', 'join', 'connect'):
            out.append((k,))
        elif k in ('set', 'wait', 'clear'):
            out.append(('event_' + k,))
    return out


def world_tokens(out):
    toks = []
    for op in out:
        k = op[0]
        if k == 'put':
            toks.append(('put', op[1], op[2].name, op[3]))
        elif k == 'get':
            toks.append(('get', op[1], op[2].name))
        elif k in ('sync', 'recv', 'event_wait'):
            toks.append((k,))
        elif k == 'send':
            toks.append(('send', op[1]))
        elif k in ('close', 'accept', 'start', 'join', 'connect', 'event_set', 'event_clear'):
            toks.append((k,))
        # sleep / is_alive / bind / listen / new_thread / table / emit / bid / play: not recorded on the real side
    return toks


def messages(b):
    parts = bytes(b).split(b'\r\n')
    parts.pop()
    return [p.decode('utf-8') for p in parts]


def first_diff(a, b):
    for i, (x, y) in enumerate(zip(a, b)):
        if x != y:
            return i
    return None if len(a) == len(b) else min(len(a), len(b))


# ------------------------------------------------------------------ running one thread both ways
def run_py(ns, cls, ctor, method, world):
    """-> (outcome, world.out)  outcome = ('ok', value) | ('exc', class name)"""
    obj = ns[cls](world, *ctor)
    try:
        v = getattr(obj, method)()
        return ('ok', v), obj._w.out
    except Exception as e:             # noqa: BLE001 — the class of the exception is the observation
        return ('exc', type(e).__name__), obj._w.out


def lean_line(cls, fields, method, world):
    return f'Y.meth {cls} {method} o{cls}{{_w={world}' + ''.join(f'{k}={enc_in(v)}' for k, v in fields) + '}'


def compare_lean(line, outcome, out, what):
    """the driver's answer to Y.meth vs the desugared Python's outcome and operations"""
    parts = line.split(' ')
    if outcome[0] == 'exc':
        if parts[0] != 'exc' or parts[1] != outcome[1]:
            return {'what': 'translated-thread', 'thread': what, 'python': f'raises {outcome[1]}', 'minipy': line[:200]}
        return None
    if parts[0] != 'ok':
        return {'what': 'translated-thread', 'thread': what, 'python': 'returns', 'minipy': line[:300]}
    try:
        ret, selfv = PC.parse(parts[1]), PC.parse(parts[2])
    except Exception as e:            # noqa: BLE001
        return {'what': 'translated-thread', 'thread': what, 'minipy': f'unparsable answer: {e!r}'}
    r = PC.same(outcome[1], ret)
    if r:
        return {'what': 'translated-thread', 'thread': what, 'result': r}
    if selfv[0] != 'o' or '_w' not in selfv[2] or selfv[2]['_w'][0] != 'o':
        return {'what': 'translated-thread', 'thread': what, 'minipy': 'no world in the final object'}
    r = PC.same(list(out), selfv[2]['_w'][2]['out'])
    if r:
        return {'what': 'translated-thread', 'thread': what, 'operations': r}
    return None


# ------------------------------------------------------------------ one session
def admission_order(r):
    """[(client label, request line, seated?)] in accept order"""
    by_client = {c[0]: c for c in r.conns}
    order = [p for (k, o, p) in r.ops.get('main', []) if k == 'accept']
    out = []
    for lab in order:
        c = by_client.get(lab)
        if c is None:
            continue
        c2s, s2c = messages(c[2]), messages(c[1])
        out.append((lab, c2s[0] if c2s else None, bool(s2c) and s2c[0].endswith(' seated')))
    return out


def check_session(repo, r, driver, bundled=False, boards=None):
    """differences between the real threads of run `r` and the translated thread programs (list of dicts)"""
    from bridge_env import Player
    from bridge_env.network_bridge.server import PlayerThread
    from bridge_env.network_bridge.socket_interface import MessageInterface
    try:
        ns = load_desugared(repo)
    except Exception as e:            # noqa: BLE001 — the thread code left the subset the desugaring pass covers
        return [{'what': 'desugared-thread', 'thread': '(all)', 'error': f'{type(e).__name__}: {e}'[:300]}], 0
    World = ns['_World']
    diffs = []
    lines, expect = [], []
    inv = {v: k for k, v in r.qmap.items()}
    by_client = {c[0]: c for c in r.conns}
    adm = admission_order(r)
    # the seat table after each verdict
    table = {p: None for p in Player}
    snapshots = []
    before = {}
    for lab, req, seated in adm:
        before[lab] = dict(table)
        if seated and req is not None:
            try:
                team, pl, _ = PlayerThread.parse_connection_info(req)
                table[pl] = team
            except Exception:        # noqa: BLE001
                pass
        snapshots.append(dict(table))
    final = dict(table)

    # ---- seat (connection) threads: every accepted connection, seated or refused
    for lab, req, seated in adm:
        conn = by_client.get(lab)
        ops = r.ops.get('seat:' + lab)
        if conn is None or ops is None or req is None:
            continue
        try:
            _team, pl, _v = PlayerThread.parse_connection_info(req)
        except Exception:        # noqa: BLE001 — a request that does not parse kills the real thread too; not compared
            continue
        p = pl.name
        # what main queued for that seat reaches THIS thread only if it was seated
        q = [x for (k, o, x) in r.ops.get('main', []) if k == 'put' and o == inv.get('m2t' + p)] if seated else []
        ins = {('m2t', pl): list(q), 'conn': messages(conn[2])}
        w = World(dict((k, list(v)) for k, v in ins.items()), dict(before[lab]), [dict(final)], False)
        outcome, out = run_py(ns, 'SeatThread', (), 'run', w)
        got, exp = world_tokens(out), real_tokens(ops, r.qmap)
        i = first_diff(got, exp)
        if i is not None or outcome[0] != 'ok':
            diffs.append({'what': 'desugared-thread', 'thread': 'seat:' + lab, 'index': i, 'outcome': str(outcome)[:120],
                          'desugared': got[i] if i is not None and i < len(got) else None,
                          'real': exp[i] if i is not None and i < len(exp) else None, 'n_desugared': len(got), 'n_real': len(exp)})
            continue
        lines.append(lean_line('SeatThread', [], 'run', world_code(ins, before[lab], [final])))
        expect.append((outcome, out, 'seat:' + lab))

    # ---- main
    main_ops = r.ops.get('main', [])
    if boards is not None and main_ops:
        ins = {('t2m', Player[p]): [pl for lab_, _, sd in adm if sd for (k, o, pl) in r.ops.get('seat:' + lab_, [])
                                    if k == 'put' and o == inv.get('t2m' + p)] for p in SEATS}
        joined = [o for (k, o, pl) in main_ops if k == 'join']
        ins['accept'] = [(lab, None) for lab, _, _ in adm]
        ins['new_thread'] = ['seat:' + lab for lab, _, _ in adm]
        ins['is_alive'] = [('seat:' + lab) in joined for lab, _, _ in adm]
        w = World(dict((k, list(v)) for k, v in ins.items()), {}, [dict(s) for s in snapshots] + [dict(final)], False)
        obj = ns['MainThread'](w, boards)
        try:
            obj.run()
            outcome = ('ok', None)
        except Exception as e:        # noqa: BLE001
            outcome = ('exc', type(e).__name__)
        out = obj._w.out
        got, exp = world_tokens(out), real_tokens(main_ops, r.qmap)
        i = first_diff(got, exp)
        if i is not None or outcome[0] != 'ok':
            diffs.append({'what': 'desugared-thread', 'thread': 'main', 'index': i, 'outcome': str(outcome)[:120],
                          'desugared': got[i] if i is not None and i < len(got) else None,
                          'real': exp[i] if i is not None and i < len(exp) else None, 'n_desugared': len(got), 'n_real': len(exp)})
        else:
            # the records it hands to the log writer, written by the REAL writer, are the real log file
            from bridge_env.data_handler.json_handler.writer import JsonLogWriter
            buf = io.StringIO()
            with JsonLogWriter(buf) as wtr:
                for op in out:
                    if op[0] == 'emit' and op[1] == 'write':
                        wtr.write(**op[2])
            emits = [op[1] for op in out if op[0] == 'emit']
            if emits[:1] != ['open'] or emits[-1:] != ['close'] or any(e != 'write' for e in emits[1:-1]):
                diffs.append({'what': 'desugared-thread', 'thread': 'main', 'log-operations': emits[:8]})
            elif buf.getvalue() != r.log_text:
                diffs.append({'what': 'desugared-thread', 'thread': 'main', 'log': 'records handed to the writer differ from the log file'})
            else:
                lines.append(lean_line('MainThread', [('board_settings', boards)], 'run',
                                       world_code(ins, {}, snapshots + [final])))
                expect.append((outcome, out, 'main'))

    # ---- bundled clients
    if bundled:
        for p in [x for x in SEATS if bundled is True or x in bundled]:
            lab = f'client-{p}'
            conn = by_client.get(lab)
            ops = r.ops.get(lab)
            if conn is None or ops is None:
                continue
            sent = messages(conn[2])
            req = sent[0] if sent else ''
            try:
                team, pl, _ = PlayerThread.parse_connection_info(req)
            except Exception:        # noqa: BLE001
                continue
            bids, plays = [], []
            for m in sent:
                if re.match(r'\S+ (bids|passes|doubles|redoubles)', m, re.IGNORECASE):
                    bids.append(MessageInterface.parse_bid(m, pl.formal_name))
                elif ' plays ' in m:
                    who = Player.convert_formal_name(m.split(' ')[0].capitalize())
                    plays.append(MessageInterface.parse_card(m, who))
            ins = {'conn': messages(conn[1]), 'bid': bids, 'play': plays}
            w = World(dict((k, list(v)) for k, v in ins.items()), {}, [], False)
            obj = ns['ClientThread'](w, pl, team)
            try:
                obj.run()
                outcome = ('ok', None)
            except Exception as e:    # noqa: BLE001
                outcome = ('exc', type(e).__name__)
            out = obj._w.out
            got, exp = world_tokens(out), real_tokens(ops, r.qmap)
            if exp[-1:] == [('close',)]:
                exp.pop()                # `SocketInterface.__exit__` of the `with Client(..)` around run(): not part of run()
            i = first_diff(got, exp)
            if i is not None or outcome[0] != 'ok':
                diffs.append({'what': 'desugared-thread', 'thread': 'client' + p, 'index': i, 'outcome': str(outcome)[:120],
                              'desugared': got[i] if i is not None and i < len(got) else None,
                              'real': exp[i] if i is not None and i < len(exp) else None,
                              'n_desugared': len(got), 'n_real': len(exp)})
                continue
            lines.append(lean_line('ClientThread', [('player', pl), ('team_name', team), ('opponent_team_name', None)],
                                   'run', world_code(ins, {}, [])))
            expect.append((outcome, out, 'client' + p))

    if lines and driver is not None:
        answers = driver.run(lines)
        for line, (outcome, out, what) in zip(answers, expect):
            d = compare_lean(line, outcome, out, what)
            if d:
                diffs.append(d)
    return diffs, len(lines)


# ------------------------------------------------------------------ framing (C19): byte streams, EOF, damaged terminators
def check_framing(repo, driver, cases):
    """cases: [(list of 1-character strings still to arrive, eof?, how many messages to read)] -> differences"""
    from bridge_env.network_bridge.socket_interface import MessageInterface
    try:
        ns = load_desugared(repo)
    except Exception as e:            # noqa: BLE001
        return [{'what': 'desugared-framing', 'error': f'{type(e).__name__}: {e}'[:300]}]
    World = ns['_World']
    diffs, lines, expect = [], [], []
    for chars, eof, n in cases:
        class Sock:
            def __init__(self, data):
                self.data = [bytes([b]) for b in ''.join(data).encode('utf-8')]      # the text's UTF-8 bytes, one per recv(1)

            def recv(self, k):
                if not self.data:
                    if eof:
                        return b''
                    raise BlockingIOError()
                return self.data.pop(0)
        # the real method on a real (fake) socket, the desugared one on the world; `n` messages or the first exception
        real, des = [], []
        mi = MessageInterface(Sock(chars))
        fr = ns['Framing'](World({'bytes': list(chars)}, {}, [], eof))
        for side, f in ((real, mi.receive_message), (des, fr.receive_message)):
            for _ in range(n):
                try:
                    side.append(('ok', f()))
                except BlockingIOError:
                    side.append(('exc', 'Blocked'))
                    break
                except Exception as e:     # noqa: BLE001
                    side.append(('exc', type(e).__name__))
                    break
        if real != des:
            diffs.append({'what': 'desugared-framing', 'input': ''.join(chars)[:80], 'real': real[:4], 'desugared': des[:4]})
            continue
        # the translated method, message by message (all streams in ONE batch of the driver)
        w = world_code({'bytes': list(chars)}, {}, [], eof)
        reg = f'fr{len(expect)}'
        lines.append([f'Y.let {reg} oFraming{{_w={w}}}'] + [f'Y.methr {reg} Framing receive_message'] * n)
        expect.append((real, ''.join(chars)))
    flat = [l for batch in lines for l in batch]
    answers = driver.run(flat) if flat else []
    k = 0
    for batch, (real, text) in zip(lines, expect):
        ans = answers[k + 1:k + len(batch)]
        k += len(batch)
        got = []
        for a in ans:
            parts = a.split(' ')
            if parts[0] == 'ok':
                node = PC.parse(parts[1])
                got.append(('ok', node[1] if node[0] == 's' else node))
            else:
                got.append(('exc', parts[1] if len(parts) > 1 else a))
                break
        if got != real:
            diffs.append({'what': 'translated-framing', 'input': text[:80], 'real': real[:4], 'minipy': got[:4]})
    return diffs
