"""Shared by C12 / C13 / C17: entry generators for the JSON writers, the Python side of the `J.*` driver ops
(real JsonLogWriter / JsonBoardSettingWriter / JsonParser), a strict JSON tokenizer, the jsonschema oracle."""
import io
import json
import os
import re
import subprocess
import sys

import common

SEATS = ['N', 'E', 'S', 'W']
SUITS = ['C', 'D', 'H', 'S', 'NT']
RANKS = '23456789TJQKA'
SCORINGS = ['MP', 'MatchPoints', 'IMP', 'Cavendish', 'Chicago', 'Rubber', 'BAM', 'Instant']
VULS = ['None', 'NS', 'EW', 'Both']


def hx(s):
    return s.encode('utf-8').hex() if s else '-'


def unhx(h):
    return '' if h == '-' else bytes.fromhex(h).decode('utf-8')


def cs(cards):
    return ','.join(str(c) for c in sorted(cards)) if cards else '-'


# ------------------------------------------------------------------ strict JSON tokenizer
_TOK = re.compile(r'''[ \t\n\r]*(?:(?P<p>[\[\]{},:])|(?P<s>"(?:[^"\\\x00-\x1f]|\\["\\/bfnrt]|\\u[0-9a-fA-F]{4})*")|'''
                  r'''(?P<n>-?(?:0|[1-9][0-9]*)(?:\.[0-9]+)?(?:[eE][-+]?[0-9]+)?)|(?P<l>true|false|null))''')


def tokens(text):
    """token list of a JSON text (strings decoded), or None if it is not a sequence of JSON tokens.
    Only JSON white space is skipped, so equal token lists + one side valid JSON => the other side valid JSON."""
    out, i, n = [], 0, len(text)
    while True:
        m = _TOK.match(text, i)
        if not m:
            break
        i = m.end()
        if m.group('p'):
            out.append(m.group('p'))
        elif m.group('s') is not None:
            try:
                out.append('s' + json.loads(m.group('s')))
            except ValueError:
                return None
        elif m.group('n') is not None:
            out.append('n' + m.group('n'))
        else:
            out.append('l' + m.group('l'))
    if text[i:].strip(' \t\n\r'):
        return None
    return out


def canon_text(hex_or_err):
    """canonical form of a document text given as hex: its token stream (hex of a JSON dump of the token list)"""
    if hex_or_err in ('ERR', 'bad-op') or hex_or_err.startswith('EXC'):
        return hex_or_err
    try:
        t = tokens(unhx(hex_or_err))
    except (ValueError, UnicodeDecodeError):
        return 'UNDECODABLE'
    if t is None:
        return 'NOT-JSON-TOKENS:' + hex_or_err[:80]
    return 'T' + json.dumps(t, ensure_ascii=True)


# ------------------------------------------------------------------ implementation side
def _env():
    from bridge_env import Bid, Card, Contract, Hands, Pair, Player, Suit, TrickHistory, Vul
    from bridge_env.data_handler.json_handler.writer import JsonLogWriter, JsonBoardSettingWriter
    from bridge_env.data_handler.json_handler.parser import JsonParser
    from bridge_env.data_handler.pbn_handler.writer import Scoring
    from bridge_env.playing_phase import PlayingHistory
    return locals()


E = None


def env():
    global E
    if E is None:
        E = _env()
    return E


def card_obj(i):
    return env()['Card'].int_to_card(i)


def call_obj(i):
    return env()['Bid'].int_to_bid(i)


def hands_obj(hs):
    H = env()['Hands']
    return H(*[{card_obj(c) for c in h} for h in hs])


def cards_arg(s):
    return [] if s == '-' else [int(x) for x in s.split(',')]


def dda_arg(s):
    """'-' | 'N:C=3,D=4;E:..' -> None | ordered dict of dicts keyed by Player / Suit"""
    if s == '-':
        return None
    e = env()
    out = {}
    for row in s.split(';'):
        p, cols = row.split(':')
        out[e['Player'][p]] = {e['Suit'][kv.split('=')[0]]: int(kv.split('=')[1]) for kv in cols.split(',')}
    return out


class Entry:
    """arguments of JsonLogWriter.write as Python values, built from a `J.entry` op line"""

    def __init__(self, t):
        e = env()
        (_, id_, n, ea, s, w, dealer, hn, he, hs, hw, sc, calls, bid, x, xx, vul, decl, play, tricks, ns, ew, dda) = t
        self.board_id = unhx(id_)
        self.names = {'N': unhx(n), 'E': unhx(ea), 'S': unhx(s), 'W': unhx(w)}
        self.dealer = e['Player'][dealer]
        self.hands = [cards_arg(h) for h in (hn, he, hs, hw)]
        self.scoring = e['Scoring'](sc)
        self.calls = [call_obj(int(c)) for c in calls.split(',')] if calls != '-' else []
        fb = None if bid == '-' else (e['Bid'].Pass if bid == 'P' else call_obj(int(bid)))
        self.vul = e['Vul'].str_to_vul(vul)
        self.contract = e['Contract'](fb, x == '1', xx == '1', self.vul, None if decl == '-' else e['Player'][decl])
        if play == 'null':
            self.play = None
        else:
            ph = e['PlayingHistory'](self.contract)
            if play != '-':
                for k, tr in enumerate(play.split(';')):
                    l, cs_ = tr.split(':')
                    ph.record(k + 1, e['TrickHistory'](e['Player'][l], tuple(card_obj(c) for c in cards_arg(cs_))))
            self.play = ph
        self.tricks = None if tricks == 'null' else int(tricks)
        self.scores = {e['Pair'].NS: int(ns), e['Pair'].EW: int(ew)}
        self.dda = dda_arg(dda)

    def write(self, w):
        w.write(board_id=self.board_id, west_player=self.names['W'], north_player=self.names['N'],
                east_player=self.names['E'], south_player=self.names['S'], dealer=self.dealer,
                deal=hands_obj(self.hands), scoring=self.scoring, bid_history=self.calls, contract=self.contract,
                play_history=self.play, taken_trick_num=self.tricks, scores=self.scores, dda=self.dda)


class SEntry:
    def __init__(self, t):
        e = env()
        (_, id_, dealer, hn, he, hs, hw, vul, dda) = t
        self.board_id = unhx(id_)
        self.dealer = e['Player'][dealer]
        self.hands = [cards_arg(h) for h in (hn, he, hs, hw)]
        self.vul = e['Vul'].str_to_vul(vul)
        self.dda = dda_arg(dda)

    def write(self, w):
        w.write(board_id=self.board_id, dealer=self.dealer, deal=hands_obj(self.hands), vul=self.vul, dda=self.dda)


def log_text(entries, close=True, upto=None):
    e = env()
    buf = io.StringIO()
    w = e['JsonLogWriter'](buf)
    w.open()
    for en in entries[:upto]:
        en.write(w)
    if close:
        w.close()
    return buf.getvalue()


def settings_text(entries):
    e = env()
    buf = io.StringIO()
    with e['JsonBoardSettingWriter'](buf) as w:
        for en in entries:
            en.write(w)
    return buf.getvalue()


# ---- canonical lines of what the parser returns (same format as Driver/Json.lean)
def _typed(v, cls, show):
    return show(v) if isinstance(v, cls) else f'{type(v).__name__}:{v!r}'


def show_hands_bar(h):
    e = env()
    P = e['Player']
    return '|'.join(cs([int(c) for c in h[p]]) for p in (P.N, P.E, P.S, P.W))


def show_dda(d):
    e = env()
    if d is None:
        return '-'
    rows = []
    for p, cols in d.items():
        rows.append(_typed(p, e['Player'], str) + ':' + ','.join(
            f'{_typed(s, e["Suit"], str)}={v if type(v) is int else repr(v)}' for s, v in cols.items()))
    return ';'.join(rows)


def show_contract(c):
    e = env()
    dbl = 'XX' if c.xx else ('X' if c.x else '-')
    decl = '-' if c.declarer is None else _typed(c.declarer, e['Player'], str)
    if c.is_passed_out():
        return f'PO:{c.vul}:{decl}'
    return f'{c.final_bid.idx}:{dbl}:{c.vul}:{decl}'


def show_setting(b):
    e = env()
    if not isinstance(b.board_id, str):
        return f'id-not-str:{b.board_id!r}'
    return (f'id={hx(b.board_id)} dealer={_typed(b.dealer, e["Player"], str)} vul={_typed(b.vul, e["Vul"], str)} '
            f'deal={show_hands_bar(b.hands)} dda={show_dda(b.dda)}')


def show_log(b):
    e = env()
    P, Bid, Card, Pair = e['Player'], e['Bid'], e['Card'], e['Pair']
    decl = '-' if b.declarer is None else _typed(b.declarer, P, str)
    tricks = 'null' if b.taken_trick is None else (str(b.taken_trick) if type(b.taken_trick) is int else repr(b.taken_trick))
    players = 'none' if b.players is None else ','.join(f'{_typed(p, P, str)}:{hx(n)}' for p, n in b.players.items())
    if b.bid_history is None:
        bids = 'none'
    else:
        bids = ','.join(_typed(x, Bid, lambda y: str(y.idx)) for x in b.bid_history) or '-'
    if b.play_history is None:
        play = 'none'
    else:
        play = ';'.join(_typed(t.leader, P, str) + ':' + ','.join(_typed(c, Card, lambda y: str(int(y))) for c in t.cards)
                        for t in b.play_history) or '-'
    stype = 'none' if b.score_type is None else (hx(b.score_type) if isinstance(b.score_type, str) else repr(b.score_type))
    scores = 'none' if b.scores is None else ','.join(
        f'{_typed(k, Pair, str)}:{v if type(v) is int else repr(v)}' for k, v in b.scores.items())
    return (f'id={hx(b.board_id)} dealer={_typed(b.dealer, P, str)} vul={b.vul} deal={show_hands_bar(b.hands)} '
            f'decl={decl} contract={show_contract(b.contract)} tricks={tricks} players={players} bids={bids} '
            f'play={play} dda={show_dda(b.dda)} stype={stype} scores={scores}')


def show_many(f, l):
    return ' ## '.join(f(x) for x in l) if l else 'EMPTY'


def read_logs(text):
    e = env()
    try:
        return show_many(show_log, e['JsonParser']().parse_board_logs(io.StringIO(text)))
    except Exception:
        return 'ERR'


def read_settings(text):
    e = env()
    try:
        return show_many(show_setting, e['JsonParser']().parse_board_settings(io.StringIO(text)))
    except Exception:
        return 'ERR'


def py_loads_line(text):
    """json.loads on the modelled domain: re-dumped (hex) or ERR; 'OUT' when outside the modelled domain"""
    def in_domain(v):
        if isinstance(v, float):
            return False
        if isinstance(v, str):
            return not any(0xd800 <= ord(ch) <= 0xdfff for ch in v)
        if isinstance(v, list):
            return all(in_domain(x) for x in v)
        if isinstance(v, dict):
            return all(in_domain(k) and in_domain(x) for k, x in v.items())
        return True
    try:
        v = json.loads(text, parse_constant=lambda c: float('nan'))
    except ValueError:
        return 'ERR'
    except RecursionError:
        return 'ERR'
    if not in_domain(v):
        return 'ERR'      # floats and lone surrogates: the model's reader answers none there by design
    return hx(json.dumps(v))


# ------------------------------------------------------------------ the jsonschema oracle (Draft 7, python3-vt)
_ORACLE = r'''
import json, sys, os
import jsonschema
d = sys.argv[1]
def load(n):
    return json.load(open(os.path.join(d, n)))
store = {}
for n in ('log_format.schema.json', 'board_setting_format.schema.json'):
    s = load(n)
    store[n] = s
    store['file://' + os.path.join(d, n)] = s
def validator(n):
    s = store[n]
    res = jsonschema.RefResolver(base_uri='file://' + d + '/', referrer=s, store=store)
    return jsonschema.Draft7Validator(s, resolver=res)
V = {'log': validator('log_format.schema.json'), 'setting': validator('board_setting_format.schema.json')}
for line in sys.stdin:
    kind, hx = line.split()
    try:
        doc = json.loads(bytes.fromhex(hx).decode('utf-8')) if hx != '-' else None
    except ValueError:
        print('NOJSON'); continue
    errs = sorted(V[kind].iter_errors(doc), key=lambda e: list(e.absolute_path))
    print('1' if not errs else '0 ' + ' | '.join(f"{'/'.join(map(str, e.absolute_path))}: {e.message[:80]}" for e in errs[:3]))
'''


def jsonschema_oracle(items):
    """items: list of (kind, text) -> list of verdict lines ('1' | '0 <errors>' | 'NOJSON'); None if the oracle is unavailable"""
    d = os.path.join(common.REPO, 'bridge_env', 'data_handler', 'json_handler')
    data = ''.join(f'{k} {hx(t)}\n' for k, t in items)
    try:
        p = subprocess.run(['python3-vt', '-c', _ORACLE, d], input=data, stdout=subprocess.PIPE,
                           stderr=subprocess.PIPE, text=True, timeout=600,
                           env={k: v for k, v in os.environ.items() if k != 'PYTHONPATH'})
    except (OSError, subprocess.TimeoutExpired):
        return None
    if p.returncode != 0:
        return None
    out = p.stdout.split('\n')
    if out and out[-1] == '':
        out.pop()
    return out if len(out) == len(items) else None


# ------------------------------------------------------------------ generators
def rand_text(rng, kind=None):
    k = kind if kind is not None else rng.random()
    if k < 0.45:
        return ''.join(rng.choice('abcXYZ019 _-') for _ in range(rng.randrange(0, 9)))
    if k < 0.6:
        return rng.choice(['', ' ', '"', '\\', '\\"', 'a"b', '\\u0041', '\n', '\r\n', '\t', '\x00', '\x1f', '\x7f',
                           '/', '</script>', 'null', '{}', '[', ']}', ',\n', 'é', ' ', '﻿', '￿',
                           '\U0001f600', '\U00010000', '\U0010ffff', 'é\U0001f600"\\\n'])
    alphabet = ['"', '\\', '/', '\b', '\f', '\n', '\r', '\t', '\x01', '\x7f', '\x80', 'ÿ', 'Ā', '€',
                '퟿', '', '�', '\U00010000', '\U0001f0a1', '\U0010fffe', 'a', 'Z', '0', ' ', '{', '}',
                '[', ']', ':', ',', "'", 'u', 'n']
    return ''.join(rng.choice(alphabet) for _ in range(rng.randrange(1, 12)))


def rand_deal(rng, partial_ok=True):
    deck = list(range(52))
    rng.shuffle(deck)
    hands = [deck[i * 13:(i + 1) * 13] for i in range(4)]
    if partial_ok and rng.random() < 0.12:
        for i in rng.sample(range(4), rng.randrange(1, 5)):
            hands[i] = hands[i][:rng.choice([0, 0, 1, 5, 12])]
    return hands


def rand_dda(rng):
    r = rng.random()
    if r < 0.45:
        return '-'
    seats = list(SEATS)
    if r > 0.8:
        rng.shuffle(seats)
        seats = seats[:rng.randrange(0, 5)] if rng.random() < 0.5 else seats
    if not seats:
        return '-'   # an empty table is written as {} ; the driver syntax has no notation for it, so skip it
    rows = []
    for p in seats:
        suits = list(SUITS)
        if rng.random() < 0.3:
            rng.shuffle(suits)
        rows.append(f'{p}:' + ','.join(f'{s}={rng.choice([0, 1, 6, 7, 12, 13, rng.randrange(0, 14), -1, 10 ** 20])}' for s in suits))
    return ';'.join(rows)


def gen_entry_op(rng, ctx=None, consistent=None):
    """a `J.entry` line.  Well-formed for the property: a contract that is not passed out has a declarer, a passed-out
    one has none."""
    from play_common import law_winner
    cnt = ctx.count if ctx else (lambda *a: None)
    idt = rand_text(rng)
    names = [rand_text(rng) for _ in range(4)]
    dealer = rng.choice(SEATS)
    hands = rand_deal(rng)
    sc = rng.choice(SCORINGS)
    vul = rng.choice(VULS)
    passed = rng.random() < 0.25
    if passed:
        bid = rng.choice(['-', 'P'])
        x = xx = '0'
        decl = '-'
        calls = ['35'] * 4 if rng.random() < 0.8 else [str(rng.randrange(38)) for _ in range(rng.randrange(0, 6))]
        play = 'null' if rng.random() < 0.85 else '-'
        tricks = 'null' if rng.random() < 0.85 else str(rng.randrange(0, 14))
        ns, ew = (0, 0) if rng.random() < 0.8 else (rng.randrange(-500, 500), rng.randrange(-500, 500))
        cnt('passed_out_entries')
    else:
        b = rng.randrange(35)
        bid = str(b)
        r = rng.random()
        x, xx = ('0', '0') if r < 0.5 else (('1', '0') if r < 0.75 else (('1', '1') if r < 0.93 else ('0', '1')))
        if (x, xx) == ('0', '1'):
            cnt('xx_without_x_flag')
        decl = rng.choice(SEATS)
        calls = [str(rng.randrange(38)) for _ in range(rng.randrange(0, 30))]
        # play history: 0..13 tricks of 4 cards each (occasionally other sizes), leaders arbitrary or by the law
        ntr = rng.choice([13, 13, 13, 0, 1, 5, 12])
        allc = [c for h in rand_deal(rng, partial_ok=False) for c in h]
        rng.shuffle(allc)
        trs = []
        for k in range(ntr):
            size = 4 if rng.random() < 0.95 else rng.choice([0, 1, 3, 5])
            trs.append(f'{rng.choice(SEATS)}:{",".join(str(c) for c in allc[4 * k:4 * k + size]) or "-"}')
        if any(t.endswith(':-') for t in trs):
            trs = [t for t in trs if not t.endswith(':-')]
        play = ';'.join(trs) if trs else '-'
        if rng.random() < 0.05:
            play = 'null'
        tricks = str(rng.choice([rng.randrange(0, 14), 0, 13])) if rng.random() < 0.95 else 'null'
        s = rng.choice([0, 50, -50, 420, -1400, 7600, -7600, rng.randrange(-3000, 3000) * 10, 10 ** 25])
        ns, ew = (s, -s) if rng.random() < 0.9 else (s, rng.randrange(-100, 100))
        cnt('played_entries')
    dda = rand_dda(rng)
    if dda != '-':
        cnt('entries_with_dda')
    if any(ord(ch) > 0xffff for t in [idt] + names for ch in t):
        cnt('astral_text')
    if any(ord(ch) < 0x20 or ch in '"\\' for t in [idt] + names for ch in t):
        cnt('escaped_text')
    return ' '.join(['J.entry', hx(idt)] + [hx(n) for n in names] + [dealer] + [cs(h) for h in hands] +
                    [sc, ','.join(calls) or '-', bid, x, xx, vul, decl, play, tricks, str(ns), str(ew), dda])


def gen_sentry_op(rng, ctx=None):
    cnt = ctx.count if ctx else (lambda *a: None)
    dda = rand_dda(rng)
    if dda != '-':
        cnt('settings_with_dda')
    return ' '.join(['J.sentry', hx(rand_text(rng)), rng.choice(SEATS)] + [cs(h) for h in rand_deal(rng)] +
                    [rng.choice(VULS), dda])


def rand_json_text(rng, depth=0):
    """a JSON-ish text: mostly valid, with white space, escapes and duplicate keys; sometimes damaged"""
    def val(d):
        r = rng.random()
        if d > 3 or r < 0.3:
            k = rng.randrange(6)
            if k == 0:
                return rng.choice(['null', 'true', 'false'])
            if k == 1:
                return str(rng.choice([0, -0, 1, -1, 7, 10, 123456789012345678901234567890, -42]))
            if k == 2:
                return rng.choice(['-0', '0', '12', '-7'])
            s = rand_text(rng)
            if rng.random() < 0.5:
                return json.dumps(s)
            return json.dumps(s, ensure_ascii=False)
        ws = lambda: rng.choice(['', '', ' ', '\n', '\t', '\r\n ', '  '])
        if r < 0.65:
            n = rng.randrange(0, 4)
            return '[' + ws() + (',' + ws()).join(val(d + 1) + ws() for _ in range(n)) + ']'
        n = rng.randrange(0, 4)
        keys = [rng.choice(['a', 'b', 'logs', 'a', rand_text(rng)]) for _ in range(n)]
        return '{' + ws() + (',' + ws()).join(json.dumps(k) + ws() + ':' + ws() + val(d + 1) + ws() for k in keys) + '}'
    t = rng.choice(['', ' ', '\n']) + val(0) + rng.choice(['', ' ', '\n'])
    r = rng.random()
    if r < 0.25 and t:
        i = rng.randrange(len(t))
        k = rng.randrange(5)
        if k == 0:
            t = t[:i] + t[i + 1:]
        elif k == 1:
            t = t[:i] + rng.choice(',:]}"\\x01 ') + t[i:]
        elif k == 2:
            t = t[:i]
        elif k == 3:
            t = t + rng.choice([',', ']', 'x', '1', '{}'])
        else:
            t = t.replace('"', "'", 1)
    elif r < 0.35:
        t = rng.choice(['01', '1.5', '1e3', '-', '+1', 'NaN', 'Infinity', '-Infinity', '"\\x"', '"\\u12"', '"\\ud800"',
                        '"\\ud800\\u0041"', '"\\udc00"', '"\\ud83d\\ude00"', '"\x7f"', '"\t"', 'nul', 'True', '[1,]',
                        '{"a":1,}', '{,}', '[,]', '{"a" 1}', '{1:2}', '﻿[]', '[] []', '"\\/"', '"\\u00e9\\u0000"',
                        '[[[[[[[[[[[[[[[[[[[[[[[[[[[[[[]]]]]]]]]]]]]]]]]]]]]]]]]]]]]]', '\x0c[]', '[\x0b]', ' []'])
    return t
