"""The TRANSLATED program (Generated/PyCore.lean, run by the MiniPy interpreter through driver ops `Y.*`) next to the real
functions: value encoding, comparison, and a stepper for the two state machines.

    enc(v)          python value -> the driver's prefix code (see Driver/PyCore.lean)
    parse(text)     the driver's code -> a tree
    same(v, tree)   the python value and the tree denote the same value (sets compared as sets, attributes by name)
    outcome(fn)     run a python callable -> ('ok', value) | ('exc', 'ValueError')
"""
import dataclasses
import enum

_np = None


def _numpy():
    global _np
    if _np is None:
        import numpy
        _np = numpy
    return _np


def hexs(s):
    return s.encode('utf-8').hex()


def demangle(k):
    # _BiddingPhase__dealer -> __dealer
    if k.startswith('_') and '__' in k[1:]:
        i = k.index('__', 1)
        head = k[1:i]
        if head and not head.startswith('_') and head[0].isupper():
            return k[i:]
    return k


def fields_of(v):
    if dataclasses.is_dataclass(v):
        return [(f.name, getattr(v, f.name)) for f in dataclasses.fields(v)]
    return [(demangle(k), x) for k, x in vars(v).items()]


def enc(v):
    np = _numpy()
    if v is None:
        return 'N'
    if v is True or (isinstance(v, np.bool_) and bool(v)):
        return 'T'
    if v is False or isinstance(v, np.bool_):
        return 'F'
    if isinstance(v, enum.Enum):
        if isinstance(v.value, str):
            # an Enum with string values is translated as constant instances with `value` and `name`
            return 'o' + type(v).__name__ + '{value=' + enc(v.value) + 'name=' + enc(v.name) + '}'
        return f'e{type(v).__name__}:{v.value};'
    if isinstance(v, (int, np.integer)):
        return f'i{int(v)};'
    if isinstance(v, (float, np.floating)):
        if float(v) != int(v):
            raise ValueError(f'non-integral float {v!r}')
        return f'i{int(v)};'
    if isinstance(v, str):
        return 's' + hexs(v) + ';'
    if isinstance(v, np.ndarray):
        return 't(' + ''.join(enc(x) for x in v.tolist()) + ')'
    if isinstance(v, tuple) and hasattr(v, '_fields'):
        return 'o' + type(v).__name__ + '{' + ''.join(f'{k}={enc(getattr(v, k))}' for k in v._fields) + '}'
    if isinstance(v, (tuple, list)):
        return 't(' + ''.join(enc(x) for x in v) + ')'
    if isinstance(v, (set, frozenset)):
        return 't(' + ''.join(sorted(enc(x) for x in v)) + ')'
    if isinstance(v, dict):
        return 'd[' + ''.join(enc(k) + enc(x) for k, x in v.items()) + ']'
    if isinstance(v, type):
        return f'c{v.__name__};'
    if type(v).__name__ == 'Hands':
        from bridge_env import Player
        return 'd[' + ''.join(enc(p) + enc(v[p]) for p in Player) + ']'
    if hasattr(v, '__dict__') or dataclasses.is_dataclass(v):
        return 'o' + type(v).__name__ + '{' + ''.join(f'{k}={enc(x)}' for k, x in fields_of(v)) + '}'
    raise ValueError(f'cannot encode {type(v).__name__}')


# ------------------------------------------------------------------ parsing the driver's code
def parse(text):
    node, i = _parse(text, 0)
    if i != len(text):
        raise ValueError(f'trailing text at {i}: {text[i:i + 20]!r}')
    return node


def _until(text, i, stop):
    j = text.index(stop, i)
    return text[i:j], j + 1


def _parse(t, i):
    c = t[i]
    if c == 'T':
        return ('b', True), i + 1
    if c == 'F':
        return ('b', False), i + 1
    if c == 'N':
        return ('n',), i + 1
    if c == 'i':
        a, j = _until(t, i + 1, ';')
        return ('i', int(a)), j
    if c == 's':
        a, j = _until(t, i + 1, ';')
        return ('s', bytes.fromhex(a).decode('utf-8')), j
    if c == 'e':
        a, j = _until(t, i + 1, ';')
        cn, v = a.split(':')
        return ('e', cn, int(v)), j
    if c == 'c':
        a, j = _until(t, i + 1, ';')
        return ('c', a), j
    if c == 't':
        assert t[i + 1] == '('
        i += 2
        items = []
        while t[i] != ')':
            n, i = _parse(t, i)
            items.append(n)
        return ('t', items), i + 1
    if c == 'o':
        cn, i = _until(t, i + 1, '{')
        fs = {}
        while t[i] != '}':
            k, i = _until(t, i, '=')
            n, i = _parse(t, i)
            fs[k] = n
        return ('o', cn, fs), i + 1
    if c == 'd':
        assert t[i + 1] == '['
        i += 2
        items = []
        while t[i] != ']':
            k, i = _parse(t, i)
            v, i = _parse(t, i)
            items.append((k, v))
        return ('d', items), i + 1
    raise ValueError(f'bad code at {i}: {t[i:i + 20]!r}')


def canon(node):
    """canonical text of a tree: attributes sorted by name; dict entries sorted by key"""
    k = node[0]
    if k == 'b':
        return 'T' if node[1] else 'F'
    if k == 'n':
        return 'N'
    if k == 'i':
        return f'i{node[1]};'
    if k == 's':
        return 's' + hexs(node[1]) + ';'
    if k == 'e':
        return f'e{node[1]}:{node[2]};'
    if k == 'c':
        return f'c{node[1]};'
    if k == 't':
        return 't(' + ''.join(canon(x) for x in node[1]) + ')'
    if k == 'o':
        return 'o' + node[1] + '{' + ''.join(f'{f}={canon(x)}' for f, x in sorted(node[2].items())) + '}'
    if k == 'd':
        return 'd[' + ''.join(sorted(canon(a) + canon(b) for a, b in node[1])) + ']'
    raise ValueError(k)


def same(v, node):
    """does the python value `v` equal the model value `node`?  (why not, else None)"""
    np = _numpy()
    k = node[0]
    if isinstance(v, (set, frozenset)):
        if k != 't':
            return f'set vs {k}'
        a = sorted(canon(parse(enc(x))) for x in v)
        b = sorted(canon(x) for x in node[1])
        return None if a == b else f'set {a} vs {b}'
    if type(v).__name__ == 'Hands' and k == 'o':
        # a Hands instance as an instance (result of convert_binary …): its four sets
        if node[1] != 'Hands':
            return f'class Hands vs {node[1]}'
        for f in ('north', 'east', 'south', 'west'):
            if f not in node[2]:
                return f'attribute {f} missing'
            r = same(getattr(v, f), node[2][f])
            if r:
                return f'.{f}: {r}'
        return None
    if isinstance(v, dict) or type(v).__name__ == 'Hands':
        if k != 'd':
            return f'dict vs {k}'
        if type(v).__name__ == 'Hands':
            from bridge_env import Player
            v = {p: v[p] for p in Player}
        if len(v) != len(node[1]):
            return f'dict sizes {len(v)} vs {len(node[1])}'
        m = {canon(a): b for a, b in node[1]}
        for key, x in v.items():
            ck = canon(parse(enc(key)))
            if ck not in m:
                return f'key {ck} missing in the model'
            r = same(x, m[ck])
            if r:
                return f'[{ck}]: {r}'
        return None
    if isinstance(v, tuple) and hasattr(v, '_fields'):
        if k != 'o' or node[1] != type(v).__name__:
            return f'named tuple {type(v).__name__} vs {k}'
        if set(v._fields) != set(node[2]):
            return f'attributes {sorted(v._fields)} vs {sorted(node[2])}'
        for f in v._fields:
            r = same(getattr(v, f), node[2][f])
            if r:
                return f'.{f}: {r}'
        return None
    if isinstance(v, (tuple, list, np.ndarray)):
        if k != 't':
            return f'sequence vs {k}'
        xs = v.tolist() if isinstance(v, np.ndarray) else list(v)
        if len(xs) != len(node[1]):
            return f'lengths {len(xs)} vs {len(node[1])}'
        for i, (x, n) in enumerate(zip(xs, node[1])):
            r = same(x, n)
            if r:
                return f'[{i}]: {r}'
        return None
    if not isinstance(v, (enum.Enum, str, int, float, type, type(None), np.generic)) and (hasattr(v, '__dict__') or dataclasses.is_dataclass(v)):
        if k != 'o':
            return f'object vs {k}'
        if node[1] != type(v).__name__:
            return f'class {type(v).__name__} vs {node[1]}'
        fs = dict(fields_of(v))
        if set(fs) != set(node[2]):
            return f'attributes {sorted(fs)} vs {sorted(node[2])}'
        for f, x in fs.items():
            r = same(x, node[2][f])
            if r:
                return f'.{f}: {r}'
        return None
    try:
        a = canon(parse(enc(v)))
    except ValueError as e:
        return str(e)
    b = canon(node)
    if a == b:
        return None
    # Python: True == 1
    if {a, b} in ({'T', 'i1;'}, {'F', 'i0;'}):
        return None
    return f'{a} vs {b}'


def aliases(root):
    """MiniPy has value semantics: two attribute paths that hold the SAME mutable container (list, set, dict, numpy array,
    mutable instance) would be one object in Python and two values in the translated program.  Returns the first such pair
    of paths in the object graph under `root` (None if every mutable object is reachable along exactly one path)."""
    np = _numpy()
    seen = {}
    stack = [(root, 'self')]
    while stack:
        v, path = stack.pop()
        if v is None or isinstance(v, (str, int, float, bool, enum.Enum, type, np.generic)):
            continue
        if isinstance(v, tuple):
            for i, x in enumerate(v):
                stack.append((x, f'{path}[{i}]'))
            continue
        frozen = dataclasses.is_dataclass(v) and getattr(type(v), '__dataclass_params__', None) is not None \
            and type(v).__dataclass_params__.frozen
        if not frozen:
            if id(v) in seen:
                return seen[id(v)], path
            seen[id(v)] = path
        if isinstance(v, dict):
            for k, x in v.items():
                stack.append((x, f'{path}[{k!s}]'))
        elif isinstance(v, (list, set, frozenset)):
            for i, x in enumerate(v):
                stack.append((x, f'{path}[{i}]' if isinstance(v, list) else f'{path}{{…}}'))
        elif isinstance(v, np.ndarray):
            continue
        elif dataclasses.is_dataclass(v):
            for f in dataclasses.fields(v):
                stack.append((getattr(v, f.name), f'{path}.{f.name}'))
        elif hasattr(v, '__dict__'):
            for k, x in vars(v).items():
                stack.append((x, f'{path}.{demangle(k)}'))
    return None


def outcome(fn):
    try:
        return ('ok', fn())
    except NotImplementedError:
        return ('exc', 'NotImplementedError')
    except Exception as e:  # noqa
        return ('exc', type(e).__name__)


def compare_outcome(out, line, with_self=None):
    """`out` = outcome of the python call; `line` = the driver's answer; `with_self` = the python receiver after the call
    (for Y.meth).  Returns None or a description of the difference."""
    t = line.split(' ')
    if t[0] == 'ok':
        if out[0] != 'ok':
            return f'python raised {out[1]}, translated program returned {t[1]}'
        r = same(out[1], parse(t[1]))
        if r:
            return 'result: ' + r
        if with_self is not None and len(t) > 2:
            r = same(with_self, parse(t[2]))
            if r:
                return 'receiver afterwards: ' + r
        return None
    if t[0] == 'exc':
        if out[0] != 'exc':
            return f'python returned {enc_safe(out[1])}, translated program raised {t[1]}'
        return None if out[1] == t[1] else f'python raised {out[1]}, translated program raised {t[1]}'
    return f'translated program: {line}'


def enc_safe(v):
    try:
        return enc(v)
    except ValueError:
        return repr(v)
