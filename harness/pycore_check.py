"""Translation validation: the TRANSLATED program (Generated/PyCore.lean under the MiniPy interpreter, driver ops Y.*)
next to the real functions and objects of bridge_env, on the inputs of one area of the pure core.

    validate(ctx, areas) -> list of failure dicts (kind 'broken-correspondence', key 'translated:<area>')

A disagreement means the translator or the interpreter misrepresents what the code does (the theorems of
lean/BridgeVerif/Translated/*.lean would then be about something else): it breaks the tie, it is not by itself a
violation of a property.  Areas: score, imps, notation, auction, play.
"""
import itertools
import random

import common
import py_common as PC


class Batch:
    """ops for the driver with, for each, the outcome of the real call (and the receiver afterwards)"""

    def __init__(self):
        self.ops, self.exp, self.info = [], [], []
        self.aliasing = []        # (function, op, (path, path)): one mutable object reachable along two paths

    def fn(self, name, f, *args):
        self.ops.append('Y.fn ' + name + ' ' + ' '.join(PC.enc(a) for a in args))
        self.exp.append((PC.outcome(lambda: f(*args)), None))
        self.info.append(name)

    def meth(self, cls, name, f, selfv, *args):
        self.ops.append(f'Y.meth {cls} {name} ' + ' '.join(PC.enc(a) for a in (selfv,) + args))
        self.exp.append((PC.outcome(lambda: f(selfv, *args)), None))
        self.info.append(f'{cls}.{name}')

    def cmeth(self, clsobj, name, *args):
        self.ops.append(f'Y.meth {clsobj.__name__} {name} ' + ' '.join(PC.enc(a) for a in (clsobj,) + args))
        self.exp.append((PC.outcome(lambda: getattr(clsobj, name)(*args)), None))
        self.info.append(f'{clsobj.__name__}.{name}')

    def newr(self, reg, clsobj, *args):
        """construct on both sides; returns the real object (or None if the constructor raised)"""
        self.ops.append(f'Y.newr {reg} {clsobj.__name__} ' + ' '.join(PC.enc(a) for a in args))
        out = PC.outcome(lambda: clsobj(*args))
        # the constructed object is mutated later: compare a snapshot taken now
        self.exp.append(((out[0], PC.enc(out[1])) if out[0] == 'ok' else out, 'snapshot'))
        self.info.append(f'{clsobj.__name__}()')
        return out[1] if out[0] == 'ok' else None

    def methr(self, reg, clsname, name, obj, f, *args):
        """a method call on the live object and on the register"""
        self.ops.append(f'Y.methr {reg} {clsname} {name} ' + ' '.join(PC.enc(a) for a in args))
        out = PC.outcome(lambda: f(obj, *args))
        res = (out[0], PC.enc(out[1])) if out[0] == 'ok' else out
        self.exp.append((res, ('self', PC.enc(obj))))
        self.info.append(f'{clsname}.{name}')
        al = PC.aliases(obj)
        if al is not None and len(self.aliasing) < 3:
            self.aliasing.append((f'{clsname}.{name}', self.ops[-1][:200], al))
        return out

    def run(self, driver):
        """-> list of (index, op, driver line, why)"""
        lines = driver.run(self.ops) if self.ops else []
        bad = []
        for i, ((out, extra), line) in enumerate(zip(self.exp, lines)):
            why = self.compare(out, extra, line)
            if why:
                bad.append((i, self.ops[i], line, why))
        return bad

    @staticmethod
    def compare(out, extra, line):
        t = line.split(' ')
        if extra is None:
            return PC.compare_outcome(out, line)
        # snapshot forms: `out` = ('ok', encoded text) | ('exc', name)
        if t[0] == 'ok':
            if out[0] != 'ok':
                return f'python raised {out[1]}, translated program returned {t[1][:80]}'
            if PC.canon(PC.parse(out[1])) != PC.canon(PC.parse(t[1])) and not _same_sets(out[1], t[1]):
                return f'result: python {out[1][:200]} / translated {t[1][:200]}'
            if isinstance(extra, tuple) and len(t) > 2:
                if not _same_sets(extra[1], t[2]):
                    return f'receiver afterwards: python {extra[1][:400]} / translated {t[2][:400]}'
            return None
        if t[0] == 'exc':
            if out[0] != 'exc':
                return f'python returned {out[1][:80]}, translated program raised {t[1]}'
            return None if out[1] == t[1] else f'python raised {out[1]}, translated program raised {t[1]}'
        return f'translated program: {line[:200]}'


def _set_canon(node):
    """canonical text where EVERY tuple is compared as a multiset at the positions python holds a set: python-side
    encodings sort set elements; the translated side keeps insertion order — compare sorted forms of all tuples whose
    elements are cards (objects) — tuples of calls / trick cards are ordered and are compared as ordered"""
    k = node[0]
    if k == 't':
        items = [_set_canon(x) for x in node[1]]
        return 't(' + ''.join(items) + ')'
    if k == 'o':
        return 'o' + node[1] + '{' + ''.join(f'{f}={_field_canon(node[1], f, x)}' for f, x in sorted(node[2].items())) + '}'
    if k == 'd':
        return 'd[' + ''.join(sorted(_set_canon(a) + _set_canon(b) for a, b in node[1])) + ']'
    return PC.canon(node)


# attributes that hold python SETS (compared without order)
SET_FIELDS = {('PlayingPhase', 'used_cards'), ('PlayingPhaseWithHands', 'used_cards'), ('ObservedPlayingPhase', 'used_cards'),
              ('ObservedPlayingPhase', '_hand'), ('ObservedPlayingPhase', '_dummy_hand')}


def _field_canon(cls, f, node):
    if (cls, f) in SET_FIELDS and node[0] == 't':
        return 't(' + ''.join(sorted(_set_canon(x) for x in node[1])) + ')'
    if cls == 'PlayingPhaseWithHands' and f == 'hands' and node[0] == 'd':
        return 'd[' + ''.join(sorted(_set_canon(a) + 't(' + ''.join(sorted(_set_canon(x) for x in b[1])) + ')'
                                     for a, b in node[1])) + ']'
    return _set_canon(node)


def _same_sets(a_text, b_text):
    a, b = PC.parse(a_text), PC.parse(b_text)
    if _set_canon(a) == _set_canon(b):
        return True
    # a bare set result (e.g. current_available_cards): compare as multisets
    if a[0] == 't' and b[0] == 't':
        return sorted(_set_canon(x) for x in a[1]) == sorted(_set_canon(x) for x in b[1])
    return False


# ------------------------------------------------------------------ areas
def area_score(ctx, b):
    from bridge_env import Bid, Contract, Player, Vul
    from bridge_env import score as SC
    bids = list(Bid)
    for bid in bids[:35]:
        for x, xx, v in itertools.product([False, True], repeat=3):
            for t in range(14):
                b.fn('calc_bid_score', SC.calc_bid_score, bid, x, xx, v, t)
    for bid in bids[35:]:
        b.fn('calc_bid_score', SC.calc_bid_score, bid, False, False, False, 7)
    cons = [Contract(None, vul=v) for v in Vul] + [Contract(Bid.Pass, vul=Vul.NS, declarer=Player.E)]
    step = 3 if ctx.quick else 1
    for bid in bids[ctx.rng.randrange(step):35:step]:
        for x, xx in [(False, False), (True, False), (True, True), (False, True)]:
            for v in Vul:
                for decl in [None] + list(Player):
                    cons.append(Contract(bid, x, xx, v, decl))
    for c in cons:
        for t in ((0, 6, 7, 13) if ctx.quick else range(14)):
            b.fn('calc_score', SC.calc_score, c, t)
        b.meth('Contract', 'is_vul', lambda s: s.is_vul(), c)
    ctx.count('translated_score_calls', len(b.ops))


def area_imps(ctx, b):
    from bridge_env import score as SC
    rng = ctx.rng
    for d in range(-4200, 4201, 1 if not ctx.quick else 3):
        b.fn('point_difference_to_imps', SC.point_difference_to_imps, d)
    for t in (20, 50, 90, 130, 170, 220, 270, 320, 370, 430, 500, 600, 750, 900, 1100, 1300, 1500, 1750, 2000, 2250, 2500,
              3000, 3500, 4000):
        for d in (t - 1, t, t + 1, -t + 1, -t, -t - 1):
            b.fn('point_difference_to_imps', SC.point_difference_to_imps, d)
    for k in range(0, 40):
        for d in (10 ** k, -10 ** k, 2 ** (3 * k) + 1):
            b.fn('point_difference_to_imps', SC.point_difference_to_imps, d)
    for _ in range(300):
        a, c = rng.randrange(-8000, 8001), rng.randrange(-8000, 8001)
        b.fn('score_to_imp', SC.score_to_imp, a, c)
    ctx.count('translated_imps_calls', len(b.ops))


def area_notation(ctx, b):
    from bridge_env import Bid, Card, Contract, Pair, Player, Suit, Vul
    for p in Player:
        for prop in ['next_player', 'partner', 'left', 'right', 'pair', 'opponent_pair', 'formal_name']:
            b.meth('Player', prop, lambda s, prop=prop: getattr(s, prop), p)
        b.meth('Player', '__str__', lambda s: str(s), p)
        for q in Player:
            b.meth('Player', 'is_partner', lambda s, q: s.is_partner(q), p, q)
        for v in Vul:
            b.meth('Player', 'is_vul', lambda s, v: s.is_vul(v), p, v)
    for s in ['North', 'East', 'South', 'West', 'north', '', 'N']:
        b.cmeth(Player, 'convert_formal_name', s)
    for pr in Pair:
        b.meth('Pair', 'opponent_pair', lambda s: s.opponent_pair, pr)
        b.meth('Pair', '__str__', lambda s: str(s), pr)
        for v in Vul:
            b.meth('Pair', 'is_vul', lambda s, v: s.is_vul(v), pr, v)
    for su in Suit:
        for m in ['is_minor', 'is_major', '__str__']:
            b.meth('Suit', m, lambda s, m=m: getattr(s, m)(), su)
    for bid in Bid:
        for prop in ['idx', 'level', 'suit']:
            b.meth('Bid', prop, lambda s, prop=prop: getattr(s, prop), bid)
        b.meth('Bid', '__str__', lambda s: str(s), bid)
        b.cmeth(Bid, 'str_to_bid', str(bid))
    for i in range(-2, 40):
        b.cmeth(Bid, 'int_to_bid', i)
    for level in range(0, 9):
        for su in Suit:
            b.cmeth(Bid, 'level_suit_to_bid', level, su)
    for s in ['1C', 'Pass', 'X', 'XX', '8C', '1N', 'NT1', '', 'pass', '7NT', '0S', '1NTX', 'XXX']:
        b.cmeth(Bid, 'str_to_bid', s)
    for i in range(-1, 53):
        b.cmeth(Card, 'int_to_card', i)
    for i in range(52):
        c = Card.int_to_card(i)
        b.meth('Card', '__int__', lambda s: int(s), c)
        b.meth('Card', '__str__', lambda s: str(s), c)
        b.cmeth(Card, 'str_to_card', str(c))
        b.cmeth(Card, 'rank_int_to_str', c.rank)
        for j in (0, 13, i, 51, (i * 7) % 52):
            o = Card.int_to_card(j)
            for m in ['__lt__', '__le__', '__gt__', '__ge__']:
                b.meth('Card', m, lambda s, o, m=m: getattr(s, m)(o), c, o)
    for r in range(0, 17):
        b.cmeth(Card, 'rank_int_to_str', r)
        b.newr('tmpcard', Card, r, Suit.S)
    b.newr('tmpcard', Card, 5, Suit.NT)
    for s in ['S1', 'SA', 'NT2', 'XA', 'S', 'ST', 'sa', 'H10', 'CZ', 'DK', 'C2', 'HJ', 'Hj']:
        b.cmeth(Card, 'str_to_card', s)
    for s in ['T', 'J', 'Q', 'K', 'A', '2', '9', '10', 'x', '']:
        b.cmeth(Card, 'rank_str_to_int', s)
    for v in Vul:
        b.meth('Vul', '__str__', lambda s: str(s), v)
        b.meth('Vul', 'pbn_format', lambda s: s.pbn_format(), v)
    for s in ['None', 'Love', '-', 'NS', 'EW', 'All', 'Both', 'NONE', 'BOTH', 'x', '', 'ns']:
        b.cmeth(Vul, 'str_to_vul', s)
    cons = [Contract(None, vul=v) for v in Vul] + [Contract(Bid.Pass, vul=Vul.NS, declarer=Player.E)]
    for bid in list(Bid)[:35]:
        for x, xx in [(False, False), (True, False), (True, True), (False, True)]:
            v = list(Vul)[(bid.value + x + 2 * xx) % 4]
            decl = ([None] + list(Player))[(bid.value * 3 + x) % 5]
            cons.append(Contract(bid, x, xx, v, decl))
    for c in cons:
        for m in ['is_passed_out', 'necessary_tricks', 'str_info', '__str__']:
            b.meth('Contract', m, lambda s, m=m: getattr(s, m)(), c)
        for m in ['level', 'trump']:
            b.meth('Contract', m, lambda s, m=m: getattr(s, m), c)
        b.cmeth(Contract, 'str_to_contract', str(c), c.vul, c.declarer)
    for s in ['Passed_out', '1CX', '7NTXX', 'X', '', '1C', 'PassX']:
        b.cmeth(Contract, 'str_to_contract', s)
    for bad in (Bid.X, Bid.XX):
        b.newr('tmpcon', Contract, bad)
    ctx.count('translated_notation_calls', len(b.ops))


def gen_auction_run(rng, b, tag):
    """one auction on both sides; returns the finished BiddingPhase (or None)"""
    from bridge_env import Bid, Player, Vul
    from bridge_env.bidding_phase import BiddingPhase
    dealer, vul = rng.choice(list(Player)), rng.choice(list(Vul))
    reg = 'a' + tag
    bp = b.newr(reg, BiddingPhase, dealer, vul)
    p_legal = rng.choice([0.5, 0.8, 0.95])
    p_pass = rng.choice([0.3, 0.6])
    for _ in range(rng.choice([8, 30, 70])):
        if rng.random() < p_legal:
            legal = [x for x in Bid if bp.available_bid[x.idx] == 1] if not bp.has_done() else list(Bid)
            c = Bid.Pass if (rng.random() < p_pass or not legal) else rng.choice(legal)
        else:
            c = rng.choice(list(Bid))
        b.methr(reg, 'BiddingPhase', 'take_bid', bp, BiddingPhase.take_bid, c)
        b.methr(reg, 'BiddingPhase', 'has_done', bp, BiddingPhase.has_done)
        b.methr(reg, 'BiddingPhase', 'contract', bp, BiddingPhase.contract)
        if bp.has_done() and rng.random() < 0.6:
            break
    return bp


def area_auction(ctx, b):
    n = 25 if ctx.quick else 250
    n = max(1, n // max(1, ctx.nshards))
    for i in range(n):
        gen_auction_run(ctx.rng, b, str(i))
    ctx.count('translated_auction_runs', n)
    ctx.count('translated_auction_calls', len(b.ops))


def area_play(ctx, b):
    from bridge_env import Card, Hands, Player
    from bridge_env.playing_phase import ObservedPlayingPhase, PlayingPhase, PlayingPhaseWithHands
    rng = ctx.rng
    n = 6 if ctx.quick else 60
    n = max(1, n // max(1, ctx.nshards))
    done = 0
    tries = 0
    while done < n and tries < 50 * n:
        tries += 1
        sub = Batch()
        bp = gen_auction_run(rng, sub, f'p{tries}')
        con = bp.contract()
        if con is None or con.is_passed_out():
            continue
        done += 1
        cards = [Card.int_to_card(i) for i in range(52)]
        rng.shuffle(cards)
        hs = [set(cards[i * 13:(i + 1) * 13]) for i in range(4)]
        hands = Hands(*[set(h) for h in hs])
        rw, ro, rb = f'w{done}', f'o{done}', f'b{done}'
        pp = b.newr(rw, PlayingPhaseWithHands, con, hands)
        seat = rng.choice(list(Player))
        op = b.newr(ro, ObservedPlayingPhase, con, seat, set(hs[seat.value - 1]))
        bare = b.newr(rb, PlayingPhase, con)
        dummy_set = False
        p_good = rng.choice([0.8, 0.95])
        turns = 0
        while not pp.has_done() and turns < 400:
            turns += 1
            pl = pp.active_player
            if rng.random() < p_good:
                src = pp.current_available_cards_in_hand(pl) if rng.random() < 0.9 else pp.hands[pl]
                if not src:
                    break                      # (a changed implementation may leave the seat on turn without cards)
                c = rng.choice(sorted(src, key=int))
                who = pl
            else:
                c = Card.int_to_card(rng.randrange(52))
                who = rng.choice(list(Player))
            b.methr(rw, 'PlayingPhaseWithHands', 'current_available_cards_in_hand', pp,
                    PlayingPhaseWithHands.current_available_cards_in_hand, pl)
            before = len(pp.used_cards)
            b.methr(rw, 'PlayingPhaseWithHands', 'play_card_by_player', pp, PlayingPhaseWithHands.play_card_by_player, c, who)
            if len(pp.used_cards) > before:
                if not dummy_set and len(pp.used_cards) == 1 and rng.random() < 0.9:
                    dh = set(hs[pp.dummy.value - 1]) - ({c} if who is pp.dummy else set())
                    b.methr(ro, 'ObservedPlayingPhase', 'set_dummy_hand', op, ObservedPlayingPhase.set_dummy_hand, dh)
                    dummy_set = True
                b.methr(ro, 'ObservedPlayingPhase', 'play_card_by_player', op, ObservedPlayingPhase.play_card_by_player, c, who)
                b.methr(ro, 'ObservedPlayingPhase', 'current_available_cards_in_hand', op,
                        ObservedPlayingPhase.current_available_cards_in_hand)
                b.methr(ro, 'ObservedPlayingPhase', 'current_available_cards_in_dummy_hand', op,
                        ObservedPlayingPhase.current_available_cards_in_dummy_hand)
                b.methr(rb, 'PlayingPhase', 'play_card_by_player', bare, PlayingPhase.play_card_by_player, c, who)
            elif rng.random() < 0.5:
                # a refused play offered to the observer / the bare state machine too
                b.methr(ro, 'ObservedPlayingPhase', 'play_card_by_player', op, ObservedPlayingPhase.play_card_by_player, c, who)
                b.methr(rb, 'PlayingPhase', 'play_card_by_player', bare, PlayingPhase.play_card_by_player, c, who)
            b.methr(rw, 'PlayingPhaseWithHands', 'has_done', pp, PlayingPhaseWithHands.has_done)
        # static helpers on a few hand / lead pairs
        for _ in range(6):
            hand = set(rng.sample(cards, rng.randrange(1, 14)))
            first = rng.choice([None, rng.choice(cards)])
            b.ops.append('Y.meth PlayingPhase available_cards ' + PC.enc(hand) + ' ' + PC.enc(first))
            out = PC.outcome(lambda: PlayingPhase.available_cards(hand, first))
            b.exp.append(((out[0], PC.enc(out[1])) if out[0] == 'ok' else out, 'snapshot'))
            b.info.append('PlayingPhase.available_cards')
            trick = rng.sample(cards, 4)
            su = rng.choice([c.suit for c in trick] + [__import__('bridge_env').Suit.NT])
            b.ops.append('Y.meth PlayingPhase calc_highest ' + PC.enc(su) + ' ' + PC.enc(trick))
            out = PC.outcome(lambda: PlayingPhase.calc_highest(su, trick))
            b.exp.append(((out[0], PC.enc(out[1])) if out[0] == 'ok' else out, 'snapshot'))
            b.info.append('PlayingPhase.calc_highest')
    ctx.count('translated_play_boards', done)
    ctx.count('translated_play_calls', len(b.ops))


def enc_hands_obj(h):
    """a `Hands` instance as an instance (py_common.enc renders it as the dict the playing phase is given)"""
    return 'oHands{' + ''.join(f'{k}={PC.enc(getattr(h, k))}' for k in ('north', 'east', 'south', 'west')) + '}'


def area_hands(ctx, b):
    from bridge_env import Card, Hands, Player
    rng = ctx.rng
    n = 40 if ctx.quick else 400
    deck = [Card.int_to_card(i) for i in range(52)]

    def add(cls_meth, args_text, fn, with_self=None):
        b.ops.append(f'Y.meth Hands {cls_meth} ' + ' '.join(args_text))
        out = PC.outcome(fn)
        b.exp.append((out, None))
        b.info.append('Hands.' + cls_meth)
    for k in range(n):
        cards = deck[:]
        rng.shuffle(cards)
        hs = [set(cards[i * 13:(i + 1) * 13]) for i in range(4)]
        kind = rng.random()
        if kind < 0.25:
            for i in range(4):
                if rng.random() < 0.4:
                    hs[i] = set()                        # unknown hand
        elif kind < 0.35:
            # long suits and voids: sort the pack by suit before cutting
            cards.sort(key=int)
            rot = rng.randrange(52)
            cards = cards[rot:] + cards[:rot]
            hs = [set(cards[i * 13:(i + 1) * 13]) for i in range(4)]
        h = Hands(*[set(x) for x in hs])
        ht = enc_hands_obj(h)
        for p in Player:
            add('to_pbn', [ht, PC.enc(p)], lambda p=p: h.to_pbn(p))
            add('__getitem__', [ht, PC.enc(p)], lambda p=p: h[p])
        add('to_pbn', [ht], lambda: h.to_pbn())
        add('to_binary', [ht], lambda: h.to_binary())
        add('to_dict', [ht], lambda: h.to_dict())
        for x in hs[:2]:
            add('_convert_hand_to_pbn', [PC.enc(x)], lambda x=x: Hands._convert_hand_to_pbn(x))
        binh = h.to_binary()
        add('convert_binary', ['cHands;', PC.enc(binh)], lambda: Hands.convert_binary(binh))
        if k % 5 == 0:
            # a hand of the wrong size trips the assertion
            x = set(rng.sample(deck, rng.choice([1, 5, 12, 14])))
            add('_convert_hand_to_pbn', [PC.enc(x)], lambda x=x: Hands._convert_hand_to_pbn(x))
            add('__getitem__', [ht, 'N'], lambda: h[None])
    ctx.count('translated_hands_calls', len(b.ops))


def area_json(ctx, b):
    """the JSON writers and the JSON parser: complete documents, compared as TEXT (writers) and as records (parser)"""
    import io
    from bridge_env import Bid, Card, Contract, Hands, Pair, Player, Suit, Vul
    from bridge_env.bidding_phase import BiddingPhase
    from bridge_env.data_handler.json_handler.parser import JsonParser
    from bridge_env.data_handler.json_handler.writer import JsonBoardSettingWriter, JsonLogWriter
    from bridge_env.data_handler.pbn_handler.writer import Scoring
    from bridge_env.playing_phase import PlayingPhaseWithHands
    rng = ctx.rng
    driver = common.ModelDriver()
    n_docs = 6 if ctx.quick else 40
    names = ['teamNS', 'Team (A)', 'x', 'a b', 'E/W', 'ſtrange "q"', 'tab\there', 'é😀', '']
    bad = []

    def new_board(k):
        cards = [Card.int_to_card(i) for i in range(52)]
        rng.shuffle(cards)
        hs = [set(cards[i * 13:(i + 1) * 13]) for i in range(4)]
        dealer, vul = rng.choice(list(Player)), rng.choice(list(Vul))
        sub = Batch()
        bp = gen_auction_run(rng, sub, f'j{k}')
        while not bp.has_done():
            bp.take_bid(Bid.Pass)
        con = bp.contract()
        ph, taken = None, None
        if not con.is_passed_out():
            pp = PlayingPhaseWithHands(con, Hands(*[set(h) for h in hs]))
            while not pp.has_done():
                pl = pp.active_player
                pp.play_card_by_player(rng.choice(sorted(pp.current_available_cards_in_hand(pl), key=int)), pl)
            ph, taken = pp.playing_history, pp.taken_tricks[con.declarer.pair]
        score = rng.randrange(-7600, 7601, 10) if ph is not None else 0
        scores = {Pair.NS: score, Pair.EW: -score}
        if con.declarer is not None and con.declarer.pair is Pair.EW:
            scores = {Pair.EW: score, Pair.NS: -score}
        dda = None
        if rng.random() < 0.4:
            dda = {p: {su: rng.randrange(0, 14) for su in Suit} for p in Player}
        return dict(board_id=rng.choice(['1', 'b7', 'Board 12', '#"x"', 'é']), dealer=bp.dealer, deal=Hands(*hs), vul=bp.vul,
                    bid_history=list(bp.bid_history), contract=con, play_history=ph, taken_trick_num=taken, scores=scores, dda=dda)

    for d in range(n_docs):
        nb = rng.choice([0, 1, 1, 2, 3])
        boards = [new_board(f'{d}_{k}') for k in range(nb)]
        ns, ew = rng.choice(names), rng.choice(names)
        scoring = rng.choice(list(Scoring))
        # ---- log writer
        fp = io.StringIO()
        ops = ['Y.newr f _File', 'Y.newr w JsonLogWriter $f', 'Y.methr w JsonLogWriter open']
        out_real = PC.outcome(lambda: JsonLogWriter(fp))
        w = out_real[1]
        w.open()
        for bd in boards:
            args = dict(board_id=bd['board_id'], west_player=ew, north_player=ns, east_player=ew, south_player=ns,
                        dealer=bd['dealer'], deal=bd['deal'], scoring=scoring, bid_history=bd['bid_history'],
                        contract=bd['contract'], play_history=bd['play_history'], taken_trick_num=bd['taken_trick_num'],
                        scores=bd['scores'], dda=bd['dda'])
            w.write(**args)
            order = ['board_id', 'west_player', 'north_player', 'east_player', 'south_player', 'dealer', 'deal', 'scoring',
                     'bid_history', 'contract', 'play_history', 'taken_trick_num', 'scores', 'dda']
            enc_args = [enc_hands_obj(args[k]) if k == 'deal' else PC.enc(args[k]) for k in order]
            ops.append('Y.methr w JsonLogWriter write ' + ' '.join(enc_args))
        w.close()
        ops.append('Y.methr w JsonLogWriter close')
        text = fp.getvalue()
        lines = driver.run(ops)
        mtext = None
        last = lines[-1].split(' ')
        if last[0] == 'ok':
            tree = PC.parse(last[2])
            buf = tree[2]['_writer'][2]['buf']
            mtext = ''.join(x[1] for x in buf[1])
        ctx.count('translated_json_log_documents')
        ctx.count('translated_json_boards', nb)
        if mtext != text:
            bad.append(('JsonLogWriter', ops[-2][:300] if len(ops) > 4 else ops[-1], lines[-1][:200],
                        f'document text differs: python {text[-160:]!r} / translated {str(mtext)[-160:]!r}; '
                        f'first bad answer: {next((l for l in lines if not l.startswith("ok")), "-")[:120]}'))
            continue
        # ---- settings writer
        fp2 = io.StringIO()
        ops2 = ['Y.newr f2 _File', 'Y.newr s JsonBoardSettingWriter $f2', 'Y.methr s JsonBoardSettingWriter open']
        sw = JsonBoardSettingWriter(fp2)
        sw.open()
        for bd in boards:
            sw.write(board_id=bd['board_id'], dealer=bd['dealer'], deal=bd['deal'], vul=bd['vul'], dda=bd['dda'])
            ops2.append('Y.methr s JsonBoardSettingWriter write ' + ' '.join(
                [PC.enc(bd['board_id']), PC.enc(bd['dealer']), enc_hands_obj(bd['deal']), PC.enc(bd['vul']), PC.enc(bd['dda'])]))
        sw.close()
        ops2.append('Y.methr s JsonBoardSettingWriter close')
        text2 = fp2.getvalue()
        lines2 = driver.run(ops2)
        last2 = lines2[-1].split(' ')
        mtext2 = None
        if last2[0] == 'ok':
            buf = PC.parse(last2[2])[2]['_writer'][2]['buf']
            mtext2 = ''.join(x[1] for x in buf[1])
        if mtext2 != text2:
            bad.append(('JsonBoardSettingWriter', ops2[-2][:300], lines2[-1][:200], f'document text differs: {text2[-120:]!r} / {str(mtext2)[-120:]!r}'))
            continue
        # ---- parser, on both documents (and on damaged ones)
        docs = [('parse_board_logs', text), ('parse_board_settings', text), ('parse_board_settings', text2),
                ('parse_board_logs', text2)]
        if text and rng.random() < 0.7:
            i = rng.randrange(len(text))
            docs.append(('parse_board_logs', text[:i] + rng.choice(['', '}', '"', 'x', ',']) + text[i + 1:]))
        for meth, t in docs:
            if any(0xD800 <= ord(c) <= 0xDFFF for c in t):
                continue
            b.ops.append(f'Y.meth JsonParser {meth} oJsonParser{{}} o_File{{buf=t({PC.enc(t)})}}')
            out = PC.outcome(lambda: getattr(JsonParser(), meth)(io.StringIO(t)))
            if out[0] == 'exc' and out[1] == 'JSONDecodeError':
                out = ('exc', 'ValueError')                # json.JSONDecodeError is a ValueError
            b.exp.append((out, None))
            b.info.append('JsonParser.' + meth)
    ctx.count('translated_json_parser_calls', len(b.ops))
    for fn, op, line, why in bad[:3]:
        b.ops.append('Y.skipped')
        b.exp.append((('ok', None), None))
        b.info.append(fn)
        b.prefailed = getattr(b, 'prefailed', []) + [(fn, op, line, why)]


def area_pbn(ctx, b):
    """the PBN writer: header and board results of whole sessions, compared as TEXT (incl. over-long lines)"""
    import datetime
    import io
    from bridge_env import Bid, Card, Contract, Hands, Player, Vul
    from bridge_env.data_handler.pbn_handler.writer import PbnWriter, Scoring
    rng = ctx.rng
    driver = common.ModelDriver()
    n_docs = 8 if ctx.quick else 60
    names = ['teamNS', 'Team (A)', 'x', 'a b', 'E/W', 'ſtrange', 'é😀', 'n' * 300, 'w ' * 140, '']
    bad = []
    for d in range(n_docs):
        fp = io.StringIO()
        w = PbnWriter(fp)
        ops = ['Y.newr f _File', 'Y.newr w PbnWriter $f']
        if rng.random() < 0.8:
            w.write_header()
            ops.append('Y.methr w PbnWriter write_header')
        expect_exc = None
        for k in range(rng.choice([1, 1, 2, 3])):
            cards = [Card.int_to_card(i) for i in range(52)]
            rng.shuffle(cards)
            hs = [set(cards[i * 13:(i + 1) * 13]) for i in range(4)]
            if rng.random() < 0.15:
                hs[rng.randrange(4)] = set()
            deal = Hands(*hs)
            dealer, vul = rng.choice(list(Player)), rng.choice(list(Vul))
            if rng.random() < 0.2:
                con, taken = Contract(None, vul=vul), None
            else:
                x = rng.random() < 0.3
                con = Contract(rng.choice(list(Bid)[:35]), x, x and rng.random() < 0.4, vul, rng.choice(list(Player)))
                taken = rng.randrange(0, 14)
            if rng.random() < 0.06:
                taken = None if taken is not None else 5          # trips the assertion
            date = datetime.date(rng.choice([1, 987, 2024, 2026]), rng.randrange(1, 13), rng.randrange(1, 29))
            board_num = rng.choice([1, 2, 16, 100]) if rng.random() < 0.95 else rng.choice([0, -3])
            args = dict(event=rng.choice(names), site=rng.choice(names), date=date, board_num=board_num,
                        west_player=rng.choice(names), north_player=rng.choice(names), east_player=rng.choice(names),
                        south_player=rng.choice(names), dealer=dealer, deal=deal, scoring=rng.choice(list(Scoring)),
                        contract=con, taken_tricks=taken)
            out = PC.outcome(lambda: w.write_board_result(**args))
            order = ['event', 'site', 'date', 'board_num', 'west_player', 'north_player', 'east_player', 'south_player', 'dealer',
                     'deal', 'scoring', 'contract', 'taken_tricks']
            enc = []
            for key in order:
                if key == 'deal':
                    enc.append(enc_hands_obj(deal))
                elif key == 'date':
                    enc.append('o_Date{text=' + PC.enc(date.strftime('%Y.%m.%d')) + '}')
                else:
                    enc.append(PC.enc(args[key]))
            ops.append('Y.methr w PbnWriter write_board_result ' + ' '.join(enc))
            if out[0] == 'exc':
                expect_exc = out[1]
                break
        lines = driver.run(ops)
        ctx.count('translated_pbn_documents')
        last = lines[-1].split(' ')
        if expect_exc is not None:
            # python may have written part of the game before raising; the translated call leaves the receiver unchanged:
            # only the exception class is compared
            if last[0] != 'exc' or last[1] != expect_exc:
                bad.append(('PbnWriter.write_board_result', ops[-1][:300], lines[-1][:200], f'python raised {expect_exc}'))
            ctx.count('translated_pbn_raises')
            continue
        text = fp.getvalue()
        mtext = None
        if last[0] == 'ok':
            buf = PC.parse(last[2])[2]['writer'][2]['buf']
            mtext = ''.join(x[1] for x in buf[1])
        if mtext != text:
            bad.append(('PbnWriter', ops[-1][:300], lines[-1][:200],
                        f'document text differs: python {text[-200:]!r} / translated {str(mtext)[-200:]!r}'))
        if any(len(l) > 200 for l in text.split('\n')):
            ctx.count('translated_pbn_long_lines')
    for fn, op, line, why in bad[:3]:
        b.prefailed = getattr(b, 'prefailed', []) + [(fn, op, line, why)]


def area_net(ctx, b):
    """the pure helpers of the network layer: Server.hand_to_str, the bundled bidding systems"""
    from bridge_env import Bid, Card, Player, Vul
    from bridge_env.bidding_phase import BiddingPhase
    from bridge_env.network_bridge.bidding_system import AlwaysPass, WeakBid
    from bridge_env.network_bridge.server import Server
    rng = ctx.rng
    deck = [Card.int_to_card(i) for i in range(52)]
    n = 60 if ctx.quick else 600
    for k in range(n):
        size = rng.choice([0, 1, 5, 13, 13, 13, rng.randrange(0, 14)])
        if rng.random() < 0.2:
            su = rng.randrange(4)
            pool = [c for c in deck if c.suit.value - 1 != su]          # a void
        else:
            pool = deck
        hand = set(rng.sample(pool, min(size, len(pool))))
        b.ops.append('Y.meth Server hand_to_str ' + PC.enc(hand))
        b.exp.append((PC.outcome(lambda: Server.hand_to_str(hand)), None))
        b.info.append('Server.hand_to_str')
    for k in range(n // 4):
        bp = BiddingPhase(rng.choice(list(Player)), rng.choice(list(Vul)))
        for _ in range(rng.randrange(0, 6)):
            legal = [x for x in Bid if bp.available_bid[x.idx] == 1]
            if bp.has_done() or not legal:
                break
            bp.take_bid(rng.choice(legal) if rng.random() < 0.5 else Bid.Pass)
        hand = tuple(rng.randrange(2) for _ in range(52))
        for cls in (WeakBid, AlwaysPass):
            b.ops.append(f'Y.meth {cls.__name__} bid o{cls.__name__}{{}} {PC.enc(hand)} {PC.enc(bp)}')
            b.exp.append((PC.outcome(lambda: cls().bid(hand, bp)), None))
            b.info.append(cls.__name__ + '.bid')
    ctx.count('translated_net_calls', len(b.ops))


def area_msg(ctx, b):
    """the message builders and parsers of both ends (regular expressions through Model/Regex.lean)"""
    from bridge_env import Bid, Card, Hands, Player, Suit, Vul
    from bridge_env.network_bridge.client import Client
    from bridge_env.network_bridge.server import PlayerThread, Server
    from bridge_env.network_bridge.socket_interface import MessageInterface
    rng = ctx.rng
    deck = [Card.int_to_card(i) for i in range(52)]

    def recase(s):
        return ''.join(c.upper() if rng.random() < 0.3 else c.lower() if rng.random() < 0.3 else c for c in s)

    def static(cls, clsname, name, *args):
        b.ops.append(f'Y.meth {clsname} {name} ' + ' '.join(PC.enc(a) for a in args))
        b.exp.append((PC.outcome(lambda: getattr(cls, name)(*args)), None))
        b.info.append(f'{clsname}.{name}')
    formal = {p: p.formal_name for p in Player}
    # calls: every call x every seat, as the client builds them, in any letter case, with and without alert
    for bid in Bid:
        for p in Player:
            static(Client, 'Client', 'create_bid_message', bid, formal[p])
            msg = Client.create_bid_message(bid, formal[p])
            for text in (msg, recase(msg), msg + ' Alert. 15-17', msg + '   alert.'):
                static(Server, 'Server', 'remove_alert_word', text)
                static(MessageInterface, 'MessageInterface', 'parse_bid', Server.remove_alert_word(text), formal[p])
            static(MessageInterface, 'MessageInterface', 'parse_bid', msg, formal[Player((p.value % 4) + 1)])
    for text, name in [('North bids 8C', 'North'), ('North bids 0S', 'North'), ('North says hello', 'North'), ('', 'North'),
                       ('North bids 1N', 'North'), ('North bids 1NTX', 'North'), ('north PASSES', 'North'),
                       ('North  passes', 'North'), ('Northpasses', 'North'), ('North bids 7nt', 'North')]:
        static(MessageInterface, 'MessageInterface', 'parse_bid', text, name)
    # cards: every card x every seat, both notations, any letter case
    for c in deck:
        static(Client, 'Client', 'card_str', c)
        for p in (Player.N, Player.E, Player.S, Player.W)[::1 if not ctx.quick else 2]:
            for body in (Client.card_str(c), str(c)):
                msg = f'{formal[p]} plays {body}'
                static(MessageInterface, 'MessageInterface', 'parse_card', msg, p)
                static(MessageInterface, 'MessageInterface', 'parse_card', recase(msg), p)
    for text in ['North plays ZZ', 'North plays', 'North plays S', 'North plays 1S', 'East plays SA', 'North plays SAX', 'North plays NT2']:
        static(MessageInterface, 'MessageInterface', 'parse_card', text, Player.N)
    # hands
    n = 40 if ctx.quick else 300
    for k in range(n):
        size = rng.choice([0, 1, 5, 13, 13, 13])
        hand = set(rng.sample(deck, size))
        text = Server.hand_to_str(hand)
        static(Client, 'Client', 'parse_hand', text)
        static(Client, 'Client', 'parse_hand', text + ' ')
        p = rng.choice(list(Player))
        cards_msg = f"{formal[p]}'s cards : {text}"
        static(Client, 'Client', 'parse_cards', cards_msg, formal[p])
        static(Client, 'Client', 'parse_cards', cards_msg, 'Dummy')
        static(Client, 'Client', 'parse_cards', f"Dummy's cards : {text}", 'Dummy')
    for text in ['S -. H -. D -. C -.', 'S A K. H -. D -. C', 'S A K Q. H x. D -. C -.', '', 'S 10 9. H -. D -. C -.']:
        static(Client, 'Client', 'parse_hand', text)
    # board headers, team names, leader, connection lines
    names = ['teamNS', 'Team (A)', 'x', 'a b', 'E/W', 'ſtrange', 'é😀', '', 'N/S : "q"', 'using protocol version 18']
    for k in range(n):
        num = rng.choice([1, 2, 16, 100, 12345678901234567890])
        dealer, vul = rng.choice(list(Player)), rng.choice(list(Vul))
        static(Server, 'Server', 'convert_vul', vul)
        header = f'Board number {num}. Dealer {formal[dealer]}. {Server.convert_vul(vul)} vulnerable.'
        static(Client, 'Client', 'parse_board', header)
        static(Client, 'Client', 'parse_board', recase(header))
        ns, ew = rng.choice(names), rng.choice(names)
        for t in (f'Teams : N/S : "{ns}" E/W : "{ew}"', f'Teams : N/S : "{ns}". E/W : "{ew}"', f'teams : n/s : "{ns}" e/w : "{ew}"'):
            static(Client, 'Client', 'parse_team_names', t)
        who = rng.choice(['North', 'East', 'South', 'West', 'Dummy', 'dummy', 'north', 'Nobody'])
        static(Client, 'Client', 'parse_leader_message', f'{who} to lead', rng.choice(list(Player)))
        seat = rng.choice(['North', 'east', 'SOUTH', 'West', 'Nobody'])
        ver = rng.choice([18, 1, 0, 180, 17])
        line = f'Connecting "{rng.choice(names)}" as {seat} using protocol version {ver}'
        static(PlayerThread, 'PlayerThread', 'parse_connection_info', line)
        static(PlayerThread, 'PlayerThread', 'parse_connection_info', recase(line))
    for t in ['Board number x. Dealer North. Neither vulnerable.', 'Board number 1. Dealer North. Nobody vulnerable.',
              'Board number 1. Dealer Nobody. Both vulnerable.', 'Teams : N/S : "a" E/W : b', 'Connecting "a" as North using protocol version x', '']:
        static(Client, 'Client', 'parse_board', t)
        static(Client, 'Client', 'parse_team_names', t)
        static(PlayerThread, 'PlayerThread', 'parse_connection_info', t)
    # PBN deal strings through Hands.convert_pbn / _hand_parser
    for k in range(n // 2):
        cards = deck[:]
        rng.shuffle(cards)
        hs = [set(cards[i * 13:(i + 1) * 13]) for i in range(4)]
        for i in range(4):
            if rng.random() < 0.2:
                hs[i] = set()
        h = Hands(*hs)
        t = h.to_pbn(rng.choice(list(Player)))
        texts = [t]
        if rng.random() < 0.5:
            i = rng.randrange(len(t))
            texts.append(t[:i] + rng.choice(['', 'X', '.', ' ', '-']) + t[i + 1:])
        for tt in texts:
            b.ops.append('Y.meth Hands convert_pbn cHands; ' + PC.enc(tt))
            b.exp.append((PC.outcome(lambda: Hands.convert_pbn(tt)), None))
            b.info.append('Hands.convert_pbn')
    ctx.count('translated_msg_calls', len(b.ops))


def area_regex(ctx, b):
    """the regular-expression engine itself (Model/Regex.lean) next to CPython's `re`: the code base's patterns on
    realistic and damaged subjects, and random patterns of the modelled subset (generators of harness/regex/difftest.py)"""
    import os
    import sys
    import time
    sys.path.insert(0, os.path.join(os.path.dirname(os.path.abspath(__file__)), 'regex'))
    import difftest as D
    import random as _random
    state = _random.getstate()
    _random.seed(ctx.rng.randrange(1 << 30))          # the generators use the module-level PRNG
    try:
        cases = []
        for pat, subs in D.FIXED:
            allsubs = list(subs) + [D.mutate(s0) for s0 in subs for _ in range(2 if ctx.quick else max(2, 24 // max(1, ctx.nshards)))]
            for s in allsubs:
                for ic in (0, 1):
                    cases.append((ic, pat, s, _random.choice(D.REPLS)))
        n_random = 600 if ctx.quick else max(400, 6400 // max(1, ctx.nshards))      # per shard: the shards draw different patterns
        n0 = len(cases)
        while len(cases) - n0 < n_random:
            pat = D.gen_alt(_random.choice([0, 1, 2, 2, 3])) if _random.random() < 0.7 else D.tiny_alt(_random.choice([1, 2, 2, 3]))
            for _ in range(3):
                s = D.gen_subject() if _random.random() < 0.5 else D.gen_subject_from(pat)
                cases.append((_random.randrange(2), pat, s, _random.choice(D.REPLS)))
    finally:
        _random.setstate(state)
    driver = common.ModelDriver()
    ops, exp = [], []
    def expected_guarded(ic, pat, s, repl, limit=0.5):
        """CPython's answers to the five operations, computed in a forked child under a time limit: an exponential pattern
        makes `re` itself run for minutes (the C matcher cannot be interrupted), such a case is dropped, not waited for"""
        import os
        import pickle
        import select
        r, w = os.pipe()
        pid = os.fork()
        if pid == 0:
            try:
                os.close(r)
                out = []
                for op in 'MFSUA':
                    t0 = time.time()
                    e = D.expected(op, ic, pat, s, repl)
                    out.append(None if time.time() - t0 > 0.05 else e)
                os.write(w, pickle.dumps(out))
            finally:
                os._exit(0)
        os.close(w)
        try:
            ready, _, _ = select.select([r], [], [], limit)
            if not ready:
                os.kill(pid, 9)
                ctx.count('regex_cpython_too_slow')
                return [None] * 5
            data = b''
            while True:
                chunk = os.read(r, 65536)
                if not chunk:
                    break
                data += chunk
            return pickle.loads(data) if data else [None] * 5
        finally:
            os.close(r)
            try:
                os.waitpid(pid, 0)
            except ChildProcessError:
                pass
    for ic, pat, s, repl in cases:
        for op, e in zip('MFSUA', expected_guarded(ic, pat, s, repl)):
            if e is None:
                continue                               # CPython itself needs long (exponential pattern): not compared
            ops.append(f'R.case {op} {ic} {D.enc(pat)} {D.enc(s)} {D.enc(repl)}')
            exp.append((op, ic, pat, s, e))
    # the model explores the whole backtracking tree (CPython prunes with a minimum-width test): a few random patterns
    # take very long — run in chunks under a time limit and drop the single cases that exceed it
    import subprocess

    def run_chunk(lo, hi):
        try:
            return driver.run(ops[lo:hi], timeout=8)
        except subprocess.TimeoutExpired:
            out = []
            for i in range(lo, hi):
                try:
                    out += driver.run(ops[i:i + 1], timeout=1)
                except subprocess.TimeoutExpired:
                    ctx.count('regex_slow_skipped')
                    out.append(None)
            return out
    got = []
    for lo in range(0, len(ops), 400):
        got += run_chunk(lo, min(len(ops), lo + 400))
    bad = []
    for (op, ic, pat, s, e), g in zip(exp, got):
        if g is None:
            continue
        if g != e:
            # the model refuses some patterns CPython compiles (stated domain restriction): not a disagreement
            if g == 'N' and D.classify_rejected(pat) is not None:
                ctx.count('regex_pattern_outside_subset')
                continue
            bad.append((op, ic, pat, s, e, g))
    ctx.count('regex_cases', len(ops))
    for op, ic, pat, s, e, g in bad[:3]:
        b.prefailed = getattr(b, 'prefailed', []) + [('re.' + {'M': 'match', 'F': 'fullmatch', 'S': 'search', 'U': 'sub', 'A': 'findall'}[op],
                                                     f'pattern {pat!r} subject {s!r} IGNORECASE={ic}', g, f'CPython: {e}')]


AREAS = {'regex': area_regex, 'msg': area_msg, 'net': area_net, 'pbn': area_pbn, 'json': area_json, 'hands': area_hands, 'score': area_score, 'imps': area_imps, 'notation': area_notation, 'auction': area_auction, 'play': area_play}
# areas whose input set does not depend on the shard: only shard 0 runs them
UNSHARDED = {'score', 'imps', 'notation'}


def validate(ctx, areas):
    driver = common.ModelDriver()
    fails = []
    for area in areas:
        if area in UNSHARDED and ctx.shard != 0:
            continue
        b = Batch()
        try:
            AREAS[area](ctx, b)
        except Exception as e:  # noqa: the real code under a changed implementation may do anything while the ops are generated
            import traceback
            fails.append({'key': f'translated:{area}', 'kind': 'broken-correspondence',
                          'diff': {'what': 'the real code raised while the inputs of the translation validation were generated',
                                   'exception': repr(e), 'where': traceback.format_exc()[-600:]}})
        bad = b.run(driver)
        bad = [x for x in bad if not x[1].startswith('Y.skipped')]
        for fn, op, (p1, p2) in b.aliasing:
            fails.append({'key': f'translated:{area}', 'kind': 'broken-correspondence',
                          'diff': {'what': 'aliasing: one mutable object of the real state is reachable along two paths; the '
                                           'translated program (value semantics) holds two values there',
                                   'function': fn, 'op': op, 'paths': [p1, p2]}})
        ctx.count('translated_alias_checks', sum(1 for e in b.exp if isinstance(e[1], tuple)))
        for fn, op, line, why in getattr(b, 'prefailed', []):
            fails.append({'key': f'translated:{area}', 'kind': 'broken-correspondence',
                          'diff': {'what': 'the translated program (Generated/PyCore.lean under MiniPy) and the real function disagree',
                                   'function': fn, 'op': op, 'translated': line, 'why': why[:700]}})
        ctx.count('translated_ops', len(b.ops))
        ctx.count('_evals', len(b.ops))
        for i, op, line, why in bad[:3]:
            fails.append({'key': f'translated:{area}', 'kind': 'broken-correspondence',
                          'diff': {'what': 'the translated program (Generated/PyCore.lean under MiniPy) and the real '
                                           'function disagree', 'function': b.info[i], 'op': op[:600],
                                   'translated': line[:300], 'why': why[:600]}})
    return fails


if __name__ == '__main__':
    import sys

    class C:
        pass
    ctx = C()
    ctx.quick = (len(sys.argv) < 2 or sys.argv[1] != 'thorough')
    ctx.rng = random.Random(int(sys.argv[2]) if len(sys.argv) > 2 else 0)
    ctx.shard, ctx.nshards = 0, 1
    ctx.counters = {}
    ctx.count = lambda k, n=1: ctx.counters.__setitem__(k, ctx.counters.get(k, 0) + n)
    import time
    for a in AREAS:
        t = time.time()
        f = validate(ctx, [a])
        print(a, len(f), 'failure(s)', f[:1], round(time.time() - t, 1), 's')
    print(ctx.counters)
