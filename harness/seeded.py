"""Seeded changes (realistic property-breaking edits of /repo written by independent sub-agents): import, confirm, run.

  seeded.py import <src-dir> <k> <id>     confirm mut<k>.diff / demo<k>.py / meta<k>.json from a sub-agent in a scratch
                                          worktree (patch applies, pinned suite passes, demo fails with / passes without)
                                          and keep it as /verif/seeded/<id>/{patch.diff, demo.py, meta.json}
  seeded.py run <id> [tier] [seeds..]     run the property's check against a scratch worktree of /repo with the patch applied
  seeded.py runall [tier]                 the same for every seeded change (16 at a time); prints a table

Scratch worktrees live under /tmp and are removed, with their build output, as soon as a run ends.  Nothing is ever
applied to /repo itself by this script.
"""
import json
import os
import shutil
import subprocess
import sys
import tempfile
from concurrent.futures import ThreadPoolExecutor

VERIF = os.path.dirname(os.path.dirname(os.path.abspath(__file__)))
SEEDED = os.path.join(VERIF, 'seeded')
PY = '/venv/bin/python'


def sh(cmd, cwd=None, env=None, timeout=3600):
    p = subprocess.run(cmd, cwd=cwd, env=env, timeout=timeout, stdout=subprocess.PIPE, stderr=subprocess.STDOUT, text=True)
    return p.returncode, p.stdout


class Scratch:
    """a scratch worktree of /repo's HEAD, optionally with a patch applied"""

    def __init__(self, patch=None):
        self.patch = patch

    def __enter__(self):
        self.dir = tempfile.mkdtemp(prefix='seeded-', dir='/tmp')
        self.repo = os.path.join(self.dir, 'repo')
        rc, out = sh(['git', '-C', '/repo', 'worktree', 'add', '--detach', self.repo, 'HEAD'])
        if rc != 0:
            raise RuntimeError('worktree add failed: ' + out)
        if self.patch:
            rc, out = sh(['git', 'apply', self.patch], cwd=self.repo)
            if rc != 0:
                self.__exit__()
                raise RuntimeError('patch does not apply: ' + out)
        return self

    def __exit__(self, *a):
        sh(['git', '-C', '/repo', 'worktree', 'remove', '--force', self.repo])
        shutil.rmtree(self.dir, ignore_errors=True)


def env_for(repo):
    e = dict(os.environ)
    e['PYTHONPATH'] = repo
    e['PYTHONDONTWRITEBYTECODE'] = '1'
    e.setdefault('PYTHONHASHSEED', '0')
    return e


def do_import(src, k, sid):
    patch = os.path.abspath(os.path.join(src, f'mut{k}.diff'))
    demo = os.path.abspath(os.path.join(src, f'demo{k}.py'))
    meta = json.load(open(os.path.join(src, f'meta{k}.json')))
    log = {}
    with Scratch() as clean:
        rc, out = sh([PY, demo], cwd=clean.repo, env=env_for(clean.repo), timeout=900)
        log['demo_without_change'] = {'rc': rc, 'tail': out[-600:]}
    with Scratch(patch) as mut:
        rc2, out2 = sh([PY, demo], cwd=mut.repo, env=env_for(mut.repo), timeout=900)
        log['demo_with_change'] = {'rc': rc2, 'tail': out2[-600:]}
        rc3, out3 = sh([PY, '-m', 'pytest', '-q', '-p', 'no:cacheprovider', '--timeout=900'], cwd=mut.repo,
                       env=env_for(mut.repo), timeout=1800)
        log['suite_with_change'] = {'rc': rc3, 'tail': out3[-300:]}
    ok = log['demo_without_change']['rc'] == 0 and log['demo_with_change']['rc'] != 0 and log['suite_with_change']['rc'] == 0
    print(json.dumps(log, indent=1))
    if not ok:
        print(f'NOT CONFIRMED: {sid}')
        return 1
    d = os.path.join(SEEDED, sid)
    os.makedirs(d, exist_ok=True)
    shutil.copy(patch, os.path.join(d, 'patch.diff'))
    shutil.copy(demo, os.path.join(d, 'demo.py'))
    json.dump({'id': sid, 'property': meta.get('property'), 'summary': meta.get('summary'), 'needs': meta.get('needs'),
               'author': 'independent sub-agent given only the property text and a scratch worktree',
               'confirmed': {'by': 'harness/seeded.py import (scratch worktrees of /repo HEAD)', **log},
               'author_commands': meta.get('commands')},
              open(os.path.join(d, 'meta.json'), 'w'), indent=1)
    print(f'CONFIRMED and stored: {d}')
    return 0


def run_one(sid, tier='quick', seed='0', prop=None):
    d = os.path.join(SEEDED, sid)
    meta = json.load(open(os.path.join(d, 'meta.json')))
    prop = prop or meta['property']
    with Scratch(os.path.join(d, 'patch.diff')) as mut:
        ev = os.path.join(mut.dir, 'ev')
        os.makedirs(ev)
        e = dict(os.environ, BRIDGE_ENV_REPO=mut.repo, VERIF_EVIDENCE_DIR=ev, VERIF_SEED=str(seed))
        rc, out = sh([os.path.join(VERIF, 'check'), prop, '--tier', tier], cwd=VERIF, env=e, timeout=7200)
        vio = [l for l in out.splitlines() if l.startswith('VIOLATION')]
        reason = ''
        for v in vio[:1]:
            path = v.split('replay=')[1].split()[0]
            try:
                r = json.load(open(path))
                reason = (r.get('key') or r.get('kind') or '') + ' ' + json.dumps(r.get('diff') or r.get('obligation') or '', default=str)[:160]
            except Exception:
                pass
        return {'id': sid, 'property': prop, 'tier': tier, 'seed': seed, 'rc': rc, 'violations': len(vio),
                'no_failing_input': any('no-failing-input-found' in v for v in vio), 'reason': reason,
                'tail': out.splitlines()[-1][:200] if out else ''}


def write_results_md():
    rows = {}
    for tier in ('quick', 'thorough'):
        p = os.path.join(SEEDED, f'last_run_{tier}.json')
        if os.path.exists(p):
            for r in json.load(open(p)):
                rows.setdefault(r['id'], {})[tier] = r
    out = ['# Seeded changes: which check catches which change', '',
           'Generated by `harness/seeded.py runall <tier>` (scratch worktree of /repo HEAD + patch, `BRIDGE_ENV_REPO`).',
           '`CAUGHT` = exit 1 with a VIOLATION line and a concrete replay; `CAUGHT(no-input)` = VIOLATION … no-failing-input-found;',
           '`MISSED` = exit 0.  Every change passes the pinned test-suite (4 366 tests) and was written without access to /verif.', '',
           '| id | property | what was changed | needs | quick | thorough | failing input reported |', '|---|---|---|---|---|---|---|']
    for sid in sorted(rows):
        try:
            meta = json.load(open(os.path.join(SEEDED, sid, 'meta.json')))
        except OSError:
            continue

        def verdict(r):
            if r is None:
                return '–'
            if r['rc'] == 1:
                return 'CAUGHT(no-input)' if r['no_failing_input'] else 'CAUGHT'
            return 'MISSED' if r['rc'] == 0 else 'INFRA'
        q, t = rows[sid].get('quick'), rows[sid].get('thorough')
        reason = ((q or t or {}).get('reason') or '').replace('|', '/')[:90]

        def cell(x):
            return str(x or '').replace('|', '/').replace('\n', ' ')[:230]
        out.append(f'| {sid} | {meta.get("property")} | {cell(meta.get("summary"))} | {cell(meta.get("needs"))} | '
                   f'{verdict(q)} | {verdict(t)} | {reason} |')
    open(os.path.join(SEEDED, 'RESULTS.md'), 'w').write('\n'.join(out) + '\n')


def main():
    cmd = sys.argv[1]
    if cmd == 'import':
        sys.exit(do_import(sys.argv[2], sys.argv[3], sys.argv[4]))
    if cmd == 'run':
        sid = sys.argv[2]
        tier = sys.argv[3] if len(sys.argv) > 3 else 'quick'
        seeds = sys.argv[4:] or ['0']
        for s in seeds:
            print(json.dumps(run_one(sid, tier, s)))
        return
    if cmd == 'runall':
        tier = sys.argv[2] if len(sys.argv) > 2 else 'quick'
        ids = sorted(os.listdir(SEEDED)) if os.path.isdir(SEEDED) else []
        ids = [i for i in ids if os.path.exists(os.path.join(SEEDED, i, 'patch.diff'))]
        with ThreadPoolExecutor(6) as ex:
            res = list(ex.map(lambda i: run_one(i, tier), ids))
        for r in res:
            verdict = 'CAUGHT' if r['rc'] == 1 and not r['no_failing_input'] else ('CAUGHT(no-input)' if r['rc'] == 1 else
                                                                                    ('MISSED' if r['rc'] == 0 else 'INFRA'))
            print(f'{r["id"]:40s} {r["property"]} {tier:8s} {verdict:16s} {r["reason"][:110]}')
        json.dump(res, open(os.path.join(SEEDED, f'last_run_{tier}.json'), 'w'), indent=1)
        write_results_md()
        return
    print(__doc__)


if __name__ == '__main__':
    main()
