"""C18 — PBN export is read back by the PBN parser, one game per board."""
import random

import common
import json_common as J
import pbn_common as B
from common import Case

TITLE = 'PBN export is read back by the PBN parser, one game per board'
LEAN_TARGETS = ['BridgeVerif.Props.C18', 'BridgeVerif.Translated.PbnWriter', 'BridgeVerif.Lemmas.RegexPbn', 'BridgeVerif.Translated.PbnParserClosed', 'BridgeVerif.Translated.PbnParserWide', 'BridgeVerif.Translated.PbnExport', 'BridgeVerif.Translated.PbnExportClosed', 'BridgeVerif.Props.Regex']
AUDIT_PROPS = ['C18', 'Translated.PbnWriter', 'Lemmas.RegexPbn', 'Translated.PbnParser', 'Translated.PbnParserClosed', 'Translated.PbnParserWide', 'Translated.PbnExport', 'Translated.PbnExportClosed', 'Regex']
REQUIRED = ['Lemmas.RegexPbn.pbnRegexFacts', 'Translated.PbnParserClosed.pp_parse_all_closed', 'Translated.PbnParserWide.pp_parse_all_wide_closed', 'Translated.PbnExport.pe_export_round_trip_translated', 'Translated.PbnExportClosed.pe_export_round_trip_wf', 'Translated.PbnExport.pe_export_as_settings_translated', 'Translated.PbnParser.pp_parse_all_translated', 'Regex.pbn_patterns_are_the_translated_constants',
            'Translated.PbnWriter.pw_document_translated', 'Translated.PbnWriter.pw_write_board_result_translated_cases', 'Translated.PbnWriter.pw_write_line_translated_cases', 'Translated.PbnWriter.pw_write_tag_pair_translated_cases',
            'lines_at_most_255', 'written_lines_at_most_255', 'fifteen_tags_in_order', 'passed_out_tags', 'export_round_trip',
            'export_as_settings', 'consecutive_results_are_separate_games', 'old_writer_merged_games']
KEEP_FIRST = 1
SHARDS = {'quick': 2, 'thorough': 16}
RULE = ('sequences of 1-6 board results written by the real PbnWriter (free-text values over printable ASCII + non-ASCII letters '
        'without quote, incl. empty / leading / trailing / double spaces, brackets, lone ";" "{" "}"; all scoring styles; every '
        'doubling state; passed-out as None and as Bid.Pass; unknown hands; years below 1000; board numbers up to 20 digits; '
        'occasionally over-long values that force write_line to wrap): the written text, the chunk lengths (<= 255, each ending '
        'in a line end), what PbnParser.parse_all and parse_board_settings read back. write_line alone on strings of every '
        'length around 254/255/256/509/510. Independent oracle: read-back tag values == the values written, one game per '
        'result, settings == the boards. distinct = distinct op lines.')
TRUSTED = ['as C17 for the reader; datetime.date.strftime("%Y.%m.%d") modelled with an unpadded year (glibc)']
ASSUMPTIONS = ['free-text values contain no double quote, no line end, no comment opener; each tag pair fits on one 255-character '
               'line (longer values are wrapped by write_line and are outside the round-trip claim, inside the line-length claim)']
REQUIRED_COUNTERS = {t: ['export_files', 'passed_out_results', 'played_results', 'results_with_unknown_hands', 'year_below_1000',
                         'long_values', 'write_line_strings']
                     for t in ('quick', 'thorough')}


# intermediate representations (texts) and probes of the reader / validator MODELS on inputs outside the property: a
# difference there breaks the correspondence; the independent oracle has to exhibit a failing input
CORRESPONDENCE_ONLY_OPS = ('B.wtext', 'B.line')


# areas of the pure core whose TRANSLATION (Generated/PyCore.lean) is run next to the real code in this check
TRANSLATED_AREAS = ('pbn',)

def impl_exec(ops):
    return B.impl_exec(ops)


_TAGLINE = None


def canon(op, line):
    """the written text is compared up to the layout freedom the reader theorem (C17.first_occurrence_wins) covers anyway:
    an optional space after '[' / before ']' and blanks at the end of a tag line"""
    global _TAGLINE
    if op.split(' ', 1)[0] == 'B.wmax' and line.startswith('max='):
        # the property bounds the line length; it does not fix it
        mx, nl = line.split(' ')
        return f'le255={int(int(mx[4:]) <= 255)} {nl}'
    if op.split(' ', 1)[0] != 'B.wtext' or line in ('ERR', 'bad-op', '-') or line.startswith('EXC'):
        return line
    import re
    if _TAGLINE is None:
        _TAGLINE = re.compile(r'\[ ?([A-Z][a-zA-Z]+) "([^"\n]*)" ?\][ \t]*')
    try:
        text = J.unhx(line)
    except ValueError:
        return line
    out = []
    for ln in text.split('\n'):
        m = _TAGLINE.fullmatch(ln)
        out.append(f'[{m.group(1)} "{m.group(2)}"]' if m else ln)
    return J.hx('\n'.join(out))


def cases(ctx):
    rng = ctx.rng
    for i in range(80 if ctx.quick else 1000):
        n = rng.choice([1, 1, 2, 3, 6])
        ctx.count('export_files')
        yield Case(['B.wbegin'] + [B.gen_result_op(rng, ctx) for _ in range(n)] + ['B.wtext', 'B.wmax', 'B.wread', 'B.wsettings'],
                   {'kind': 'export'})
    ops = []
    lens = [1, 2, 10, 253, 254, 255, 256, 257, 507, 508, 509, 510, 511, 700, 1100]
    for i in range(60 if ctx.quick else 600):
        n = rng.choice(lens) + rng.choice([0, 0, -1, 1])
        s = ''.join(rng.choice('abcdefgh ] "[') for _ in range(max(n, 0)))
        if rng.random() < 0.3 and s:
            s = s[:-1] + '\n'
        ctx.count('write_line_strings')
        ops.append(f'B.line {J.hx(s)}')
    ops.append('B.line -')
    yield Case(ops, {'kind': 'write_line'})


def extra_checks(ctx):
    """independent oracle: every written result is read back as its own game carrying the written values"""
    e = B.env()
    rng = random.Random(f'C18-oracle/{ctx.seed}/{ctx.shard}')
    fails = []
    export_texts = []
    for i in range(60 if ctx.quick else 600):
        n = rng.choice([1, 2, 3, 5])
        rops = [B.gen_result_op(rng, long_ok=False) for _ in range(n)]
        results = [B.Result(o.split(' ')) for o in rops]
        ctx.count('_cases')
        ctx.count('_evals', 3)
        ctx.count('oracle_export_files')
        ops = ['B.wbegin'] + rops + ['B.wtext', 'B.wmax', 'B.wread', 'B.wsettings']

        def fail(key, detail):
            fails.append({'key': key, 'kind': 'counterexample', 'ops': ops, 'diff': detail})
        chunks = B.written_chunks(results)
        if chunks is None:
            fail('export-raises', 'write_board_result raised on a well-formed result')
            continue
        if any(len(c) > 255 for c in chunks):
            fail('line-longer-than-255', max(len(c) for c in chunks))
        text = ''.join(chunks)
        import io
        export_texts.append(text)
        games = e['PbnParser']().parse_all(io.StringIO(text))
        if len(games) != len(results):
            fail('games-not-separated', {'games': len(games), 'results': len(results)})
            continue
        for k, (g, r) in enumerate(zip(games, results)):
            po = r.contract.is_passed_out()
            want = {'Event': r.event, 'Site': r.site, 'Date': r.date.strftime('%Y.%m.%d'), 'Board': str(r.num),
                    'West': r.names['W'], 'North': r.names['N'], 'East': r.names['E'], 'South': r.names['S'],
                    'Dealer': r.dealer.name, 'Vulnerable': {1: 'None', 2: 'NS', 3: 'EW', 4: 'All'}[r.vul.value],
                    'Deal': B.pbn_of(r.hands, r.dealer.name), 'Scoring': r.scoring.value,
                    'Declarer': '' if po else r.contract.declarer.name,
                    'Contract': 'Pass' if po else str(r.contract), 'Result': '' if po else str(r.tricks)}
            if list(g.items()) != list(want.items()):
                bad = [t for t in want if g.get(t) != want[t]] or ['<order or extra tags>']
                fail('export-readback-' + bad[0], {'game': k, 'tags': bad, 'got': {t: g.get(t) for t in bad}})
                break
        try:
            sets = e['PbnParser']().parse_board_settings(io.StringIO(text))
            ok = len(sets) == len(results) and all(
                s.board_id == str(r.num) and s.dealer is r.dealer and s.vul is r.vul and s.hands == J.hands_obj(r.hands)
                for s, r in zip(sets, results))
        except Exception:
            ok = False
        if not ok:
            fail('export-as-settings', 'parse_board_settings(written) differs from the boards written')
    # the TRANSLATED PBN parser (Generated/PyCorePbn.lean) reads the export texts as the real parser does
    import common
    import pbn_translated as PT
    tdiffs, nrun = PT.check(common.REPO, common.ModelDriver(), export_texts[:40 if ctx.quick else 300])
    ctx.count('translated_pbn_parser_runs', nrun)
    for d in tdiffs[:4]:
        fails.append({'key': 'translated-pbn-parser', 'kind': 'broken-correspondence', 'ops': [], 'diff': d})
    return fails


def classify(ops, exp, got):
    for o, a, b in zip(ops, exp, got):
        if a != b:
            return 'diff:' + o.split(' ', 1)[0]
    return 'diff'
