"""Deterministic cooperative scheduler for the UNMODIFIED threaded table manager and clients.

Before `bridge_env.network_bridge` is imported, `install()` replaces, in their home modules,
threading.Event / threading.Barrier / queue.Queue / threading.Thread.start|join|is_alive /
time.sleep / socket.socket by controlled versions.  Every controlled operation is a yield point:
the thread announces its pending operation and parks on a private semaphore; when the running
thread has parked (or finished) the scheduler computes the enabled set from the primitives'
semantics, picks one thread according to the policy and lets it run to its next yield point.
No real primitive ever blocks, so a run is a function of (scenario, schedule) and replays exactly.

Primitive semantics (DESIGN.md §2 / appendix C):
  Event.wait enabled iff the flag is set OR a set() happened while this wait was pending
  Barrier(n).wait = arrive (always) ; depart (enabled iff the generation has advanced)
  Queue.get enabled iff non-empty; put always
  socket: accept iff backlog non-empty; connect iff a listener exists; recv yields only when it
          would block (enabled iff data or peer closed); sendall/close always
  Thread.start always; join iff the target finished; is_alive always; time.sleep always
  TIMED waits (Event.wait / Thread.join / Queue.get / Barrier.wait with a timeout): always enabled — "however long any
          one thread is delayed" means a timeout may always expire first; resumed while the condition is false = expiry
  PROCESS EXIT: the table manager's threads are daemons; when its main thread ends, every thread it started that has not
          finished is killed (never runs again) and all server-side connections are closed (Sched.killed lists them)
"""
import collections
import queue as _queue_mod
import socket as _socket_mod
import threading
import time as _time_mod

_real_Event, _real_Thread = threading.Event, threading.Thread
_real_start, _real_join, _real_is_alive = threading.Thread.start, threading.Thread.join, threading.Thread.is_alive
_real_sleep = _time_mod.sleep
_real_Queue = _queue_mod.Queue
_real_socket = _socket_mod.socket
_real_Barrier = threading.Barrier

_CURRENT = None          # the active Sched (one at a time per process)


class SchedAbort(BaseException):
    """raised inside parked threads when a run is torn down (deadlock / budget / end)"""


class Op:
    __slots__ = ('kind', 'obj', 'enabled', 'released', 'info')

    def __init__(self, kind, obj=None, enabled=None, info=None):
        self.kind, self.obj, self.info = kind, obj, info
        self.enabled = enabled or (lambda: True)
        self.released = False

    def is_enabled(self):
        return self.released or self.enabled()

    def label(self):
        o = getattr(self.obj, 'label', None)
        return f'{self.kind}({o})' if o else self.kind


class CT:
    """a controlled thread"""

    def __init__(self, label, thread):
        self.label, self.thread = label, thread
        self.sem = threading.Semaphore(0)
        self.pending = Op('begin')
        self.finished = False
        self.exc = None
        self.ops = []          # message-level op log of this thread (kind, object label, payload)
        self.killed = False    # died with its process (daemon thread, main thread ended)
        self.nyield = 0        # yield points passed so far
        self.ops_at = []       # nyield at the time of each logged op (parallel to ops)
        self.parent = None     # the controlled thread that started it (None for root threads)


class Sched:
    def __init__(self, policy, max_steps=600000, watchdog=45.0):
        self.policy = policy
        self.threads = []              # CTs in creation order
        self.by_ident = {}
        self.wake = threading.Semaphore(0)
        self.max_steps = max_steps
        self.watchdog = watchdog
        self.steps = 0
        self.schedule = []             # labels chosen, in order
        self.aborting = False
        self.result = None
        self.deadlock_info = None
        self.labels = {}               # object -> label counters
        self.killed = []               # labels of daemon threads killed by the exit of their process
        self.process_mains = set()     # labels of root threads whose end is the end of a process
        self.counter = collections.Counter()

    # ---- registration
    def new_label(self, prefix):
        self.counter[prefix] += 1
        return f'{prefix}{self.counter[prefix]}'

    def register(self, thread, label):
        ct = CT(label, thread)
        self.threads.append(ct)
        thread._sched_ct = ct
        orig_run = thread.run
        sched = self

        def wrapped():
            ct.sem.acquire()
            sched.by_ident[threading.get_ident()] = ct
            try:
                if sched.aborting or ct.killed:
                    return
                ct.pending = None
                orig_run()
                # a thread may be held up between its last synchronisation step and its end (is_alive / join see it)
                sched.yield_op(Op('Thread.exit', None))
            except SchedAbort:
                pass
            except BaseException as e:       # noqa: an exception of the code under test is an observation
                ct.exc = e
            finally:
                ct.finished = True
                ct.pending = None
                # the OS reuses thread identifiers: a later thread must not be mistaken for this one
                sched.by_ident.pop(threading.get_ident(), None)
                sched.wake.release()
        thread.run = wrapped
        return ct

    def cur(self):
        return self.by_ident.get(threading.get_ident())

    # ---- yield point (called from controlled threads)
    def yield_op(self, op):
        ct = self.cur()
        if ct is None:
            return                      # not a controlled thread: primitives act immediately
        if self.aborting or ct.killed:
            raise SchedAbort()          # unwinding (e.g. a close() in a finally block) must not park again
        ct.nyield += 1
        inj = getattr(self, 'inject', None)
        if inj and inj.get('op') == 'yield' and inj.get('thread') == ct.label and inj.get('k') == ct.nyield:
            # the operator's Ctrl-C delivered just before this thread's k-th synchronisation step
            raise KeyboardInterrupt('operator interrupt (injected by the harness)')
        ct.pending = op
        self.wake.release()
        ct.sem.acquire()
        if self.aborting or ct.killed:
            raise SchedAbort()
        ct.pending = None

    def log(self, kind, obj_label, payload=None):
        ct = self.cur()
        if ct is not None:
            ct.ops.append((kind, obj_label, payload))
            ct.ops_at.append(ct.nyield)

    # ---- the scheduling loop (runs in the harness thread)
    def run(self):
        first = True
        last = None
        while True:
            if not first:
                if not self.wake.acquire(timeout=self.watchdog):
                    self.result = 'WATCHDOG'
                    self.deadlock_info = {'stuck_outside_yield_point': last.label if last else None}
                    try:
                        import sys as _sys
                        import traceback as _tb
                        fr = _sys._current_frames().get(last.thread.ident) if last else None
                        if fr is not None:
                            self.deadlock_info['stack'] = ''.join(_tb.format_stack(fr, limit=8))[-1500:]
                    except Exception:
                        pass
                    self.abort()
                    return self.result
            first = False
            self._process_exit()
            live = [ct for ct in self.threads if not ct.finished]
            if not live:
                self.result = 'DONE'
                return self.result
            enabled = [ct for ct in live if ct.pending is not None and ct.pending.is_enabled()]
            if not enabled:
                self.result = 'DEADLOCK'
                self.deadlock_info = {ct.label: ct.pending.label() if ct.pending else '?' for ct in live}
                self.abort()
                return self.result
            if self.steps >= self.max_steps:
                self.result = 'BUDGET'
                self.deadlock_info = {ct.label: ct.pending.label() if ct.pending else '?' for ct in live}
                self.abort()
                return self.result
            ct = self.policy.pick(enabled, self)
            self.steps += 1
            self.schedule.append(ct.label)
            last = ct
            ct.sem.release()

    def _descends(self, ct, root):
        while ct is not None:
            if ct is root:
                return True
            ct = ct.parent
        return False

    def _process_exit(self):
        """a process whose main thread has ended takes its daemon threads and its sockets with it"""
        for root in self.threads:
            if root.label in self.process_mains and root.finished and not getattr(root, 'exited', False):
                root.exited = True
                for ct in self.threads:
                    if ct is not root and not ct.finished and self._descends(ct, root):
                        ct.killed = True
                        self.killed.append(ct.label)
                        ct.sem.release()
                        self.wake.acquire()         # it unwinds (SchedAbort) and reports back
                for conn in NET.conns:
                    conn.server_closed = True

    def abort(self):
        self.aborting = True
        for ct in self.threads:
            if not ct.finished:
                ct.sem.release()
        # give the threads a moment to unwind; they are daemons anyway
        deadline = _time_mod.time() + 5
        for ct in self.threads:
            if ct.thread.ident is not None:
                try:
                    _real_join(ct.thread, max(0.0, deadline - _time_mod.time()))
                except RuntimeError:
                    pass                 # registered but never started


# ------------------------------------------------------------------ controlled primitives
class CEvent:
    def __init__(self):
        self._flag = False
        self.label = _CURRENT.new_label('ev') if _CURRENT else 'ev?'
        self._waiters = []

    def is_set(self):
        return self._flag

    isSet = is_set

    def _at_fork_reinit(self):
        # threading._after_fork re-initialises the `_started` event of every Thread object in a forked child (the C19 check
        # computes CPython's regex answers in a forked child under a time limit); nothing to do for a controlled event
        pass

    def set(self):
        s = _CURRENT
        if s:
            s.yield_op(Op('Event.set', self))
            s.log('set', self.label)
        self._flag = True
        for op in self._waiters:        # a waiter blocked at set() is released even if clear() follows
            op.released = True
        self._waiters = []

    def clear(self):
        s = _CURRENT
        if s:
            s.yield_op(Op('Event.clear', self))
            s.log('clear', self.label)
        self._flag = False

    def wait(self, timeout=None):
        s = _CURRENT
        if s and s.cur() is not None:
            op = Op('Event.wait', self, enabled=(lambda: self._flag) if timeout is None else (lambda: True))
            self._waiters.append(op)
            s.yield_op(op)
            if op in self._waiters:
                self._waiters.remove(op)
            if timeout is not None and not (self._flag or op.released):
                s.log('wait-timeout', self.label)
                return False
            s.log('wait', self.label)
            return True
        return self._flag


class CBarrier:
    """threading.Barrier: the k-th wait of every party is released when all parties made their k-th call;
    reset() breaks the rendezvous in progress (its waiters get BrokenBarrierError) and starts afresh;
    abort() breaks it for good."""

    def __init__(self, parties, action=None, timeout=None):
        self.parties = parties
        self._count = 0
        self._gen = 0
        self._broken_gens = set()
        self._aborted = False
        self.label = _CURRENT.new_label('bar') if _CURRENT else 'bar?'

    def wait(self, timeout=None):
        s = _CURRENT
        if s:
            s.yield_op(Op('Barrier.arrive', self))
            s.log('arrive', self.label)
        if self._aborted:
            raise threading.BrokenBarrierError
        gen = self._gen
        idx = self._count
        self._count += 1
        if self._count == self.parties:
            self._count = 0
            self._gen += 1
        if s:
            s.yield_op(Op('Barrier.depart', self,
                          enabled=(lambda: self._gen > gen) if timeout is None else (lambda: True)))
            if timeout is not None and not self._gen > gen:
                s.log('depart-timeout', self.label)       # an expired Barrier.wait breaks the barrier
                self._break_current()
                self._aborted = True
                raise threading.BrokenBarrierError
            s.log('depart', self.label)
        if gen in self._broken_gens or (self._aborted and self._gen == gen):
            raise threading.BrokenBarrierError
        return idx

    @property
    def n_waiting(self):
        return self._count

    @property
    def broken(self):
        return self._aborted

    def _break_current(self):
        if self._count > 0:
            self._broken_gens.add(self._gen)
            self._count = 0
            self._gen += 1

    def reset(self):
        s = _CURRENT
        if s:
            s.yield_op(Op('Barrier.reset', self))
            s.log('reset', self.label)
        self._break_current()
        self._aborted = False

    def abort(self):
        s = _CURRENT
        if s:
            s.yield_op(Op('Barrier.abort', self))
            s.log('abort', self.label)
        self._break_current()
        self._aborted = True


class CQueue:
    def __init__(self, maxsize=0):
        self._q = collections.deque()
        self.label = _CURRENT.new_label('q') if _CURRENT else 'q?'
        self.history = []

    def put(self, item, block=True, timeout=None):
        s = _CURRENT
        if s:
            s.yield_op(Op('Queue.put', self))
            s.log('put', self.label, item)
        self._q.append(item)
        self.history.append(item)

    put_nowait = put

    def get(self, block=True, timeout=None):
        s = _CURRENT
        if s and s.cur() is not None:
            ct = s.cur()
            ct.nget = getattr(ct, 'nget', 0) + 1
            inj = getattr(s, 'inject', None)
            if inj and inj.get('thread') == ct.label and inj.get('op') == 'get' and inj.get('k') == ct.nget:
                # the operator's Ctrl-C delivered while this thread waits in Queue.get() for the k-th time
                raise KeyboardInterrupt('operator interrupt (injected by the harness)')
            timed = (not block) or timeout is not None
            s.yield_op(Op('Queue.get', self, enabled=(lambda: len(self._q) > 0) if not timed else (lambda: True)))
            if timed and not self._q:
                s.log('get-timeout', self.label)
                raise _queue_mod.Empty
            item = self._q.popleft()
            s.log('get', self.label, item)
            return item
        if not self._q:
            raise _queue_mod.Empty
        return self._q.popleft()

    def get_nowait(self):
        if not self._q:
            raise _queue_mod.Empty
        return self._q.popleft()

    def empty(self):
        return not self._q

    def qsize(self):
        return len(self._q)


# ------------------------------------------------------------------ in-memory network
class Net:
    def __init__(self):
        self.listeners = {}
        self.conns = []            # Conn objects in accept order


class Conn:
    """one connection: two byte FIFOs and the complete byte log of each direction"""

    def __init__(self, client_label):
        self.client_label = client_label
        self.c2s = bytearray()
        self.s2c = bytearray()
        self.log_c2s = bytearray()
        self.log_s2c = bytearray()
        self.client_closed = False
        self.server_closed = False
        self.eof_after = None      # fault injection: client side reports EOF after this many c2s bytes


class FakeSocket:
    def __init__(self, family=None, type=None, proto=0, fileno=None):
        self.conn = None
        self.side = None           # 'client' | 'server' | 'listener'
        self.addr = None
        self.backlog = None
        self.label = _CURRENT.new_label('sock') if _CURRENT else 'sock?'
        self.peer_label = None
        self._acc = bytearray()    # bytes read so far of the message in progress (for the op log)

    # -- server side
    def setsockopt(self, *a):
        pass

    def settimeout(self, *a):
        pass

    def bind(self, addr):
        self.addr = addr

    def listen(self, n=0):
        self.side = 'listener'
        self.backlog = collections.deque()
        NET.listeners[self.addr] = self

    def accept(self):
        s = _CURRENT
        if self.backlog is None:
            raise OSError(22, 'Invalid argument')          # accept() on a socket that is not listening
        if s:
            s.yield_op(Op('accept', self, enabled=lambda: len(self.backlog) > 0))
        conn = self.backlog.popleft()
        srv = FakeSocket()
        srv.conn, srv.side = conn, 'server'
        srv.peer_label = conn.client_label
        srv.label = 'srv:' + conn.client_label
        NET.conns.append(conn)
        if s:
            s.log('accept', self.label, conn.client_label)
        return srv, ('fake', 0)

    # -- client side
    def connect(self, addr):
        s = _CURRENT
        if s:
            s.yield_op(Op('connect', self, enabled=lambda: addr in NET.listeners))
        ct = s.cur() if s else None
        conn = Conn(ct.label if ct else 'client?')
        self.conn, self.side = conn, 'client'
        self.label = 'cli:' + conn.client_label
        NET.listeners[addr].backlog.append(conn)
        if s:
            s.log('connect', self.label)

    # -- data
    def _inbox(self):
        return self.conn.c2s if self.side == 'server' else self.conn.s2c

    def _peer_closed(self):
        return self.conn.client_closed if self.side == 'server' else self.conn.server_closed

    def sendall(self, data):
        s = _CURRENT
        if s:
            s.yield_op(Op('send', self))
            s.log('send', self.label, bytes(data))
        data = bytes(data)
        parts = [data]
        seg = getattr(NET, 'segment', None)
        if s and seg is not None and len(data) >= 2 and seg.random() < 0.5:
            # TCP may deliver one sendall in several segments: cut the data (half of the time between CR and LF) and let
            # the scheduler run other threads before the rest arrives
            cut = len(data) - 1 if (seg.random() < 0.5 and data.endswith(b'\r\n')) else seg.randrange(1, len(data))
            parts = [data[:cut], data[cut:]]
        for i, part in enumerate(parts):
            if i > 0:
                s.yield_op(Op('send-rest', self))
            if self.side == 'server':
                self.conn.log_s2c += part
                if not self.conn.client_closed:
                    self.conn.s2c += part
            else:
                self.conn.log_c2s += part
                if not self.conn.server_closed:
                    self.conn.c2s += part

    send = sendall

    def recv(self, n):
        s = _CURRENT
        box = self._inbox()
        if not box and not self._peer_closed():
            if s:
                s.yield_op(Op('recv', self, enabled=lambda: len(self._inbox()) > 0 or self._peer_closed()))
            box = self._inbox()
        out = bytes(box[:n])
        del box[:n]
        if s:
            if out == b'':
                s.log('recv-eof', self.label)
            else:
                self._acc += out
                while b'\r\n' in self._acc:
                    i = self._acc.index(b'\r\n')
                    s.log('recv', self.label, bytes(self._acc[:i + 2]))
                    del self._acc[:i + 2]
        return out

    def close(self):
        s = _CURRENT
        if self.side == 'listener':
            NET.listeners.pop(self.addr, None)
            return
        if self.conn is None:
            return
        if s and s.cur() is not None:
            s.yield_op(Op('close', self))
            s.log('close', self.label)
        if self.side == 'server':
            self.conn.server_closed = True
        else:
            self.conn.client_closed = True

    def shutdown(self, how):
        self.close()

    def __enter__(self):
        return self

    def __exit__(self, *a):
        self.close()


NET = Net()


# ------------------------------------------------------------------ Thread / sleep patches
def _start(self):
    s = _CURRENT
    if s is None or s.cur() is None:
        return _real_start(self)
    s.yield_op(Op('Thread.start', None))
    conn = getattr(self, 'connection', None)
    peer = getattr(conn, 'peer_label', None)
    label = ('seat:' + peer) if peer else s.new_label('thread')
    ct = s.register(self, label)
    ct.parent = s.cur()
    try:
        self.daemon = True
        _real_start(self)
    except BaseException:
        # e.g. Thread.__init__ was never called: start() raises in the code under test and no thread exists
        s.threads.remove(ct)
        raise
    s.log('start', label)


def _join(self, timeout=None):
    s = _CURRENT
    ct = getattr(self, '_sched_ct', None)
    if s is None or s.cur() is None or ct is None:
        return _real_join(self, timeout)
    s.yield_op(Op('Thread.join', ct, enabled=(lambda: ct.finished) if timeout is None else (lambda: True)))
    s.log('join' if ct.finished else 'join-timeout', ct.label)


def _is_alive(self):
    s = _CURRENT
    ct = getattr(self, '_sched_ct', None)
    if s is None or s.cur() is None or ct is None:
        return _real_is_alive(self)
    s.yield_op(Op('Thread.is_alive', ct))
    return not ct.finished


def _sleep(t):
    s = _CURRENT
    if s is None or s.cur() is None:
        return _real_sleep(t)
    s.yield_op(Op('sleep', None))


_installed = False


def install():
    """must run before bridge_env.network_bridge is imported"""
    global _installed
    if _installed:
        return
    threading.Event = CEvent
    threading.Barrier = CBarrier
    _queue_mod.Queue = CQueue
    threading.Thread.start = _start
    threading.Thread.join = _join
    threading.Thread.is_alive = _is_alive
    _time_mod.sleep = _sleep
    _socket_mod.socket = FakeSocket
    _installed = True


def new_run(policy, max_steps=600000, watchdog=45.0):
    """fresh scheduler + fresh network"""
    global _CURRENT, NET
    NET = Net()
    _CURRENT = Sched(policy, max_steps=max_steps, watchdog=watchdog)
    return _CURRENT


def end_run():
    global _CURRENT
    _CURRENT = None


def spawn(sched, label, fn):
    """create a controlled root thread (server main, clients)"""
    t = _real_Thread(target=fn, daemon=True)
    sched.register(t, label)
    _real_start(t)
    return t


# ------------------------------------------------------------------ policies
class RandomPolicy:
    def __init__(self, rng):
        self.rng = rng

    def pick(self, enabled, sched):
        return enabled[self.rng.randrange(len(enabled))]


class PCTPolicy:
    """PCT-style: random static priorities, `depth` priority-lowering change points"""

    def __init__(self, rng, depth=3, horizon=20000):
        self.rng = rng
        self.prio = {}
        self.change = sorted(rng.randrange(1, horizon) for _ in range(depth))
        self.low = 0

    def pick(self, enabled, sched):
        for ct in enabled:
            if ct.label not in self.prio:
                self.prio[ct.label] = self.rng.random() + 1
        best = max(enabled, key=lambda ct: self.prio[ct.label])
        if self.change and sched.steps >= self.change[0]:
            self.change.pop(0)
            self.low -= 1
            self.prio[best.label] = self.low
            best = max(enabled, key=lambda ct: self.prio[ct.label])
        return best


class StallPolicy:
    """never schedule `victim` during [start, start+length) while anything else is enabled"""

    def __init__(self, base, victim, start, length):
        self.base, self.victim, self.start, self.length = base, victim, start, length

    def pick(self, enabled, sched):
        if self.start <= sched.steps < self.start + self.length:
            others = [ct for ct in enabled if ct.label != self.victim]
            if others:
                return self.base.pick(others, sched)
        return self.base.pick(enabled, sched)


class StallAfterPolicy:
    """stall `victim` for `length` steps right after it has performed its k-th operation of `kind`"""

    def __init__(self, base, victim, kind, k, length):
        self.base, self.victim, self.kind, self.k, self.length = base, victim, kind, k, length
        self.seen = 0
        self.until = None
        self.was_pending = False

    def pick(self, enabled, sched):
        vic = next((ct for ct in sched.threads if ct.label == self.victim), None)
        if vic is not None and self.until is None:
            n = sum(1 for op in vic.ops if op[0] == self.kind)
            if n >= self.k:
                self.until = sched.steps + self.length
        if self.until is not None and sched.steps < self.until:
            others = [ct for ct in enabled if ct.label != self.victim]
            if others:
                return self.base.pick(others, sched)
        return self.base.pick(enabled, sched)


class ReplayPolicy:
    def __init__(self, labels, then=None):
        self.labels, self.i, self.then = list(labels), 0, then

    def pick(self, enabled, sched):
        if self.i < len(self.labels):
            want = self.labels[self.i]
            self.i += 1
            for ct in enabled:
                if ct.label == want:
                    return ct
            raise RuntimeError(f'replay diverged at step {self.i}: {want} not enabled')
        if self.then is not None:
            return self.then.pick(enabled, sched)
        return enabled[0]


class LowestFirstPolicy:
    """the canonical scheduler of the Lean model: first enabled thread in a fixed order"""

    def __init__(self, order):
        self.rank = {lab: i for i, lab in enumerate(order)}

    def pick(self, enabled, sched):
        return min(enabled, key=lambda ct: self.rank.get(ct.label, 10 ** 6))
