"""The pure core of bridge_env (Python source) -> a MiniPy `Program` in Lean (lean/BridgeVerif/Generated/PyCore.lean).

This is the CODE translator (the three others translate data: schemas, score tables, pattern texts).  It re-writes the
abstract syntax tree of each function of the listed modules constructor by constructor into the deep embedding of
Model/MiniPy.lean; it takes no decision about meaning — that is the Lean interpreter's job, and interpreter + translator
together are validated on every run by executing the translated program (driver op `Y.*`) next to the real functions.

What it resolves statically (and nothing else):
  * `Class.MEMBER` / `cls.MEMBER` of an Enum class          -> the member as a constant
  * a call through a class name, `cls` or `super()`          -> Expr.static / Stmt.callMutStatic with explicit `self`
    (`self.m(..)` where `m` is a staticmethod / classmethod likewise)
  * keyword arguments                                         -> positional, from the callee's parameter list
  * `x.append(v)`, `x.add(v)`, `x.remove(v)` statements      -> Stmt.mut on the path `x`
  * a method call statement on a path (`self.h.record(..)`)   -> Stmt.callMut (receiver written back)
A function that uses anything outside the subset is SKIPPED with its reason (listed in the generated file); a function
listed in REQUIRED that is skipped makes the translation fail loudly.
"""
import ast
import os

MODULES = ['suit', 'pair', 'vul', 'player', 'bid', 'card', 'contract', 'score', 'bidding_phase', 'playing_phase', 'hands',
           'data_handler/abstract_classes', 'data_handler/pbn_handler/__init__', 'data_handler/pbn_handler/writer', 'data_handler/json_handler/writer',
           'data_handler/json_handler/parser', 'network_bridge/bidding_system', 'network_bridge/socket_interface', 'network_bridge/server',
           'network_bridge/client', '_threads', '_prelude_pbn', 'data_handler/pbn_handler/parser']

# modules of which only the listed methods are translated (the rest of the module is threads, sockets and queues)
SELECT = {'network_bridge/server': {'Server': ['hand_to_str', 'convert_vul', 'remove_alert_word'],
                                    'PlayerThread': ['parse_connection_info']},
          'network_bridge/socket_interface': {'MessageInterface': ['parse_match_base', 'parse_bid', 'parse_card']},
          'network_bridge/client': {'Client': ['parse_team_names', 'parse_board', 'parse_cards', 'parse_hand',
                                               'create_bid_message', 'parse_leader_message', 'card_str']}}

# a file object, as far as the JSON writer / parser use one: `write` appends a chunk, `json.load` reads the chunks joined
PRELUDE = '''
class _File:
    def __init__(self):
        self.buf = []

    def write(self, s):
        self.buf.append(s)


# what `re.match` & co. return, as far as the core uses it: the texts of group 0, 1, … (None for a group that did not take part)
class _Match:
    def __init__(self, texts):
        self.texts = texts

    def group(self, i):
        return self.texts[i]

    def groups(self):
        return tuple(self.texts[1:])


# a `datetime.date`, as far as the PBN writer uses one: `strftime('%Y.%m.%d')` gives the text it was made from
class _Date:
    def __init__(self, text):
        self.text = text

    def strftime(self, fmt):
        return self.text
'''

# the match object of the PBN parser's `re.search`: it is asked for its span
PRELUDE_PBN = '''
class _MatchS:
    def __init__(self, texts, span):
        self.texts = texts
        self.span = span

    def group(self, i):
        return self.texts[i]

    def start(self):
        return self.span[0]

    def end(self):
        return self.span[1]
'''

# functions the theorems are about: (class or '', name)
REQUIRED = [
    ('', 'calc_bid_score'), ('', 'calc_score'), ('', 'point_difference_to_imps'), ('', 'score_to_imp'),
    ('Suit', 'is_minor'), ('Suit', 'is_major'),
    ('Pair', 'opponent_pair'), ('Pair', 'is_vul'),
    ('Player', 'next_player'), ('Player', 'partner'), ('Player', 'left'), ('Player', 'right'), ('Player', 'pair'),
    ('Player', 'is_partner'), ('Player', 'is_vul'), ('Player', 'formal_name'), ('Player', 'convert_formal_name'),
    ('Bid', 'idx'), ('Bid', 'level'), ('Bid', 'suit'), ('Bid', 'int_to_bid'), ('Bid', 'level_suit_to_bid'),
    ('Bid', '__str__'), ('Bid', 'str_to_bid'),
    ('Card', '__int__'), ('Card', 'int_to_card'), ('Card', '__str__'), ('Card', 'str_to_card'),
    ('Vul', '__str__'), ('Vul', 'pbn_format'), ('Vul', 'str_to_vul'),
    ('Contract', 'is_passed_out'), ('Contract', 'is_vul'), ('Contract', 'level'), ('Contract', 'trump'),
    ('Contract', 'necessary_tricks'), ('Contract', '__str__'), ('Contract', 'str_to_contract'),
    ('BiddingPhase', '__init__'), ('BiddingPhase', 'take_bid'), ('BiddingPhase', 'has_done'), ('BiddingPhase', 'contract'),
    ('PlayingPhase', '__init__'), ('PlayingPhase', 'play_card'), ('PlayingPhase', 'play_card_by_player'),
    ('PlayingPhase', 'has_done'), ('PlayingPhase', 'calc_highest'), ('PlayingPhase', 'available_cards'),
    ('PlayingPhase', 'current_available_cards'), ('PlayingPhase', '_set_next_leader'), ('PlayingPhase', '_record'),
    ('PlayingPhaseWithHands', '__init__'), ('PlayingPhaseWithHands', 'play_card_by_player'),
    ('PlayingPhaseWithHands', 'current_available_cards_in_hand'),
    ('ObservedPlayingPhase', '__init__'), ('ObservedPlayingPhase', 'play_card_by_player'),
    ('ObservedPlayingPhase', 'set_dummy_hand'), ('ObservedPlayingPhase', 'current_available_cards_in_hand'),
    ('ObservedPlayingPhase', 'current_available_cards_in_dummy_hand'),
    ('Hands', '__init__'), ('Hands', '__getitem__'), ('Hands', 'to_pbn'), ('Hands', '_convert_hand_to_pbn'),
    ('Hands', 'to_binary'), ('Hands', 'to_dict'), ('Hands', 'convert_binary'),
    ('', 'convert_deal'), ('JsonWriter', 'open'), ('JsonWriter', 'close'), ('JsonWriter', '_write_content'),
    ('JsonLogWriter', 'write'), ('JsonBoardSettingWriter', 'write'),
    ('', 'hands_parser'), ('', 'convert_board_setting'), ('', 'convert_board_log'),
    ('JsonParser', 'parse_board_settings'), ('JsonParser', 'parse_board_logs'),
    ('PbnWriter', 'write_line'), ('PbnWriter', 'write_header'), ('PbnWriter', 'write_tag_pair'),
    ('PbnWriter', 'write_board_result'), ('PbnWriter', 'create_contents_sequence'),
    ('Server', 'hand_to_str'), ('WeakBid', 'bid'), ('AlwaysPass', 'bid'),
    ('Server', 'convert_vul'), ('Server', 'remove_alert_word'), ('PlayerThread', 'parse_connection_info'),
    ('MessageInterface', 'parse_match_base'), ('MessageInterface', 'parse_bid'), ('MessageInterface', 'parse_card'),
    ('Client', 'parse_team_names'), ('Client', 'parse_board'), ('Client', 'parse_cards'), ('Client', 'parse_hand'),
    ('Client', 'create_bid_message'), ('Client', 'parse_leader_message'), ('Client', 'card_str'),
]

K = {'value': 1, 'name': 2, '__str__': 3, '__int__': 4, '__lt__': 5, '__le__': 6, '__gt__': 7, '__ge__': 8,
     '__post_init__': 9, '__init__': 10, '__class__': 11, 'self': 12, '__getitem__': 13,
     'ValueError': 20, 'Exception': 21, 'AssertionError': 22, 'KeyError': 23, 'IndexError': 24,
     'NotImplementedError': 25, 'TypeError': 26, 'AttributeError': 27, 'ZeroDivisionError': 28}
EXCEPTIONS = {'ValueError', 'Exception', 'AssertionError', 'KeyError', 'IndexError', 'NotImplementedError', 'TypeError',
              'AttributeError', 'ZeroDivisionError'}
BUILTINS = {'abs': 'abs', 'len': 'len', 'int': 'int', 'str': 'str', 'tuple': 'tuple', 'list': 'tuple', 'range': 'range',
            'enumerate': 'enumerate', 'set': 'set', 'all': 'all', 'any': 'any'}


class TranslationError(Exception):
    pass


class Skip(Exception):
    """this function is outside the subset"""


class ClassInfo:
    def __init__(self, name, node, module):
        self.name, self.node, self.module = name, node, module
        self.base = None
        self.is_enum = False
        self.is_dataclass = False
        self.members = []       # (name, int)
        self.fields = []        # (name, default ast or None)
        self.methods = {}       # name -> (FunctionDef, kind) kind in instance|property|classmethod|staticmethod
        self.attrs = []         # constant class attributes (name, python value)
        self.str_values = []    # (ordinal, text) for an Enum with string values


class Translator:
    def __init__(self, repo):
        self.repo = repo
        self.classes = {}       # name -> ClassInfo
        self.functions = {}     # name -> FunctionDef (module level)
        self.globals = {}       # name -> python value (int / tuple of ints)
        self.global_module = {}
        self.ids = dict(K)
        self.skipped = []
        self.used_names = set()

    # ------------------------------------------------------------------ collection
    def source(self, m):
        if m == '_prelude':
            return PRELUDE
        if m == '_prelude_pbn':
            return PRELUDE_PBN
        if m == '_threads':
            # the thread classes, re-written into sequential code over an explicit world object (desugar_threads.py)
            if getattr(self, '_threads_src', None) is None:
                import desugar_threads
                try:
                    self._threads_src = desugar_threads.desugar(self.repo)
                except (desugar_threads.DesugarError, OSError, SyntaxError, AttributeError, IndexError, KeyError) as e:
                    # the thread code left the desugared subset: the world prelude alone is translated, the thread classes
                    # are missing from the program, and only the theorems about THEM stop building (C08–C11, C13, C19, C20)
                    self.threads_error = f'{type(e).__name__}: {e}'
                    self._threads_src = desugar_threads.WORLD
            return self._threads_src
        return open(os.path.join(self.repo, 'bridge_env', m + '.py'), encoding='utf-8').read()

    def collect(self):
        for m in ['_prelude'] + MODULES:
            tree = ast.parse(self.source(m))
            sel = SELECT.get(m)
            for node in tree.body:
                if sel is not None:
                    # only the listed methods of the listed classes; nothing else of this module
                    if isinstance(node, ast.ClassDef) and node.name in sel:
                        node.body = [st for st in node.body if isinstance(st, ast.FunctionDef) and st.name in sel[node.name]]
                        node.bases = []
                        self.collect_class(node, m)
                    continue
                if isinstance(node, ast.ClassDef):
                    self.collect_class(node, m)
                elif isinstance(node, ast.FunctionDef):
                    if node.name in self.functions:
                        raise TranslationError(f'two module-level functions named {node.name}')
                    self.functions[node.name] = node
                elif isinstance(node, (ast.Assign, ast.AnnAssign)):
                    targets = node.targets if isinstance(node, ast.Assign) else [node.target]
                    if len(targets) == 1 and isinstance(targets[0], ast.Name) and node.value is not None:
                        try:
                            v = self.literal(node.value)
                        except Skip:
                            continue
                        if targets[0].id in self.globals:
                            raise TranslationError(f'global {targets[0].id} assigned twice')
                        self.globals[targets[0].id] = v
                        self.global_module[targets[0].id] = m

    def literal(self, node):
        if isinstance(node, ast.Constant) and type(node.value) in (int, bool, str) or \
                (isinstance(node, ast.Constant) and node.value is None):
            return node.value
        if isinstance(node, ast.UnaryOp) and isinstance(node.op, ast.USub) and isinstance(node.operand, ast.Constant) \
                and type(node.operand.value) is int:
            return -node.operand.value
        if isinstance(node, (ast.Tuple, ast.List)):
            return tuple(self.literal(e) for e in node.elts)
        if isinstance(node, ast.JoinedStr):
            # a module-level f-string made of text and earlier string constants (DEAL_PATTERN)
            out = []
            for v in node.values:
                if isinstance(v, ast.Constant) and isinstance(v.value, str):
                    out.append(v.value)
                elif isinstance(v, ast.FormattedValue) and isinstance(v.value, ast.Name) and v.format_spec is None \
                        and v.conversion == -1 and isinstance(self.globals.get(v.value.id), str):
                    out.append(self.globals[v.value.id])
                else:
                    raise Skip('not a literal')
            return ''.join(out)
        raise Skip('not a literal')

    def collect_class(self, node, module):
        if node.name in self.classes:
            raise TranslationError(f'two classes named {node.name}')
        ci = ClassInfo(node.name, node, module)
        for b in node.bases:
            if isinstance(b, ast.Name) and b.id == 'Enum':
                ci.is_enum = True
            elif isinstance(b, ast.Name) and b.id == 'NamedTuple':
                ci.is_dataclass = True            # positional fields in order, defaults, attribute access: as a dataclass
            elif isinstance(b, ast.Name):
                ci.base = b.id
        for d in node.decorator_list:
            src = ast.unparse(d)
            if src.startswith('dataclass'):
                ci.is_dataclass = True
        for st in node.body:
            if isinstance(st, ast.FunctionDef):
                kind = 'instance'
                for d in st.decorator_list:
                    s = ast.unparse(d)
                    if s == 'property':
                        kind = 'property'
                    elif s == 'classmethod':
                        kind = 'classmethod'
                    elif s == 'staticmethod':
                        kind = 'staticmethod'
                    else:
                        kind = 'unsupported:' + s
                ci.methods[st.name] = (st, kind)
            elif isinstance(st, ast.Assign) and ci.is_enum and len(st.targets) == 1 and isinstance(st.targets[0], ast.Name):
                try:
                    v = self.literal(st.value)
                except Skip:
                    raise TranslationError(f'Enum member {node.name}.{st.targets[0].id} is not an integer literal')
                if type(v) is str:
                    # an Enum with STRING values: each member is a constant instance with the attributes `value` and `name`
                    ci.str_values.append((st.targets[0].id, v))
                    continue
                if type(v) is not int:
                    raise TranslationError(f'Enum member {node.name}.{st.targets[0].id} is not an integer / string literal')
                ci.members.append((st.targets[0].id, v))
            elif isinstance(st, ast.AnnAssign) and ci.is_dataclass and isinstance(st.target, ast.Name):
                ci.fields.append((st.target.id, st.value))
            elif isinstance(st, ast.Assign) and not ci.is_enum and len(st.targets) == 1 and isinstance(st.targets[0], ast.Name):
                try:
                    ci.attrs.append((st.targets[0].id, self.literal(st.value)))
                except Skip:
                    pass
        if ci.str_values:
            if ci.members:
                raise TranslationError(f'Enum {node.name} mixes integer and string values')
            ci.is_enum = False
        self.classes[node.name] = ci

    # ------------------------------------------------------------------ identifiers
    def intern_all(self, names):
        nxt = 100
        for n in sorted(names):
            if n not in self.ids:
                self.ids[n] = nxt
                nxt += 1

    def ident(self, name):
        self.used_names.add(name)
        return 'n_' + name if name not in K else f'K.{self.kname(name)}'

    @staticmethod
    def kname(name):
        return {'__str__': 'str__', '__int__': 'int__', '__lt__': 'lt__', '__le__': 'le__', '__gt__': 'gt__', '__ge__': 'ge__',
                '__post_init__': 'postInit', '__init__': 'init', '__class__': 'class__', '__getitem__': 'getitem__'}.get(name, name)

    # ------------------------------------------------------------------ class queries
    def find_method(self, cname, mname):
        seen = 0
        while cname is not None and seen < 6:
            ci = self.classes.get(cname)
            if ci is None:
                return None
            if mname in ci.methods:
                return ci, ci.methods[mname]
            cname = ci.base
            seen += 1
        return None

    def member_const(self, cname, mname):
        ci = self.classes.get(cname)
        if ci is not None and ci.str_values:
            for n, v in ci.str_values:
                if n == mname:
                    return (f'(.const (.obj {self.ident(cname)} [(K.value, {self.val(v)}), (K.name, {self.val(n)})]))')
        if ci is not None and ci.is_enum:
            for n, v in ci.members:
                if n == mname:
                    return f'(.const (.enum {self.ident(cname)} {self.int_lit(v)}))'
        return None

    @staticmethod
    def int_lit(v):
        return f'({v})' if v < 0 else str(v)

    def val(self, v):
        if v is None:
            return '.none'
        if v is True:
            return '(.bool true)'
        if v is False:
            return '(.bool false)'
        if type(v) is int:
            return f'(.int {self.int_lit(v)})'
        if type(v) is str:
            return f'(.str {self.chars(v)})'
        if type(v) is tuple:
            return '(.tuple [' + ', '.join(self.val(x) for x in v) + '])'
        raise Skip(f'value {v!r}')

    @staticmethod
    def chars(s):
        out = []
        for ch in s:
            if ch == "'":
                out.append("'\\''")
            elif ch == '\\':
                out.append("'\\\\'")
            elif ch == '\n':
                out.append("'\\n'")
            elif ch == '\t':
                out.append("'\\t'")
            elif ch == '\r':
                out.append("'\\r'")
            elif ord(ch) < 0x20 or ord(ch) == 0x7f:
                out.append(f'(Char.ofNat {ord(ch)})')
            else:
                out.append(f"'{ch}'")
        return '[' + ', '.join(out) + ']'

    # ------------------------------------------------------------------ expressions
    def const_default(self, node, cname):
        """constant default value of a parameter / field -> Lean Val"""
        if node is None:
            raise Skip('no default')
        if isinstance(node, ast.Attribute) and isinstance(node.value, ast.Name):
            ci = self.classes.get(node.value.id)
            if ci is not None and ci.is_enum:
                for n, v in ci.members:
                    if n == node.attr:
                        return f'(.enum {self.ident(ci.name)} {self.int_lit(v)})'
        return self.val(self.literal(node))

    def args_for(self, params, defaults_ast, call, cname, skip_first=0, what=''):
        """positional argument expressions for `call` against the parameter list (keywords and gaps filled in)"""
        names = [a.arg for a in params.args][skip_first:]
        ndef = len(params.defaults)
        defaults = {}
        for a, d in zip(params.args[len(params.args) - ndef:], params.defaults):
            defaults[a.arg] = d
        if params.vararg or params.kwarg or params.kwonlyargs:
            raise Skip(f'{what}: *args / **kwargs / keyword-only parameters')
        return self.fill_args(names, defaults, call, cname, what)

    def fill_args(self, names, defaults, call, cname, what):
        if any(isinstance(a, ast.Starred) for a in call.args) or any(k.arg is None for k in call.keywords):
            raise Skip(f'{what}: star arguments')
        if len(call.args) > len(names):
            raise Skip(f'{what}: too many arguments')
        given = {}
        for n, a in zip(names, call.args):
            given[n] = self.expr(a)
        for k in call.keywords:
            if k.arg not in names or k.arg in given:
                raise Skip(f'{what}: bad keyword {k.arg}')
            given[k.arg] = self.expr(k.value)
        out = []
        last = max((names.index(n) for n in given), default=-1)
        for i, n in enumerate(names[:last + 1]):
            if n in given:
                out.append(given[n])
            else:
                if n not in defaults:
                    raise Skip(f'{what}: missing argument {n}')
                out.append(f'(.const {self.const_default(defaults[n], cname)})')
        return out

    def elist(self, xs):
        return '[' + ', '.join(xs) + ']'

    def expr(self, node):
        e = self._expr(node)
        return e

    def _expr(self, node):
        cname = self.cur_class
        if isinstance(node, ast.Constant):
            if type(node.value) in (int, bool, str) or node.value is None:
                return f'(.const {self.val(node.value)})'
            raise Skip(f'constant {node.value!r}')
        if isinstance(node, ast.Name):
            if node.id in self.locals:
                return f'(.var {self.ident(node.id)})'
            if node.id in self.globals:
                return f'(.var {self.ident(node.id)})'
            if node.id in self.classes:
                return f'(.const (.cls {self.ident(node.id)}))'
            if node.id == 'cls' and self.cur_kind == 'classmethod':
                return f'(.const (.cls {self.ident(cname)}))'
            raise Skip(f'unknown name {node.id}')
        if isinstance(node, ast.Attribute):
            if isinstance(node.value, ast.Name):
                target = node.value.id
                if target == 'cls' and self.cur_kind == 'classmethod' and 'cls' not in self.locals_assigned:
                    target = cname
                if target in self.classes and target not in self.locals:
                    mc = self.member_const(target, node.attr)
                    if mc is not None:
                        return mc
                    raise Skip(f'class attribute {target}.{node.attr}')
            return f'(.attr {self.expr(node.value)} {self.ident(node.attr)})'
        if isinstance(node, ast.BinOp):
            op = {ast.Add: '.add', ast.Sub: '.sub', ast.Mult: '.mul', ast.FloorDiv: '.fdiv', ast.Mod: '.mod'}.get(type(node.op))
            if op is None:
                raise Skip(f'operator {type(node.op).__name__}')
            return f'(.binop {op} {self.expr(node.left)} {self.expr(node.right)})'
        if isinstance(node, ast.UnaryOp):
            if isinstance(node.op, ast.Not):
                return f'(.not {self.expr(node.operand)})'
            if isinstance(node.op, ast.USub):
                if isinstance(node.operand, ast.Constant) and type(node.operand.value) is int:
                    return f'(.const (.int ({-node.operand.value})))'
                return f'(.neg {self.expr(node.operand)})'
            raise Skip(f'unary {type(node.op).__name__}')
        if isinstance(node, ast.BoolOp):
            ctor = '.and' if isinstance(node.op, ast.And) else '.or'
            parts = [self.expr(v) for v in node.values]
            out = parts[-1]
            for p in reversed(parts[:-1]):
                out = f'({ctor} {p} {out})'
            return out
        if isinstance(node, ast.Compare):
            ops = {ast.Eq: '.eq', ast.NotEq: '.ne', ast.Lt: '.lt', ast.LtE: '.le', ast.Gt: '.gt', ast.GtE: '.ge', ast.Is: '.is',
                   ast.IsNot: '.isNot', ast.In: '.inn', ast.NotIn: '.notIn'}
            operands = [node.left] + list(node.comparators)
            parts = []
            for op, a, b in zip(node.ops, operands, operands[1:]):
                o = ops.get(type(op))
                if o is None:
                    raise Skip(f'comparison {type(op).__name__}')
                if o in ('.is', '.isNot') and not (self.identity_ok(a) or self.identity_ok(b)):
                    raise Skip('`is` between values that are neither None, an Enum member nor a class')
                parts.append(f'(.cmp {o} {self.expr(a)} {self.expr(b)})')
            out = parts[-1]
            for p in reversed(parts[:-1]):
                out = f'(.and {p} {out})'
            return out
        if isinstance(node, ast.IfExp):
            return f'(.ifexp {self.expr(node.test)} {self.expr(node.body)} {self.expr(node.orelse)})'
        if isinstance(node, ast.Subscript):
            if isinstance(node.value, ast.Name) and node.value.id in self.classes and node.value.id not in self.locals \
                    and self.classes[node.value.id].is_enum:
                return f'(.byName {self.ident(node.value.id)} {self.expr(node.slice)})'
            if isinstance(node.slice, ast.Slice):
                if node.slice.step is not None:
                    raise Skip('slice step')
                lo = f'(some {self.expr(node.slice.lower)})' if node.slice.lower is not None else 'none'
                hi = f'(some {self.expr(node.slice.upper)})' if node.slice.upper is not None else 'none'
                return f'(.slice {self.expr(node.value)} {lo} {hi})'
            return f'(.index {self.expr(node.value)} {self.expr(node.slice)})'
        if isinstance(node, (ast.Tuple, ast.List, ast.Set)):
            return f'(.tuple {self.elist([self.expr(e) for e in node.elts])})'
        if isinstance(node, ast.JoinedStr):
            parts = []
            for v in node.values:
                if isinstance(v, ast.Constant):
                    parts.append(f'(.const {self.val(v.value)})')
                elif isinstance(v, ast.FormattedValue):
                    if v.format_spec is not None or v.conversion != -1:
                        raise Skip('f-string format spec')
                    parts.append(self.expr(v.value))
                else:
                    raise Skip('f-string part')
            return f'(.fstr {self.elist(parts)})'
        if isinstance(node, ast.Dict):
            if any(k is None for k in node.keys):
                raise Skip('dict unpacking')
            return '(.dictOf [' + ', '.join(f'({self.expr(k)}, {self.expr(v)})' for k, v in zip(node.keys, node.values)) + '])'
        if isinstance(node, (ast.ListComp, ast.SetComp)):
            if len(node.generators) != 1 or node.generators[0].is_async or len(node.generators[0].ifs) > 1:
                raise Skip('comprehension shape')
            g = node.generators[0]
            it = self.expr(g.iter)
            if isinstance(g.target, ast.Name):
                self.locals.add(g.target.id)
                cond = f'(some {self.expr(g.ifs[0])})' if g.ifs else 'none'
                body = self.expr(node.elt)
                out = f'(.comp {self.ident(g.target.id)} {it} {cond} {body})'
                plain = isinstance(node.elt, ast.Name) and node.elt.id == g.target.id
            elif isinstance(g.target, ast.Tuple) and all(isinstance(e, ast.Name) for e in g.target.elts):
                for e in g.target.elts:
                    self.locals.add(e.id)
                cond = f'(some {self.expr(g.ifs[0])})' if g.ifs else 'none'
                body = self.expr(node.elt)
                out = f'(.compT {self.elist([self.ident(e.id) for e in g.target.elts])} {it} {cond} {body})'
                plain = False
            else:
                raise Skip('comprehension target')
            if isinstance(node, ast.SetComp) and not plain:
                out = f'(.builtin .set [{out}])'          # a set comprehension that maps its elements may merge some
            return out
        if isinstance(node, ast.DictComp):
            if len(node.generators) != 1 or node.generators[0].ifs:
                raise Skip('dict comprehension shape')
            g = node.generators[0]
            it = self.expr(g.iter)
            if isinstance(g.target, ast.Name):
                self.locals.add(g.target.id)
                return f'(.dictComp {self.ident(g.target.id)} {it} {self.expr(node.key)} {self.expr(node.value)})'
            if isinstance(g.target, ast.Tuple) and all(isinstance(e, ast.Name) for e in g.target.elts):
                for e in g.target.elts:
                    self.locals.add(e.id)
                return (f'(.dictCompT {self.elist([self.ident(e.id) for e in g.target.elts])} {it} '
                        f'{self.expr(node.key)} {self.expr(node.value)})')
            raise Skip('dict comprehension target')
        if isinstance(node, ast.Call):
            return self.call_expr(node)
        raise Skip(f'expression {type(node).__name__}')

    def identity_ok(self, node):
        if isinstance(node, ast.Constant) and node.value is None:
            return True
        if isinstance(node, ast.Attribute) and isinstance(node.value, ast.Name):
            t = node.value.id
            if t == 'cls' and self.cur_kind == 'classmethod':
                t = self.cur_class
            if t in self.classes and self.member_const(t, node.attr) is not None:
                return True
        # `x is suit` between two Enum-typed values appears in the core (card.suit is suit): identity of Enum members is
        # equality of members; admitted when an operand is a plain name / attribute chain (never a literal number / string)
        if isinstance(node, (ast.Name, ast.Attribute)):
            return True
        return False

    def is_super_call(self, node):
        return isinstance(node, ast.Call) and isinstance(node.func, ast.Name) and node.func.id == 'super' and not node.args

    def call_expr(self, node):
        cname = self.cur_class
        f = node.func
        if isinstance(f, ast.Name):
            if f.id in self.locals:
                raise Skip(f'call of a local {f.id}')
            if f.id == 'isinstance':
                if len(node.args) != 2 or node.keywords:
                    raise Skip('isinstance shape')
                return f'(.builtin .isinstance [{self.expr(node.args[0])}, {self.expr(node.args[1])}])'
            if f.id == 'sorted':
                rev = False
                for k in node.keywords:
                    if k.arg == 'reverse' and isinstance(k.value, ast.Constant) and type(k.value.value) is bool:
                        rev = k.value.value
                    else:
                        raise Skip('sorted() with key= / a computed reverse=')
                if len(node.args) != 1:
                    raise Skip('sorted shape')
                return f'(.builtin .{"sortedDesc" if rev else "sorted"} [{self.expr(node.args[0])}])'
            if f.id == 'dict' and not node.args and not node.keywords:
                return '(.dictOf [])'
            if f.id == 'zip' and len(node.args) == 2 and not node.keywords:
                return f'(.builtin .zip [{self.expr(node.args[0])}, {self.expr(node.args[1])}])'
            if f.id == 'map' and len(node.args) == 2 and not node.keywords and isinstance(node.args[0], ast.Lambda) \
                    and len(node.args[0].args.args) == 1 and not node.args[0].args.defaults:
                # map(lambda x: e, it) = [e for x in it]
                x = node.args[0].args.args[0].arg
                it = self.expr(node.args[1])
                self.locals.add(x)
                return f'(.comp {self.ident(x)} {it} none {self.expr(node.args[0].body)})'
            if f.id in BUILTINS:
                if node.keywords:
                    raise Skip(f'{f.id} with keywords')
                return f'(.builtin .{BUILTINS[f.id]} {self.elist([self.expr(a) for a in node.args])})'
            if f.id in self.classes:
                return self.construct(f.id, node)
            if f.id in self.functions:
                fd = self.functions[f.id]
                args = self.args_for(fd.args, None, node, cname, what=f.id)
                return f'(.call {self.ident(f.id)} {self.elist(args)})'
            raise Skip(f'call of {f.id}')
        if isinstance(f, ast.Attribute):
            if isinstance(f.value, ast.Name) and f.value.id == 'json' and f.attr == 'dumps' and len(node.args) == 1 \
                    and all(k.arg == 'indent' and isinstance(k.value, ast.Constant) and k.value.value is None
                            for k in node.keywords):
                return f'(.builtin .jsonDumps [{self.expr(node.args[0])}])'
            if isinstance(f.value, ast.Name) and f.value.id == 'json' and f.attr == 'load' and len(node.args) == 1 \
                    and not node.keywords:
                # the text of the file object = its chunks joined (see PRELUDE)
                return ('(.builtin .jsonLoads [(.builtin .join [(.const (.str [])), (.attr ' + self.expr(node.args[0]) +
                        f' {self.ident("buf")})])])')
            # copy.deepcopy(x): values are immutable in MiniPy, a deep copy is the value itself
            if isinstance(f.value, ast.Name) and f.value.id == 'copy' and f.attr == 'deepcopy' and len(node.args) == 1 \
                    and not node.keywords and 'copy' not in self.locals:
                return self.expr(node.args[0])
            # np.ones(n)
            if isinstance(f.value, ast.Name) and f.value.id == 'np' and f.attr == 'ones' and len(node.args) >= 1 \
                    and all(k.arg == 'dtype' for k in node.keywords) and len(node.args) <= 2:
                # the element type (float by default, or `dtype=int` / `bool`) is not modelled: a vector of ones
                return f'(.builtin .npOnes [{self.expr(node.args[0])}])'
            # Class.m(..) / cls.m(..)
            if isinstance(f.value, ast.Name):
                t = f.value.id
                if t == 'cls' and self.cur_kind == 'classmethod':
                    t = cname
                if t in self.classes and t not in self.locals:
                    return self.static_call(t, f.attr, node, explicit_self=None)
            # super().m(..)
            if self.is_super_call(f.value):
                base = self.classes[cname].base
                if base is None:
                    raise Skip('super() without a translated base class')
                return self.static_call(base, f.attr, node, explicit_self='(.var K.self)')
            # self.m(..) where m is a static / class method
            if isinstance(f.value, ast.Name) and f.value.id == 'self' and cname is not None:
                r = self.find_method(cname, f.attr)
                if r is not None and r[1][1] in ('staticmethod', 'classmethod'):
                    return self.static_call(cname, f.attr, node, explicit_self=None)
                if r is not None:
                    if r[1][1] != 'instance':
                        raise Skip(f'call of {r[1][1]} {f.attr}')
                    if (r[0].name, f.attr) in self.mutating:
                        raise Skip(f'mutating method {f.attr} used in an expression')
                    args = self.args_for(r[1][0].args, None, node, cname, skip_first=1, what=f.attr)
                    return f'(.meth {self.expr(f.value)} {self.ident(f.attr)} {self.elist(args)})'
            if f.attr == 'join' and isinstance(f.value, ast.Constant) and isinstance(f.value.value, str) \
                    and len(node.args) == 1 and not node.keywords:
                return f'(.builtin .join [{self.expr(f.value)}, {self.expr(node.args[0])}])'
            if f.attr in ('lower', 'upper', 'capitalize') and not node.args and not node.keywords:
                return f'(.builtin .{f.attr} [{self.expr(f.value)}])'
            if f.attr == 'replace' and len(node.args) == 2 and not node.keywords:
                return f'(.builtin .replace [{self.expr(f.value)}, {self.expr(node.args[0])}, {self.expr(node.args[1])}])'
            if f.attr == 'find' and len(node.args) == 1 and not node.keywords:
                return f'(.builtin .find [{self.expr(f.value)}, {self.expr(node.args[0])}])'
            if f.attr == 'lstrip' and not node.args and not node.keywords:
                return f'(.builtin .lstrip [{self.expr(f.value)}])'
            if f.attr == 'split' and len(node.args) == 2 and not node.keywords and isinstance(node.args[1], ast.Constant) \
                    and node.args[1].value == 1:
                return f'(.builtin .splitOnce [{self.expr(f.value)}, {self.expr(node.args[0])}])'
            if f.attr == 'split' and len(node.args) == 1 and not node.keywords:
                return f'(.builtin .split [{self.expr(f.value)}, {self.expr(node.args[0])}])'
            if isinstance(f.value, ast.Name) and f.value.id == 're' and 're' not in self.locals:
                return self.re_call(f.attr, node)
            if f.attr == 'isupper' and not node.args and not node.keywords:
                return f'(.builtin .isupper [{self.expr(f.value)}])'
            if f.attr == 'items' and not node.args and not node.keywords \
                    and not any('items' in ci.methods for ci in self.classes.values()):
                return f'(.builtin .items [{self.expr(f.value)}])'
            if f.attr in ('append', 'add', 'remove', 'items', 'keys', 'values', 'lower', 'upper', 'replace', 'split', 'join',
                          'format', 'strip', 'copy', 'get', 'pop', 'extend', 'sort'):
                raise Skip(f'container / string method .{f.attr}() in an expression')
            # a local whose class is known (`env = BiddingPhase(..)`): the method of THAT class
            if isinstance(f.value, ast.Name) and self.local_types.get(f.value.id):
                r = self.find_method(self.local_types[f.value.id], f.attr)
                if r is not None and r[1][1] == 'instance':
                    if (r[0].name, f.attr) in self.mutating:
                        raise Skip(f'mutating method {f.attr} used in an expression')
                    args = self.args_for(r[1][0].args, None, node, cname, skip_first=1, what=f.attr)
                    return f'(.meth {self.expr(f.value)} {self.ident(f.attr)} {self.elist(args)})'
            # dynamic dispatch on the receiver's class: only instance methods, positional arguments
            if node.keywords:
                raise Skip(f'keywords in a dynamically dispatched call .{f.attr}()')
            cands = [ci for ci in self.classes.values() if f.attr in ci.methods]
            if not cands:
                raise Skip(f'no translated class has a method {f.attr}')
            for ci in cands:
                if ci.methods[f.attr][1] != 'instance':
                    raise Skip(f'.{f.attr}() may be a {ci.methods[f.attr][1]} of {ci.name}')
                if (ci.name, f.attr) in self.mutating:
                    raise Skip(f'mutating method {f.attr} used in an expression')
            return f'(.meth {self.expr(f.value)} {self.ident(f.attr)} {self.elist([self.expr(a) for a in node.args])})'
        raise Skip('call shape')

    def re_call(self, fn, node):
        """re.match / fullmatch / search / sub / findall with an optional re.IGNORECASE flag"""
        args = list(node.args)
        ic = False
        flags = [k.value for k in node.keywords if k.arg == 'flags']
        if any(k.arg not in ('flags',) for k in node.keywords):
            raise Skip(f're.{fn} with keywords')
        npos = {'match': 2, 'fullmatch': 2, 'search': 2, 'findall': 2, 'sub': 3}.get(fn)
        if npos is None:
            raise Skip(f're.{fn}')
        if len(args) == npos + 1:
            flags.append(args.pop())
        if len(args) != npos or len(flags) > 1:
            raise Skip(f're.{fn} argument shape')
        if flags:
            if ast.unparse(flags[0]) != 're.IGNORECASE':
                raise Skip(f're flags {ast.unparse(flags[0])}')
            ic = True
        icv = '(.const (.bool true))' if ic else '(.const (.bool false))'
        if fn == 'sub' and isinstance(args[1], ast.Lambda) and len(args[1].args.args) == 1 and not args[1].args.defaults:
            # re.sub(pat, lambda m: E, s) = ''.join(E if the piece is a match else the piece, for the pieces of s)
            x = args[1].args.args[0].arg
            pat, subj = self.expr(args[0]), self.expr(args[2])
            self.locals.add(x)
            body = self.expr(args[1].body)
            mcls = f'(.const (.cls {self.ident("_Match")}))'
            pieces = f'(.builtin .reSubPieces [{pat}, {subj}, {icv}, {mcls}, (.const (.int {self.ident("texts")}))])'
            return (f'(.builtin .join [(.const (.str [])), (.comp {self.ident(x)} {pieces} none '
                    f'(.ifexp (.builtin .isinstance [(.var {self.ident(x)}), {mcls}]) {body} (.var {self.ident(x)})))])')
        a = [self.expr(x) for x in args]
        if fn == 'search' and getattr(self, 'span_matches', False):
            return (f'(.builtin .reSearchSpan [{a[0]}, {a[1]}, {icv}, (.const (.cls {self.ident("_MatchS")})), '
                    f'(.const (.int {self.ident("texts")})), (.const (.int {self.ident("span")}))])')
        if fn in ('match', 'fullmatch', 'search'):
            return (f'(.builtin .re{fn.capitalize()} [{a[0]}, {a[1]}, {icv}, (.const (.cls {self.ident("_Match")})), '
                    f'(.const (.int {self.ident("texts")}))])')
        if fn == 'sub':
            return f'(.builtin .reSub [{a[0]}, {a[1]}, {a[2]}, {icv}])'
        return f'(.builtin .reFindall [{a[0]}, {a[1]}, {icv}])'

    def static_call(self, cname, mname, node, explicit_self):
        r = self.find_method(cname, mname)
        if r is None:
            raise Skip(f'{cname}.{mname} not found')
        ci, (fd, kind) = r
        if kind == 'staticmethod':
            args = self.args_for(fd.args, None, node, cname, what=mname)
        elif kind == 'classmethod':
            args = [f'(.const (.cls {self.ident(cname)}))'] + self.args_for(fd.args, None, node, cname, skip_first=1, what=mname)
        elif kind == 'instance' and explicit_self is not None:
            if (ci.name, mname) in self.mutating:
                raise Skip(f'mutating method {mname} used in an expression')
            args = [explicit_self] + self.args_for(fd.args, None, node, cname, skip_first=1, what=mname)
        else:
            raise Skip(f'{cname}.{mname} is a {kind}')
        return f'(.static {self.ident(ci.name)} {self.ident(mname)} {self.elist(args)})'

    def construct(self, cname, node):
        ci = self.classes[cname]
        if ci.is_enum:
            if len(node.args) != 1 or node.keywords:
                raise Skip('Enum call shape')
            return f'(.new {self.ident(cname)} [{self.expr(node.args[0])}])'
        if ci.is_dataclass:
            names = [n for n, _ in ci.fields]
            defaults = {n: d for n, d in ci.fields if d is not None}
            args = self.fill_args(names, defaults, node, cname, cname)
            return f'(.new {self.ident(cname)} {self.elist(args)})'
        r = self.find_method(cname, '__init__')
        if r is None:
            if node.args or node.keywords:
                raise Skip(f'{cname}() with arguments but no __init__')
            return f'(.new {self.ident(cname)} [])'
        args = self.args_for(r[1][0].args, None, node, cname, skip_first=1, what=cname)
        return f'(.new {self.ident(cname)} {self.elist(args)})'

    # ------------------------------------------------------------------ statements
    def target(self, node):
        if isinstance(node, ast.Name):
            return f'(.var {self.ident(node.id)})'
        if isinstance(node, ast.Attribute):
            return f'(.attr {self.target(node.value)} {self.ident(node.attr)})'
        if isinstance(node, ast.Subscript) and not isinstance(node.slice, ast.Slice):
            return f'(.index {self.target(node.value)} {self.expr(node.slice)})'
        raise Skip(f'assignment target {type(node).__name__}')

    def is_path(self, node):
        if isinstance(node, ast.Name):
            return node.id in self.locals
        if isinstance(node, ast.Attribute):
            return self.is_path(node.value)
        if isinstance(node, ast.Subscript) and not isinstance(node.slice, ast.Slice):
            return self.is_path(node.value)
        return False

    def bind_target_names(self, node):
        if isinstance(node, ast.Name):
            self.locals.add(node.id)
        elif isinstance(node, (ast.Tuple, ast.List)):
            for e in node.elts:
                self.bind_target_names(e)

    def stmts(self, body):
        out = []
        for st in body:
            s = self.stmt(st)
            if s is not None:
                out.append(s)
        return '[' + ',\n'.join(out) + ']' if out else '[]'

    def stmt(self, st):
        if isinstance(st, ast.Expr):
            if isinstance(st.value, ast.Constant) and isinstance(st.value.value, str):
                return None                                        # docstring
            if isinstance(st.value, ast.Call) and isinstance(st.value.func, ast.Attribute) and \
                    isinstance(st.value.func.value, ast.Name) and st.value.func.value.id == 'logger' and 'logger' not in self.locals:
                return None                                        # a log call: no effect on the values
            if isinstance(st.value, ast.Call):
                return self.call_stmt(st.value)
            return f'(.expr {self.expr(st.value)})'
        if isinstance(st, (ast.Assign, ast.AnnAssign)):
            if isinstance(st, ast.AnnAssign):
                if st.value is None:
                    return None
                targets = [st.target]
            else:
                targets = st.targets
            if len(targets) != 1:
                raise Skip('chained assignment')
            t = targets[0]
            if isinstance(t, (ast.Tuple, ast.List)):
                e = self.expr(st.value)
                self.bind_target_names(t)
                return f'(.unpack {self.elist([self.target(x) for x in t.elts])} {e})'
            if isinstance(t, ast.Subscript) and isinstance(t.slice, ast.Slice):
                if t.slice.step is not None:
                    raise Skip('slice step')
                lo = f'(some {self.expr(t.slice.lower)})' if t.slice.lower is not None else 'none'
                hi = f'(some {self.expr(t.slice.upper)})' if t.slice.upper is not None else 'none'
                return f'(.sliceFill {self.target(t.value)} {lo} {hi} {self.expr(st.value)})'
            if isinstance(t, ast.Name) and isinstance(st.value, ast.Call) and isinstance(st.value.func, ast.Name) \
                    and st.value.func.id in self.classes and st.value.func.id not in self.locals:
                # `x = C(...)`: the class of the local is known from here on (unless it is assigned something else)
                if self.local_types.get(t.id, st.value.func.id) == st.value.func.id:
                    self.local_types[t.id] = st.value.func.id
                else:
                    self.local_types[t.id] = None
            elif isinstance(t, ast.Name):
                self.local_types[t.id] = None
            mc = self.mutating_call(st.value)
            if mc is not None:
                recv, mname, args = mc
                self.bind_target_names(t)
                return f'(.callMutRet {self.target(t)} {recv} {self.ident(mname)} {self.elist(args)})'
            e = self.expr(st.value)
            self.bind_target_names(t)
            return f'(.assign {self.target(t)} {e})'
        if isinstance(st, ast.AugAssign):
            op = {ast.Add: '.add', ast.Sub: '.sub', ast.Mult: '.mul', ast.FloorDiv: '.fdiv', ast.Mod: '.mod'}.get(type(st.op))
            if op is None:
                raise Skip(f'augmented {type(st.op).__name__}')
            return f'(.assign {self.target(st.target)} (.binop {op} {self.expr(st.target)} {self.expr(st.value)}))'
        if isinstance(st, ast.If):
            c = self.expr(st.test)
            return f'(.ite {c}\n{self.stmts(st.body)}\n{self.stmts(st.orelse)})'
        if isinstance(st, ast.While):
            if st.orelse:
                raise Skip('while-else')
            return f'(.while {self.expr(st.test)}\n{self.stmts(st.body)})'
        if isinstance(st, ast.For):
            if st.orelse:
                raise Skip('for-else')
            mc = self.mutating_call(st.iter)
            pre = None
            if mc is not None:
                # `for x in recv.m(..)` where m mutates its receiver (a generator method re-written to return its list):
                # the call first (receiver written back), then the loop over what it returned
                recv, mname, margs = mc
                self.gen_tmp = getattr(self, 'gen_tmp', 0) + 1
                tmp = f'_it{self.gen_tmp}'
                self.locals.add(tmp)
                pre = f'(.callMutRet (.var {self.ident(tmp)}) {recv} {self.ident(mname)} {self.elist(margs)})'
                it = f'(.var {self.ident(tmp)})'
            else:
                it = self.expr(st.iter)
            if isinstance(st.target, ast.Name):
                names = [st.target.id]
            elif isinstance(st.target, ast.Tuple) and all(isinstance(e, ast.Name) for e in st.target.elts):
                names = [e.id for e in st.target.elts]
            else:
                raise Skip('for target')
            for n in names:
                self.locals.add(n)
            loop = f'(.for {self.elist([self.ident(n) for n in names])} {it}\n{self.stmts(st.body)})'
            if pre is not None:
                return f'(.ite (.const (.bool true))\n[{pre},\n{loop}]\n[])'
            return loop
        if isinstance(st, ast.Return):
            return f'(.ret {self.expr(st.value) if st.value is not None else "(.const .none)"})'
        if isinstance(st, ast.Raise):
            exc = st.exc
            if isinstance(exc, ast.Call):
                exc = exc.func
            if isinstance(exc, ast.Name) and exc.id in EXCEPTIONS:
                return f'(.raise K.{exc.id})'
            if isinstance(exc, ast.Name) and exc.id[:1].isupper() and exc.id not in self.locals:
                return f'(.raise {self.ident(exc.id)})'            # any other exception class, by its name
            raise Skip('raise shape')
        if isinstance(st, ast.Assert):
            return f'(.assert {self.expr(st.test)})'
        if isinstance(st, ast.Break):
            return '.brk'
        if isinstance(st, ast.Continue):
            return '.cont'
        if isinstance(st, ast.Pass):
            return '.pass'
        raise Skip(f'statement {type(st).__name__}')

    def mutating_call(self, node):
        """`recv.m(args)` where recv is a path and m a MUTATING instance method -> (receiver target, m, argument expressions);
        used for `x = recv.m(args)`: the receiver is written back and the result assigned (Stmt.callMutRet)"""
        if not (isinstance(node, ast.Call) and isinstance(node.func, ast.Attribute)):
            return None
        f = node.func
        if not self.is_path(f.value):
            return None
        cname = self.cur_class
        if isinstance(f.value, ast.Name) and f.value.id == 'self' and cname is not None:
            r = self.find_method(cname, f.attr)
            if r is not None and r[1][1] == 'instance' and (r[0].name, f.attr) in self.mutating:
                args = self.args_for(r[1][0].args, None, node, cname, skip_first=1, what=f.attr)
                return self.target(f.value), f.attr, args
            return None
        cands = [ci for ci in self.classes.values() if f.attr in ci.methods]
        if cands and all(ci.methods[f.attr][1] == 'instance' for ci in cands) and \
                all((ci.name, f.attr) in self.mutating for ci in cands):
            if len(cands) == 1:
                args = self.args_for(cands[0].methods[f.attr][0].args, None, node, cname, skip_first=1, what=f.attr)
            elif node.keywords:
                raise Skip(f'keywords in a dynamically dispatched mutating call .{f.attr}()')
            else:
                args = [self.expr(a) for a in node.args]
            return self.target(f.value), f.attr, args
        return None

    def call_stmt(self, call):
        cname = self.cur_class
        f = call.func
        if isinstance(f, ast.Attribute):
            if f.attr in ('append', 'add', 'remove') and self.is_path(f.value) and len(call.args) == 1 and not call.keywords:
                return f'(.mut {self.target(f.value)} .{f.attr} {self.expr(call.args[0])})'
            if self.is_super_call(f.value):
                base = self.classes[cname].base
                r = self.find_method(base, f.attr) if base else None
                if r is None:
                    raise Skip(f'super().{f.attr} not found')
                ci, (fd, kind) = r
                if kind == 'instance':
                    args = ['(.var K.self)'] + self.args_for(fd.args, None, call, cname, skip_first=1, what=f.attr)
                    return f'(.callMutStatic {self.ident(ci.name)} {self.ident(f.attr)} {self.elist(args)})'
                return f'(.expr {self.call_expr(call)})'
            if self.is_path(f.value):
                # which classes could the receiver be? — a method statement on a path writes the receiver back
                if isinstance(f.value, ast.Name) and f.value.id == 'self':
                    r = self.find_method(cname, f.attr)
                    if r is not None and r[1][1] == 'instance':
                        args = self.args_for(r[1][0].args, None, call, cname, skip_first=1, what=f.attr)
                        return f'(.callMut (.var K.self) {self.ident(f.attr)} {self.elist(args)})'
                    if r is not None:
                        return f'(.expr {self.call_expr(call)})'
                cands = [ci for ci in self.classes.values() if f.attr in ci.methods]
                if cands and all(ci.methods[f.attr][1] == 'instance' for ci in cands) and not call.keywords:
                    return f'(.callMut {self.target(f.value)} {self.ident(f.attr)} {self.elist([self.expr(a) for a in call.args])})'
        return f'(.expr {self.call_expr(call)})'

    # ------------------------------------------------------------------ functions
    def compute_mutating(self):
        """methods that assign through `self` (directly or by calling such a method as a statement)"""
        mut = set()
        changed = True
        while changed:
            changed = False
            for ci in self.classes.values():
                for mname, (fd, kind) in ci.methods.items():
                    if (ci.name, mname) in mut or kind != 'instance':
                        continue
                    if self.body_mutates(fd, ci, mut):
                        mut.add((ci.name, mname))
                        changed = True
        return mut

    def body_mutates(self, fd, ci, mut):
        def rooted_self(n):
            while isinstance(n, (ast.Attribute, ast.Subscript)):
                n = n.value
            return isinstance(n, ast.Name) and n.id == 'self'
        for n in ast.walk(fd):
            if isinstance(n, ast.Assign) and isinstance(n.value, ast.Call) and isinstance(n.value.func, ast.Attribute) \
                    and rooted_self(n.value.func.value):
                f = n.value.func
                if isinstance(f.value, ast.Name):
                    r = self.find_method(ci.name, f.attr)
                    if r is not None and (r[0].name, f.attr) in mut:
                        return True
                elif any((c.name, f.attr) in mut for c in self.classes.values()):
                    return True
            if isinstance(n, (ast.Assign, ast.AugAssign, ast.AnnAssign)):
                ts = n.targets if isinstance(n, ast.Assign) else [n.target]
                for t in ts:
                    for tt in (t.elts if isinstance(t, (ast.Tuple, ast.List)) else [t]):
                        if not isinstance(tt, ast.Name) and rooted_self(tt):
                            return True
            if isinstance(n, ast.Expr) and isinstance(n.value, ast.Call) and isinstance(n.value.func, ast.Attribute):
                f = n.value.func
                if f.attr in ('append', 'add', 'remove') and rooted_self(f.value):
                    return True
                if self.is_super_call(f.value):
                    r = self.find_method(ci.base, f.attr) if ci.base else None
                    if r is not None and (r[0].name, f.attr) in mut:
                        return True
                if rooted_self(f.value):
                    if isinstance(f.value, ast.Name):
                        r = self.find_method(ci.name, f.attr)
                        if r is not None and (r[0].name, f.attr) in mut:
                            return True
                    elif any((c.name, f.attr) in mut for c in self.classes.values()):
                        return True
        return False

    def func(self, fd, cname, kind):
        self.cur_class, self.cur_kind = cname, kind
        ci_ = self.classes.get(cname) if cname else None
        self.span_matches = bool(ci_ and ci_.module == 'data_handler/pbn_handler/parser')
        self.gen_tmp = 0
        a = fd.args
        if a.vararg or a.kwarg or a.kwonlyargs or a.posonlyargs:
            raise Skip('parameter kinds')
        params = [x.arg for x in a.args]
        self.locals = set(params)
        self.local_types = {}
        self.locals_assigned = set()
        for n in ast.walk(fd):
            if isinstance(n, ast.Name) and isinstance(n.ctx, ast.Store):
                self.locals_assigned.add(n.id)
        if kind in ('instance', 'property') and (not params or params[0] != 'self'):
            raise Skip('first parameter is not self')
        if kind == 'classmethod' and (not params or params[0] != 'cls'):
            raise Skip('first parameter is not cls')
        if kind.startswith('unsupported'):
            raise Skip(kind)
        if any(isinstance(n, ast.Yield) for n in ast.walk(fd)):
            fd = self.degenerate(fd)
        for n in ast.walk(fd):
            if isinstance(n, (ast.FunctionDef, ast.Try, ast.With, ast.Yield, ast.YieldFrom, ast.Global, ast.Nonlocal,
                              ast.Delete, ast.Import, ast.ImportFrom, ast.ClassDef, ast.AsyncFunctionDef, ast.Await)) and n is not fd:
                raise Skip(f'{type(n).__name__} in the body')
        defaults = []
        nd = len(a.defaults)
        for p, d in zip(a.args[len(a.args) - nd:], a.defaults):
            defaults.append(f'({self.ident(p.arg)}, {self.const_default(d, cname)})')
        body = self.stmts(fd.body)
        body = body.replace('\n', '\n      ')
        return ('{\n  params := ' + self.elist([self.ident(p) for p in params]) + ',\n  defaults := ' + self.elist(defaults) +
                ',\n  body := ' + body + ' }')

    def degenerate(self, fd):
        """a generator function as the function returning the list of what it yields (its consumers are `for` loops that
        run it to the end; side effects of the generator on `self` all happen before the loop body — adequate when the body
        does not touch what the generator touches, which holds for `parse_all` / `parse_board_settings`)"""
        import copy as _copy
        fd = _copy.deepcopy(fd)

        class T(ast.NodeTransformer):
            def visit_Expr(self, node):
                if isinstance(node.value, ast.Yield):
                    return ast.Expr(value=ast.Call(func=ast.Attribute(value=ast.Name(id='_out', ctx=ast.Load()), attr='append',
                                                                      ctx=ast.Load()), args=[node.value.value], keywords=[]))
                return node

            def visit_Return(self, node):
                if node.value is None:
                    return ast.Return(value=ast.Name(id='_out', ctx=ast.Load()))
                return node
        fd = T().visit(fd)
        fd.body = [ast.Assign(targets=[ast.Name(id='_out', ctx=ast.Store())], value=ast.List(elts=[], ctx=ast.Load()), lineno=0)] + \
            fd.body + [ast.Return(value=ast.Name(id='_out', ctx=ast.Load()))]
        ast.fix_missing_locations(fd)
        return fd

    # ------------------------------------------------------------------ output
    GROUPS = [('Base', ['_prelude', 'suit', 'pair', 'vul', 'player', 'bid', 'card', 'contract', 'score'], 100),
              ('Auction', ['bidding_phase'], 2000),
              ('Play', ['playing_phase'], 3000),
              ('Hands', ['hands'], 4000),
              ('Json', ['data_handler/abstract_classes', 'data_handler/pbn_handler/__init__',
                        'data_handler/pbn_handler/writer',
                        'data_handler/json_handler/writer', 'data_handler/json_handler/parser'], 5000),
              ('Net', ['network_bridge/bidding_system', 'network_bridge/socket_interface', 'network_bridge/server',
                       'network_bridge/client'], 6000),
              ('Threads', ['_threads'], 7000),
              ('Pbn', ['_prelude_pbn', 'data_handler/pbn_handler/parser'], 8000)]

    def names_of(self, module):
        names = set()
        tree = ast.parse(self.source(module))
        sel = SELECT.get(module)
        if sel is not None:
            keep = []
            for node in tree.body:
                if isinstance(node, ast.ClassDef) and node.name in sel:
                    names.add(node.name)
                    keep += [st for st in node.body if isinstance(st, ast.FunctionDef) and st.name in sel[node.name]]
            tree = ast.Module(body=keep, type_ignores=[])
        for n in ast.walk(tree):
            if isinstance(n, ast.Name):
                names.add(n.id)
            elif isinstance(n, ast.Attribute):
                names.add(n.attr)
            elif isinstance(n, ast.arg):
                names.add(n.arg)
            elif isinstance(n, (ast.FunctionDef, ast.ClassDef)):
                names.add(n.name)
            elif isinstance(n, ast.keyword) and n.arg:
                names.add(n.arg)
        if module == 'data_handler/pbn_handler/parser':
            # names the translator itself introduces there (generator result, loop temporaries)
            names |= {'_out'} | {f'_it{k}' for k in range(1, 9)}
        return names

    def generate(self):
        """-> {file name: text}: PyCoreBase / PyCoreAuction / PyCorePlay (each imports the previous one; identifiers are
        numbered per group so that a change in a later group leaves the earlier files byte-identical) and PyCore (the union,
        for the driver and for the theorems about the two state machines)"""
        self.collect()
        self.mutating = self.compute_mutating()
        group_of_name = {}
        for gname, mods, start in self.GROUPS:
            fresh = set()
            for m in mods:
                fresh |= self.names_of(m)
            nxt = start
            for n in sorted(fresh):
                if n not in self.ids:
                    self.ids[n] = nxt
                    group_of_name[n] = gname
                    nxt += 1
        group_of_module = {m: g for g, mods, _ in self.GROUPS for m in mods}
        group_of_module.setdefault('_prelude', 'Base')
        defs = {g: [] for g, _, _ in self.GROUPS}
        funcs = []
        methods = {}
        skipped = {g: [] for g, _, _ in self.GROUPS}
        translated = set()
        func_module = {}
        for m in MODULES:
            if m in SELECT:
                continue
            tree = ast.parse(self.source(m))
            for node in tree.body:
                if isinstance(node, ast.FunctionDef):
                    func_module[node.name] = m
        for fname, fd in self.functions.items():
            g = group_of_module[func_module[fname]]
            try:
                body = self.func(fd, None, 'function')
            except Skip as e:
                skipped[g].append((fname, str(e)))
                continue
            defs[g].append(f'def f_{fname} : FuncDef := {body}\n')
            funcs.append((g, f'({self.ident(fname)}, f_{fname})'))
            translated.add(('', fname))
        for ci in self.classes.values():
            g = group_of_module[ci.module]
            for mname, (fd, kind) in ci.methods.items():
                try:
                    body = self.func(fd, ci.name, kind)
                except Skip as e:
                    skipped[g].append((f'{ci.name}.{mname}', str(e)))
                    continue
                lname = f'm_{ci.name}_{mname}'
                defs[g].append(f'def {lname} : FuncDef := {body}\n')
                methods.setdefault(ci.name, []).append(f'({self.ident(mname)}, {lname})')
                translated.add((ci.name, mname))
        # a constant class attribute (`TAG = 'logs'`) is read through an instance (`self.TAG`): a property returning it
        for ci in self.classes.values():
            g = group_of_module[ci.module]
            for a, v in ci.attrs:
                if a in ci.methods:
                    continue
                lname = f'm_{ci.name}_{a}'
                try:
                    defs[g].append(f'def {lname} : FuncDef := {{\n  params := [K.self],\n  defaults := [],\n  body := [(.ret (.const {self.val(v)}))] }}\n')
                except Skip:
                    continue
                methods.setdefault(ci.name, []).append(f'({self.ident(a)}, {lname})')
        self.skipped = [x for g, _, _ in self.GROUPS for x in skipped[g]]
        missing = [r for r in REQUIRED if r not in translated]
        if missing:
            why = {k: v for k, v in self.skipped}
            raise TranslationError('required functions outside the translated subset: ' +
                                   '; '.join(f'{c + "." if c else ""}{n}: {why.get((c + "." if c else "") + n, "not found")}'
                                             for c, n in missing))
        classes = {g: [] for g, _, _ in self.GROUPS}
        for ci in self.classes.values():
            members = '[' + ', '.join(f'({self.chars(n)}, {self.int_lit(v)})' for n, v in ci.members) + ']'
            fields = []
            for n, d in ci.fields:
                if d is None:
                    fields.append(f'({self.ident(n)}, none)')
                else:
                    try:
                        fields.append(f'({self.ident(n)}, some {self.const_default(d, ci.name)})')
                    except Skip:
                        raise TranslationError(f'default of {ci.name}.{n} is not a constant')
            base = f'some {self.ident(ci.base)}' if ci.base in self.classes else 'none'
            classes[group_of_module[ci.module]].append(
                f'({self.ident(ci.name)}, {{ name := {self.chars(ci.name)}, base := {base}, members := {members}, '
                f'fields := {self.elist(fields)}, isEnum := {"true" if ci.is_enum else "false"}, '
                f'isDataclass := {"true" if ci.is_dataclass else "false"}, methods := {self.elist(methods.get(ci.name, []))} }})')
        globs = {g: [] for g, _, _ in self.GROUPS}
        for gl, v in self.globals.items():
            try:
                globs[group_of_module[self.global_module[gl]]].append(f'({self.ident(gl)}, {self.val(v)})')
            except Skip:
                pass
        files = {}
        prev = 'BridgeVerif.Model.MiniPy'
        used = sorted(n for n in self.used_names if n not in K)
        for g, mods, _ in self.GROUPS:
            out = [HEADER % (prev, ', '.join(m + '.py' for m in mods))]
            mine = sorted(n for n, gg in group_of_name.items() if gg == g)     # all of them: the file depends on its modules only
            for n in mine:
                out.append(f'abbrev n_{n} : Id := {self.ids[n]}')
            out.append('')
            out.append(f'def names{g} : List (Id × String) := [' +
                       ', '.join(f'({self.ids[n]}, "{n}")' for n in sorted(mine, key=lambda x: self.ids[x])) + ']\n')
            out += defs[g]
            out.append(f'def classes{g} : List (Id × ClassDef) := [\n    ' + ',\n    '.join(classes[g]) + ']\n')
            out.append(f'def funcs{g} : List (Id × FuncDef) := [\n    ' + ',\n    '.join(t for gg, t in funcs if gg == g) + ']\n')
            out.append(f'def globals{g} : List (Id × Val) := [\n    ' + ',\n    '.join(globs[g]) + ']\n')
            if g == 'Base':
                out.append('/-- the value classes and the scoring functions -/')
                out.append('def programBase : Program := { classes := classesBase, funcs := funcsBase, globals := globalsBase }\n')
            if g == 'Threads' and getattr(self, 'threads_error', None):
                skipped[g].append(('(all thread classes)', self.threads_error))
            out.append(f'def skipped{g} : List (String × String) := [' +
                       ', '.join('("%s", "%s")' % (a, b.replace('\\', '\\\\').replace('"', '\\"')) for a, b in skipped[g]) + ']\n')
            out.append('end Bridge.Generated.PyCore\n')
            files[f'PyCore{g}.lean'] = '\n'.join(out)
            prev = f'BridgeVerif.Generated.PyCore{g}'
        gs = [g for g, _, _ in self.GROUPS]
        out = [HEADER % (prev, 'all of the above')]
        out.append('/-- identifier table (for the driver and for reading counterexamples) -/')
        out.append('def names : List (Id × String) := [' + ', '.join(f'({v}, "{k}")' for k, v in sorted(K.items(), key=lambda kv: kv[1])) +
                   '] ++ ' + ' ++ '.join(f'names{g}' for g in gs) + '\n')
        out.append('/-- the whole translated core: value classes, scoring, and the two state machines -/')
        out.append('def program : Program :=\n  { classes := ' + ' ++ '.join(f'classes{g}' for g in gs) + ',\n    funcs := ' +
                   ' ++ '.join(f'funcs{g}' for g in gs) + ',\n    globals := ' + ' ++ '.join(f'globals{g}' for g in gs) + ' }\n')
        out.append('/-- functions of the listed modules that are outside the translated subset, with the reason -/')
        out.append('def skipped : List (String × String) := ' + ' ++ '.join(f'skipped{g}' for g in gs) + '\n')
        out.append('end Bridge.Generated.PyCore\n')
        files['PyCore.lean'] = '\n'.join(out)
        return files


HEADER = '''import %s
/-!
GENERATED by harness/translate_py.py from bridge_env/ (%s) — do not edit.
Functions of the pure core as MiniPy definitions (Model/MiniPy.lean gives the meaning).
-/
set_option maxRecDepth 4000
namespace Bridge.Generated.PyCore
open Bridge.Py
'''


FILES = ['PyCoreBase.lean', 'PyCoreAuction.lean', 'PyCorePlay.lean', 'PyCoreHands.lean', 'PyCoreJson.lean', 'PyCoreNet.lean',
         'PyCoreThreads.lean', 'PyCorePbn.lean', 'PyCore.lean']


def generate(repo):
    return Translator(repo).generate()


def regenerate(repo, lean_dir):
    """(names of the files that changed, error)"""
    gdir = os.path.join(lean_dir, 'BridgeVerif', 'Generated')
    try:
        files = generate(repo)
    except (TranslationError, OSError, SyntaxError) as e:
        return [], f'core translation failed: {type(e).__name__}: {e}'
    changed = []
    os.makedirs(gdir, exist_ok=True)
    for name, text in files.items():
        path = os.path.join(gdir, name)
        old = open(path, encoding='utf-8').read() if os.path.exists(path) else None
        if old != text:
            tmp = path + '.tmp%d' % os.getpid()
            with open(tmp, 'w', encoding='utf-8') as f:
                f.write(text)
            os.replace(tmp, path)
            changed.append(name)
    return changed, None


if __name__ == '__main__':
    import sys
    repo = os.environ.get('BRIDGE_ENV_REPO', '/repo')
    lean = os.path.join(os.path.dirname(os.path.dirname(os.path.abspath(__file__))), 'lean')
    ch, err = regenerate(repo, lean)
    print('changed' if ch else 'unchanged', ch, err or '')
    sys.exit(1 if err else 0)
