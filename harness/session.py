"""Runs the unmodified Server (+ scripted or bundled clients) in-process under the deterministic
scheduler of sched.py.  Scenario generation (boards, conforming decisions) uses only the harness's own
independent statement of the rules (auction_common.law_*, play_common.law_winner)."""
import io
import logging
import json
import os
import random
import sys
import tempfile

import sched as S

S.install()     # must precede the import of bridge_env.network_bridge

import common  # noqa: E402
from auction_common import law_legal, law_state, PASS, X, XX  # noqa: E402
from play_common import law_winner  # noqa: E402

SEATS = ['N', 'E', 'S', 'W']
FORMAL = {'N': 'North', 'E': 'East', 'S': 'South', 'W': 'West'}
RANKS = '23456789TJQKA'
VULS = ['None', 'NS', 'EW', 'Both']


# ------------------------------------------------------------------ scenario generation
def recase(rng, s, p=0.3):
    if rng.random() > p:
        return s
    mode = rng.randrange(3)
    if mode == 0:
        return s.upper()
    if mode == 1:
        return s.lower()
    return ''.join(ch.upper() if rng.random() < 0.5 else ch.lower() for ch in s)


def call_text(rng, seat, c, fancy=True):
    name = FORMAL[seat]
    if c == PASS:
        body = 'passes'
    elif c == X:
        body = 'doubles'
    elif c == XX:
        body = 'redoubles'
    else:
        body = f'bids {c // 5 + 1}{["C", "D", "H", "S", "NT"][c % 5]}'
    m = f'{name} {body}'
    if fancy:
        m = recase(rng, m)
        if rng.random() < 0.15:
            m += rng.choice([' Alert.', ' alert.', '  ALERT. ', ' Alert.  '])
    return m


def card_text(rng, seat, c, fancy=True):
    su, rk = 'CDHS'[c // 13], RANKS[c % 13]
    body = (su + rk) if (fancy and rng.random() < 0.5) else (rk + su)
    m = f'{FORMAL[seat]} plays {body}'
    return recase(rng, m) if fancy else m


def gen_auction(rng, dealer_i, kind=None):
    """a legal auction; kind: None | 'passout' | 'short'"""
    if kind == 'passout':
        return [PASS] * 4
    hist = []
    p_pass = rng.choice([0.45, 0.6, 0.75])
    while True:
        leg, over = law_legal(dealer_i, hist)
        if over:
            return hist
        r = rng.random()
        if leg[XX] and r < 0.3:
            c = XX
        elif leg[X] and r < 0.25:
            c = X
        elif rng.random() < p_pass or kind == 'short' and len(hist) >= 2:
            c = PASS
        else:
            bids = [b for b in range(35) if leg[b]]
            c = bids[min(len(bids) - 1, int(rng.expovariate(0.5)))] if bids else PASS
        hist.append(c)


def contract_of(dealer_i, hist):
    """independent statement: (bid, dbl 0/1/2, declarer_i) or None if passed out"""
    last_bid, last_bidder, dbl, _ = law_state(dealer_i, hist)
    if last_bid is None:
        return None
    den = last_bid % 5
    side = last_bidder % 2
    for j, c in enumerate(hist):
        if c < 35 and c % 5 == den and (dealer_i + j) % 2 == side:
            return last_bid, dbl, (dealer_i + j) % 4
    raise AssertionError


def gen_board(rng, k, fancy=True, kind=None, id_pool=None):
    """kind: None | 'passout' | 'short' | 'zero' (declarer's side wins NO trick: 1NT, the opening leader holds a whole
    suit) | 'all13' (declarer wins all 13: a grand slam, declarer holds every trump)"""
    deck = list(range(52))
    rng.shuffle(deck)
    deal = [sorted(deck[i * 13:(i + 1) * 13]) for i in range(4)]
    dealer_i = rng.randrange(4)
    vul = rng.choice(VULS)
    if kind in ('zero', 'all13'):
        su = rng.randrange(4)
        long_suit = list(range(su * 13, su * 13 + 13))
        rest = [c for c in range(52) if c // 13 != su]
        rng.shuffle(rest)
        holder = (dealer_i + 1) % 4 if kind == 'zero' else dealer_i
        others = [i for i in range(4) if i != holder]
        deal = [None] * 4
        deal[holder] = long_suit
        for j, i in enumerate(others):
            deal[i] = sorted(rest[j * 13:(j + 1) * 13])
        first = 4 if kind == 'zero' else 30 + su                # 1NT by the dealer / 7 of the long suit by the dealer
        hist = [first] + ([X] if rng.random() < 0.4 else []) + [PASS] * 3
        if len(hist) == 5 and rng.random() < 0.5:
            hist = [first, X, XX, PASS, PASS, PASS]
    else:
        hist = gen_auction(rng, dealer_i, kind)
    calls = [(c, call_text(rng, SEATS[(dealer_i + j) % 4], c, fancy)) for j, c in enumerate(hist)]
    con = contract_of(dealer_i, hist)
    plays = []
    if con is not None:
        bid, dbl, decl = con
        trump = bid % 5
        dummy = (decl + 2) % 4
        live = [list(h) for h in deal]
        leader = (decl + 1) % 4
        for tn in range(13):
            trick, who = [], leader
            for i in range(4):
                hand = live[who]
                follow = [c for c in hand if trick and c // 13 == trick[0] // 13]
                c = rng.choice(follow) if follow and rng.random() < 0.8 else rng.choice(hand)
                hand.remove(c)
                trick.append(c)
                # dummy's cards are played (and announced) by declarer, naming dummy's seat
                plays.append((c, card_text(rng, SEATS[who], c, fancy), SEATS[who]))
                who = (who + 1) % 4
            leader = (leader + law_winner(trump, trick)) % 4
    bid_id = (id_pool or (lambda: str(k + 1)))()
    dda = None
    if rng.random() < 0.3:
        dda = {p: {s: rng.randrange(0, 14) for s in ['C', 'D', 'H', 'S', 'NT']} for p in SEATS}
    return {'id': bid_id, 'dealer': SEATS[dealer_i], 'vul': vul, 'deal': deal, 'dda': dda,
            'calls': calls, 'plays': plays, 'kind': kind}


def mirror_board(rng, prev, new_id, fancy=True):
    """the previous board turned one seat clockwise: every hand, the dealer, every call and every card move to the next
    seat; the vulnerability stays.  Same contract, same number of tricks, declared by the OTHER side — so under a one-sided
    vulnerability the score must differ (seeded change C08e-2: a score cache keyed by the board's vulnerability instead of
    declarer's)"""
    rot = lambda seat: SEATS[(SEATS.index(seat) + 1) % 4]
    deal = [prev['deal'][(i - 1) % 4] for i in range(4)]
    dealer = rot(prev['dealer'])
    dealer_i = SEATS.index(dealer)
    calls = [(c, call_text(rng, SEATS[(dealer_i + j) % 4], c, fancy)) for j, (c, _) in enumerate(prev['calls'])]
    plays = [(c, card_text(rng, rot(seat), c, fancy), rot(seat)) for c, _, seat in prev['plays']]
    return {'id': new_id(), 'dealer': dealer, 'vul': prev['vul'], 'deal': [list(h) for h in deal], 'dda': None,
            'calls': calls, 'plays': plays, 'kind': 'mirror'}


def gen_scenario(rng, n_boards, fancy=True, kinds=None):
    ids = set()

    def new_id():
        while True:
            s = rng.choice(['b', 'Board ', '#', '']) + str(rng.randrange(1, 500))
            if s not in ids:
                ids.add(s)
                return s
    kinds = list(kinds or [None] * n_boards)
    boards = []
    for k in range(n_boards):
        if kinds[k] == 'mirror' and boards and boards[-1]['plays']:
            boards.append(mirror_board(rng, boards[-1], new_id, fancy))
            continue
        want_played = k + 1 < n_boards and kinds[k + 1] == 'mirror'
        b = gen_board(rng, k, fancy, None if kinds[k] == 'mirror' else kinds[k], new_id)
        for _ in range(30):
            if not want_played or b['plays']:
                break
            b = gen_board(rng, k, fancy, None, lambda: b['id'])
        if want_played:
            b['vul'] = rng.choice(['NS', 'EW'])      # one side vulnerable: the mirrored board must score differently
        boards.append(b)
    names = ['teamNS', 'Team (A)', 'x', 'NS-1', 'a b', 'E/W', 'ſtrange']
    return {'boards': boards, 'teams': {'NS': rng.choice(names), 'EW': rng.choice(names)}}


# ------------------------------------------------------------------ scripted conforming client
class Wire:
    """CR LF framing over a FakeSocket, written independently of MessageInterface"""

    def __init__(self, sock):
        self.sock = sock
        self.buf = bytearray()

    def send(self, text):
        self.sock.sendall((text + '\r\n').encode('utf-8'))

    def recv(self):
        while b'\r\n' not in self.buf:
            b = self.sock.recv(4096)
            if b == b'':
                raise EOFError('server closed the connection')
            self.buf += b
        i = self.buf.index(b'\r\n')
        m = bytes(self.buf[:i]).decode('utf-8')
        del self.buf[:i + 2]
        return m


class ClientAbort(Exception):
    pass


def scripted_client(seat, scenario, addr, out, faults=None):
    """A protocol-conforming client for `seat` that takes every decision from the scenario.
    `faults`: optional {'board': k, 'phase': 'call'|'card', 'index': j, 'text': replacement} (C13)."""
    import socket
    name = FORMAL[seat]
    me = SEATS.index(seat)
    sock = socket.socket(socket.AF_INET, socket.SOCK_STREAM)
    w = Wire(sock)
    try:
        sock.connect(addr)
        team = scenario['teams']['NS' if me % 2 == 0 else 'EW']
        w.send(f'Connecting "{team}" as {name} using protocol version 18')
        out['seated'] = w.recv()
        client_session(w, seat, scenario, out, faults)
    except (EOFError, ClientAbort) as e:
        out['aborted'] = repr(e)
    finally:
        sock.close()


def client_session(w, seat, scenario, out, faults=None):
    """everything a conforming client does after it has been told that it is seated"""
    name = FORMAL[seat]
    me = SEATS.index(seat)
    if True:
        w.send(f'{name} ready for teams')
        out['teams'] = w.recv()
        w.send(f'{name} ready to start')
        msg = w.recv()
        for k, b in enumerate(scenario['boards']):
            out.setdefault('start', []).append(msg)
            w.send(f'{name} ready for deal')
            out.setdefault('header', []).append(w.recv())
            w.send(f'{name} ready for cards')
            out.setdefault('cards', []).append(w.recv())
            dealer_i = SEATS.index(b['dealer'])
            hist = [c for c, _ in b['calls']]
            for j, (c, text) in enumerate(b['calls']):
                turn = (dealer_i + j) % 4
                if turn == me:
                    if faults and faults.get('board') == k and faults.get('phase') == 'call' and faults.get('index') == j:
                        text = faults['text']
                    w.send(text)
                else:
                    w.send(f"{name} ready for {FORMAL[SEATS[turn]]}'s bid")
                    w.recv()
            con = contract_of(dealer_i, hist)
            if con is not None:
                bid, dbl, decl = con
                dummy = (decl + 2) % 4
                for j, (c, text, who) in enumerate(b['plays']):
                    tn, i = j // 4 + 1, j % 4
                    who_i = SEATS.index(who)
                    player_i = decl if who_i == dummy else who_i     # who sends the card
                    if i == 0 and player_i == me:
                        w.recv()                                      # "<X> to lead" / "Dummy to lead"
                    if player_i == me:
                        if faults and faults.get('board') == k and faults.get('phase') == 'card' and faults.get('index') == j:
                            text = faults['text']
                        w.send(text)
                    else:
                        nm = 'dummy' if who_i == dummy else FORMAL[who]
                        w.send(f"{name} ready for {nm}'s card to trick {tn}")
                        w.recv()
                    if j == 0 and me != dummy:
                        w.send(f'{name} ready for dummy')
                        w.recv()
            msg = w.recv()
        out['end'] = msg


# ------------------------------------------------------------------ running a session
def board_settings(scenario):
    from bridge_env import Card, Hands, Player, Suit, Vul
    from bridge_env.data_handler.abstract_classes import BoardSetting
    vmap = {'None': Vul.NONE, 'NS': Vul.NS, 'EW': Vul.EW, 'Both': Vul.BOTH}
    out = []
    for b in scenario['boards']:
        hands = Hands(*[{Card.int_to_card(c) for c in h} for h in b['deal']])
        dda = None
        if b.get('dda'):
            dda = {Player[p]: {Suit[s]: v for s, v in t.items()} for p, t in b['dda'].items()}
        out.append(BoardSetting(hands=hands, dealer=Player[b['dealer']], vul=vmap[b['vul']],
                                board_id=b['id'], dda=dda))
    return out


class Result:
    pass


def run_session(scenario, policy, workdir, clients='scripted', faults=None, max_steps=600000,
                client_factory=None, extra_threads=None, main_wrapper=None, inject=None, attempts=None, segment=None):
    """returns Result: status, schedule, exceptions, log text, per-connection byte streams, per-thread ops"""
    import pathlib
    from bridge_env.network_bridge.server import Server
    sched = S.new_run(policy, max_steps=max_steps)
    sched.inject = inject
    S.NET.segment = random.Random(segment) if segment is not None else None
    addr = ('fake', 2000)
    fd, path = tempfile.mkstemp(suffix='.json', dir=workdir)
    os.close(fd)
    os.unlink(path)
    settings = board_settings(scenario)
    outs = {p: {} for p in SEATS}
    holder = {}

    def main():
        with Server(ip_address=addr[0], port=addr[1], output_file_path=pathlib.Path(path),
                    board_settings=settings) as server:
            holder['server'] = server
            if main_wrapper is not None:
                main_wrapper(server)
            else:
                server.run()

    S.spawn(sched, 'main', main)
    sched.process_mains.add('main')          # the table manager's process ends when Server.run() returns or raises
    for label, fn in (attempts(addr, outs) if attempts is not None else []):
        S.spawn(sched, label, fn)
    for p in (SEATS if attempts is None else []):
        if client_factory is not None:
            fn = client_factory(p, scenario, addr, outs[p])
        else:
            f = faults if (faults and faults.get('seat') == p) else None
            fn = (lambda p=p, f=f: scripted_client(p, scenario, addr, outs[p], f))
        S.spawn(sched, f'client-{p}', fn)
    for label, fn in (extra_threads or []):
        S.spawn(sched, label, fn(addr))
    # the bundled Client prints to stdout ("run"); keep the check's own output clean
    _stdout = sys.stdout
    sys.stdout = io.StringIO()
    try:
        status = sched.run()
    finally:
        sys.stdout = _stdout
    r = Result()
    r.status = status
    r.steps = sched.steps
    r.schedule = sched.schedule
    r.deadlock = sched.deadlock_info
    r.exceptions = {ct.label: repr(ct.exc) for ct in sched.threads if ct.exc is not None}
    r.ops = {ct.label: ct.ops for ct in sched.threads}
    r.finished = {ct.label: ct.finished for ct in sched.threads}
    r.killed = list(sched.killed)
    r.ops_at = {ct.label: ct.ops_at for ct in sched.threads}
    r.conns = [(c.client_label, bytes(c.log_s2c), bytes(c.log_c2s), c.server_closed, c.client_closed)
               for c in S.NET.conns]
    r.outs = outs
    srv = holder.get('server')
    r.qmap = {}
    if srv is not None:
        from bridge_env import Player
        for pl in Player:
            r.qmap[srv.sent_message_queues[pl].label] = 'm2t' + pl.name
            r.qmap[srv.received_message_queues[pl].label] = 't2m' + pl.name
    try:
        r.log_text = open(path, encoding='utf-8').read()
    except FileNotFoundError:
        r.log_text = None
    try:
        os.unlink(path)
    except OSError:
        pass
    S.end_run()
    return r


if __name__ == '__main__':
    rng = random.Random(int(sys.argv[1]) if len(sys.argv) > 1 else 0)
    sc = gen_scenario(rng, int(sys.argv[2]) if len(sys.argv) > 2 else 2)
    import time
    t0 = time.time()
    r = run_session(sc, S.RandomPolicy(random.Random(1)), '/tmp')
    print(r.status, r.steps, 'steps', round(time.time() - t0, 2), 's', r.exceptions, r.deadlock)
    print({p: o.get('end') for p, o in r.outs.items()})
    print((r.log_text or '')[:300])
