"""Regenerates /verif/MANIFEST.json from the table below (run after adding a property module)."""
import json, os
VERIF = os.path.dirname(os.path.dirname(os.path.abspath(__file__)))
props = [json.loads(l) for l in open(os.path.join(VERIF, 'properties.jsonl'))]

# property -> (text of level claimed, level_note, technique)
CLAIMS = {
 'C07': ('Lean 4 theorems calc_bid_score_is_law / calc_score_is_law: the model of calc_bid_score and calc_score (literal tables) '
         'equals the duplicate scoring law written as formulas, on the complete domain, by kernel evaluation (decide +kernel) lifted to the '
         'typed forall; the model is tied to /repo by an EXHAUSTIVE correspondence run (all 45 360 inputs, every run), so on this finite domain '
         'the implementation is the model pointwise and the theorem transfers without a sampling gap. ALSO the code as TRANSLATED on this run '
         '(harness/translate_py.py -> Generated/PyCoreBase.lean, executed by the MiniPy interpreter of Model/MiniPy.lean): '
         'C07t.translated_calc_bid_score_is_law / _rejects_non_bids and translated_contract_is_model, by kernel evaluation of the translated '
         'program over the complete domain; the bonus constants and tables are translated too (Generated/ScoreTables.lean).',
         'Trusted: Lean kernel (axioms: propext only), the formula statement of the scoring law in Spec/Scoring.lean, CPython int/tuple semantics, '
         'the harness that enumerates the domain through the public API.',
         'Lean 4 proof (decide +kernel over the full table) + exhaustive model/implementation correspondence'),
 'C16': ('Lean 4 theorems for every Int: imps_is_scale (the while-loop scan equals the count of official thresholds reached, signed), '
         'imps_bounds, imps_zero_below_20, imps_24_from_4000, imps_odd, imps_monotone, score_to_imp_is_sum; proved by induction over the '
         'ascending threshold list, no bound on the magnitude. Correspondence: every integer in [-4200,4200], powers of 2 and 10 up to 1e40 '
         'with neighbours, random big integers, pairs. ALSO for the code as TRANSLATED on this run (Generated/PyCoreBase.lean under MiniPy): '
         'C16t.translated_imps_is_scale and translated_score_to_imp_is_sum for EVERY integer, by symbolic execution with a loop invariant.',
         'Trusted: Lean kernel (propext, Classical.choice, Quot.sound), the threshold list in Spec/Scoring.lean as the official scale '
         '(IMPS_LIST_is_official ties the code table to it), CPython unbounded int semantics; model faithfulness outside the sampled integers.',
         'Lean 4 proof by induction (unbounded Int) + dense differential correspondence'),
 'C01': ('Lean 4 theorem auction_refines_laws: for every dealer, vulnerability and every finite sequence of offered calls (legal or not, '
         'also after the end) the model of BiddingPhase.take_bid keeps exactly the history the Laws accept, answers every offer as the Laws '
         'prescribe (illegal / ongoing / finished / error) and advertises exactly the legal set while open; one-step forms '
         'take_bid_accepts_iff_legal, illegal_reported_and_state_unchanged, avail_vector_is_legal_set. Proof by an invariant (AInv) '
         'preserved by take_bid, unbounded histories. The Laws are stated on the history alone (Spec/Laws.lean: legalLaw, EndedLaw). '
         'Model tied to /repo by step-wise differential correspondence of every public observable after every offered call, AND by translation: '
         'bidding_phase.py is re-written on every run into a MiniPy program (Generated/PyCoreAuction.lean) and Translated/Auction.lean proves, '
         'by symbolic execution on a symbolic state, that the translated __init__/take_bid/has_done/contract ARE the model on every state and '
         'call; C01t.translated_auction_refines_laws states the property for the translated object. The translated program is also run next '
         'to the real object (complete state after every call) on every run.',
         'Trusted: Lean kernel (propext, Classical.choice, Quot.sound); the statement of the Laws in Spec/Laws.lean; model faithfulness '
         'on auctions not sampled by the correspondence campaign (distribution in the evidence); numpy 0/1 vector semantics.',
         'Lean 4 proof (refinement invariant, induction over the offered-call list) + differential correspondence'),
 'C02': ('Lean 4 theorems: turn_rotates, active_is_turn, per_seat_is_share, over_iff_ended_law and finishes_iff_ended (the model finishes '
         'exactly when the new history satisfies the Law: four opening passes or three passes after a non-pass; never earlier or later), '
         'after_end_raises_and_unchanged / after_end_run_unchanged, auction_terminates (<= 319 calls, by a lexicographic potential) '
         'with bound_is_attained (a legal 319-call auction, kernel-evaluated). All for every reachable state, unbounded. C02t.translated_run_is_model: '
         'every run of the TRANSLATED BiddingPhase (Generated/PyCoreAuction.lean under MiniPy) is the model\'s run.',
         'Trusted: as C01.',
         'Lean 4 proof (invariant + potential function) + differential correspondence'),
 'C03': ('Lean 4 theorems: contract_none_before_end, contract_is_spec (ended => contract = specContract: last bid, doubling status from the '
         'calls after it, board vulnerability, declarer = first member of the last bidder\'s side to name the denomination), '
         'first_namer_some/first_namer_none/declarer_is_first_namer (declarative characterisation of the declarer), '
         'superseded_double_cleared, passed_out_iff_no_bid, passed_out_shape, flags_follow_status. Every reachable state. '
         'C03t.translated_contract_is_spec: the TRANSLATED contract() returns the encoding of that contract at every reachable state.',
         'Trusted: as C01; the contract is compared through doubling STATUS, level/denomination, vulnerability and declarer.',
         'Lean 4 proof (refinement invariant) + differential correspondence'),
 'C04': ('Lean 4 theorems about the model of PlayingPhase: calc_highest_spec (the loop returns the first maximal card of the suit, -1 iff none/NT), '
         'trick_winner_is_law + winner_unique (the position chosen by _set_next_leader is THE winner by the Law: highest trump, else highest of '
         'the suit led), opening_lead_and_dummy, turn_passes_clockwise, winner_leads_next, one_trick_credited_to_winners_side, '
         'incomplete_trick_step, history_is_tricksOf (history = the played cards cut in fours with their actual leaders; counts = tricks won), '
         'after_52_cards, has_done_iff_52, passed_out_not_playable — for every contract with a declarer and every list of cards played, '
         'by induction over the play list. Correspondence: every public field after every card on random boards. ALSO by translation: playing_phase.py is re-written on every run into a MiniPy program (Generated/PyCorePlay.lean) and Translated/Play.lean proves by symbolic execution that the translated __init__ / play_card (incl. the completed trick) / calc_highest / has_done ARE the model on every well-formed state (WF shown sharp), and that construction followed by any list of cards is the encoding of the model run.',
         'Trusted: Lean kernel (propext, Classical.choice, Quot.sound); the Law as stated in Spec/Play.lean (WinsTrick); model faithfulness '
         'outside the sampled boards; the cards of the incomplete trick are private in the implementation and are reconstructed by the harness.',
         'Lean 4 proof (invariants by induction over the play list) + differential correspondence'),
 'C05': ('Lean 4 theorems about the models of PlayingPhaseWithHands and ObservedPlayingPhase: refused_out_of_turn, refused_not_held, accepted_iff, '
         'accepted_effect, refusal_changes_nothing, conservation (for every deal and every offered sequence, legal or not, remaining hands ++ played '
         'cards is a permutation of the deal), no_card_twice, after_52_all_empty, observed_* variants. Unbounded sequences, induction. ALSO Translated/Play.lean: the translated play_card_by_player of PlayingPhase / PlayingPhaseWithHands / ObservedPlayingPhase and set_dummy_hand ARE the models (refusals raise ValueError / Exception exactly where the model refuses).',
         'Trusted: as C04; hands are modelled as duplicate-free lists compared as sets.',
         'Lean 4 proof (conservation invariant via List.Perm) + fault-injecting differential correspondence'),
 'C06': ('Lean 4 theorems: available_spec (available_cards = follow-suit rule), available_subset, available_nonempty, available_follows, '
         'current_available_uses_first_card, random_play_in_available (for every choice function returning an element of its argument). '
         'Correspondence on hands of every size x every led card and at every state of play-throughs; RandomPlay with random.choice recorded. ALSO Translated/Play.lean: the translated available_cards / current_available_cards(_in_hand/_in_dummy_hand) ARE the model functions on every hand and state.',
         'Trusted: as C04; random.choice returns an element of its argument.',
         'Lean 4 proof + differential correspondence'),
 'C14': ('Lean 4 theorems for every (partial) deal: pbn_round_trip (to_pbn from any first seat, then the regex scanner of convert_pbn, gives back the '
         'same hands), pbn_canonical (S.H.D.C order, ranks high to low, void = empty field, unknown hand = "-", 16 characters), binary_round_trip, '
         'np_binary_round_trip, json_round_trip, json_cards_ascending, random_deal_is_partition (for EVERY permutation produced by shuffle), '
         'fresh_pack_is_the_deck. Correspondence incl. malformed and backtracking-inducing PBN strings. ALSO by translation: hands.py is re-written on '
         'every run into a MiniPy program (Generated/PyCoreHands.lean) and Translated/Hands.lean proves that the translated to_binary, convert_binary '
         '(with the binary round trip through the translated code), _convert_hand_to_pbn and to_pbn ARE the model functions, under sharp hypotheses; '
         'the regular-expression, numpy and random methods are outside the translated subset and stay tied by correspondence only.',
         'Trusted: Lean kernel (3 standard axioms); the hand-written backtracking scanner standing for re.match on DEAL_PATTERN/HAND_PATTERN '
         '(differential-tested); numpy vector semantics; random.shuffle returns a permutation.',
         'Lean 4 proof (string-level round trip through the scanner model) + differential correspondence'),
 'C15': ('Lean 4 theorems by kernel evaluation over the COMPLETE finite domains: round trips and injectivity of every notation of the 52 cards, 38 calls, '
         '4 seats, 4 vulnerabilities (3 spellings + synonyms), 5 suits; card order = index order on all 52x52 pairs; contract text round trip on '
         '35 bids x 4 flag combinations x 4 vul x 5 declarers + passed out. Correspondence EXHAUSTIVE on the same domains plus adversarial strings. '
         'ALSO the notation functions as TRANSLATED from the source on this run (Generated/PyCoreBase.lean under the MiniPy interpreter) are '
         'proved equal to the model functions on their complete domains by kernel evaluation (Translated/Notation.lean: 17 theorems; '
         'Translated/Contract.lean: every method of Contract on all 2 880 contract values).',
         'Trusted: Lean kernel (propext only for most); exhaustive correspondence on the value domains; parsers compared on stated finite ASCII string sets.',
         'Lean 4 proof (decide over complete finite domains) + exhaustive correspondence'),

 'C09': ('Lean 4 theorems about the nine straight-line thread programs of a session (sessionProg, Model/Session.lean) composed over the generic '
         'process network of Spec/Net.lean (single-writer/single-reader FIFO channels + one counting barrier): session_disciplined, '
         'no_lost_wakeup (step_persistent: a step of another thread never disables an enabled one), step_diamond, confluence, '
         'canonical_run_terminates (for EVERY scenario, any number of boards), session_always_completes (from ANY reachable state, under ANY '
         'interleaving, the session can be continued and every continuation ends, after a fixed total number of steps, with all nine threads '
         'finished, all channels drained, every channel having carried exactly the specified messages), runs_are_bounded (no infinite run), '
         'never_deadlocks (the only state where nobody can move is the completed session), end_of_session_is_last, log_is_opened_written_closed, '
         'seat_thread_follows_its_queue (the seat thread modelled AS THE CODE IS WRITTEN — control flow decided only by its queue messages, own trick counter and seat-on-turn bookkeeping — performs exactly its session program), ready_messages_pass_the_server_check. '
         'Unbounded: induction over the phase list; the 74 phase shapes are checked by kernel evaluation on the payload-erased net and lifted. '
         'Tie to /repo: the UNMODIFIED threaded Server + four conforming clients run under a deterministic scheduler; per-thread operation '
         'sequences (queue/barrier/socket, with payloads) must equal the model programs, and every run must complete, under random / PCT / '
         'lowest-first / stall-one schedules (thorough: systematic stall sweep over every thread and yield point).',
         'Trusted: Lean kernel (3 standard axioms); primitive semantics of queue.Queue, stream sockets, threading.Barrier, time.sleep as stated in '
         'DESIGN.md section 2 (modelled, not verified); OS fairness (some enabled thread eventually runs); the hand-written session model on '
         'sessions not sampled; in-memory network instead of TCP. Partial aspect: real preemption/GIL/kernel buffers cannot be exhibited by the model.',
         'Lean 4 proof (diamond + confluence of a Kahn-style network, induction over phases) + step-level correspondence under a deterministic scheduler'),

 'C08': ('Lean 4 theorems: log_is_session_spec (in EVERY schedule of the nine session threads, when nobody can move any more main has emitted '
         'open, one record per configured board in order, close, and no other thread writes), log_independent_of_schedule (any two executions that '
         'came to rest wrote the same log and carried the same messages on every channel), deal_logged_is_original (id, dealer, ORIGINAL deal, team '
         'names, dda, the calls as sent), scores_are_opposite, passed_out_record_shape, record_follows_rules (for conforming decisions the recorded '
         'contract is the Laws\' contract of the auction (C03 spec), the play is the cards cut in fours with their true leaders (C04 spec), tricks = '
         'tricks won by declarer\'s side, score = duplicate score law for declarer\'s side (C07 spec)), main_thread_follows_the_messages (the main thread modelled AS THE CODE IS WRITTEN — asking the seat on turn, parsing the text it receives, running its own auction and play, raising on illegal / unparseable / not-held actions, assembling the record — performs exactly the session program and writes exactly these records). Unbounded boards / auctions / schedules. '
         'Tie to /repo: the unmodified threaded Server with four scripted clients under the deterministic scheduler; every log record compared field by '
         'field with the Lean record, each scenario under >= 2 schedules with byte-identical logs.',
         'Trusted: Lean kernel (3 standard axioms); primitive semantics of Queue / socket / Barrier (as C09); session model faithfulness on sessions not '
         'sampled; json.loads to read the log (the text layer is C12). Partial aspect: real preemption and TCP are replaced by the scheduler and an in-memory net.',
         'Lean 4 proof (confluence of the session network + refinement to the C03/C04/C07 specs) + record-level correspondence under a deterministic scheduler'),
 'C10': ('Lean 4 theorems: s2c_history_is_seat_stream (what the seat thread of p sends on p\'s connection is exactly the rendering of the declarative '
         'event list seatEvents), streams_independent_of_schedule (in every schedule the connection history is a prefix of that stream and equals it when '
         'the session has come to rest), own_cards_only (own 13 cards once per board straight after the header; the only other hand ever shown is dummy\'s, '
         'and never to dummy), board_header_is_configured (number = position in the configured list, configured dealer and vulnerability, once per board), '
         'relay_exactly_once_in_order / card_relay_exactly_once_in_order (relays = exactly the calls/cards that did not arrive on that connection, once, in '
         'order; declarer sends dummy\'s), dummy_disclosed_between_lead_and_second_card, lead_prompt_only_to_leader. Unbounded sessions. Tie to /repo: the '
         'complete server->client byte stream of each connection, split at CR LF and classified by the protocol grammar, equals the specified event sequence.',
         'Trusted: as C08; the message classifier of the harness (session_props.classify).',
         'Lean 4 proof (per-phase refinement of the seat-thread programs to a declarative per-seat event list, lifted to all schedules by confluence) + stream-level correspondence'),

 'C12': ('Lean 4 theorems about the models of JsonLogWriter / JsonParser AND of Python\'s json.dumps / json.loads for the value class used: '
         'loads_dumps (the reader undoes the writer on every JSON value without duplicate keys: any nesting, strings with quotes, backslashes, '
         'control and astral characters, integers of any size), framed_output_is_json (ANY sequence of board results, none included, forms ONE JSON '
         'document {"logs": [...]}), log_validates (it conforms to the published schema, which is TRANSLATED from /repo\'s schema files on every run), '
         'record_read_back / log_read_back (parse_board_logs returns exactly the records written, in order), read_back_is_what_was_written (field by '
         'field: players, id, dealer, vulnerability, deal as sets, auction, contract bid / doubling status / declarer, play with leaders as seats, '
         'tricks, score type, per-side scores keyed by side, dda), log_as_settings (the same document is a board-settings source yielding the same '
         'boards in order). Unbounded documents, by structural induction. Tie to /repo: writer text as strict JSON token stream, parser results '
         'with Python types checked, schema verdicts (jsonschema on the real files vs the Lean validator on the translation), reader model vs '
         'json.loads, plus an independent Python oracle (read-back == written). ALSO by translation: json_handler/writer.py and parser.py are re-written on '
         'every run into a MiniPy program (Generated/PyCoreJson.lean) and Translated/JsonWriter.lean proves that the translated writers leave exactly the '
         'model text (logText / settingsText) for every list of entries (hypotheses shown necessary), Translated/JsonParser.lean that the translated '
         'parser returns the model records whenever the model reads the document (three forms; two abstractions of the hand model exposed and kernel-checked).',
         'Trusted: Lean kernel (3 standard axioms); the re-implementations of json.dumps / json.loads in Model/Json.lean (differential-tested; floats '
         'and lone surrogates outside the domain); the schema translator (fails loudly on keywords outside type/properties/required/items/$ref) and '
         'jsonschema Draft 7 as reference semantics; model faithfulness on documents not sampled.',
         'Lean 4 proof (structural induction over JSON values; schema regenerated from source each run) + differential correspondence + independent oracle'),

 'C13': ('Lean 4 theorems: abort_closes_writer (WHEREVER the main thread is when Server.run is abandoned — `pre` is an arbitrary prefix of its '
         'program after the log was opened, which covers every fault kind and every abort point — what it has emitted once the with-statement '
         'has closed the writer is: open, the records of exactly the k boards already written, close), aborted_log_is_wellformed (the file text is '
         'then the text JsonLogWriter writes for those k boards), aborted_log_reads_back (one JSON document, read back by the log parser as exactly '
         'those boards, each whole — by C12), session_records_are_wellformed (records of conforming play are well-formed writer arguments), '
         'unclosed_log_not_json_old (negative theorem about the code before the repair). Correspondence = FAULT ENUMERATION on the unmodified '
         'threaded server under the deterministic scheduler: illegal call, unparseable call, call in another seat\'s name, unparseable card, card '
         'not held, card already played, operator interrupt (KeyboardInterrupt injected into the main thread\'s blocking Queue.get), at a '
         'stratified sample (quick) / at EVERY abort point of 1-, 2- and 3-board sessions (thorough); the output file is compared with the model '
         'text (JSON tokens), with the records of the un-aborted session, and read with the real parser.',
         'Trusted: Lean kernel (3 standard axioms); Python `with` semantics (__exit__ runs on every exception incl. KeyboardInterrupt); primitive '
         'semantics as C09; the interrupt is modelled as raised by Queue.get (where main blocks). Partial aspect: an interrupt delivered in the '
         'middle of a single writer call (inside json.dumps / file.write) cannot be exhibited by the model.',
         'Lean 4 proof (prefix-closure of the main program + C12) + fault enumeration under a deterministic scheduler'),
 'C17': ('Lean 4 theorems. JSON: settings_document_is_json, settings_round_trip (any list of boards written by JsonBoardSettingWriter is read back '
         'as the same boards in order, dda included), settings_validate (published schema, translated each run). PBN: pbn_lines_of_text (an '
         'admissible file is cut into exactly its rendered lines, via io.StringIO and via open() with universal newlines), first_occurrence_wins '
         '(parseStream_layout: one game per rendered game, in order, for ANY number of blank lines before / between / after, header lines, extra '
         'tags, table rows; first occurrence of a tag wins), pbn_import_round_trip(+_universal) (any list of boards rendered as an admissible import '
         'file — deal from any first seat, tags in any order, optional inner spaces, LF or CRLF, any accepted vulnerability spelling, ids with '
         'leading / trailing / double spaces — is read as those boards in order), old_reader_defects (negative, kernel-evaluated). The reader '
         'model implements extract_content (comments), the TAG_PATTERN scanner, the white-space collapse, parse_stream. Correspondence: layouts '
         'rendered by the Lean spec AND by the harness (texts compared) fed to the real parser in both file modes, plus a text soup with comments / '
         'stray quotes for the reader model, plus an independent oracle.',
         'Trusted: Lean kernel (3 standard axioms); hand-written scanners for TAG_PATTERN / REPLACE_PATTERN (differential-tested); text-mode line '
         'iteration; as C12 for JSON. Values contain no double quote, line end or comment opener.',
         'Lean 4 proof (induction over lines / games of a layout grammar; JSON by C12) + differential correspondence on spec-rendered files'),
 'C18': ('Lean 4 theorems: lines_at_most_255 (write_line: for EVERY string each written piece has <= 255 characters and ends with a line end; the '
         'pieces reassemble to the string), written_lines_at_most_255 (for EVERY board result, also with over-long values), fifteen_tags_in_order '
         '(the mandatory tag set with the values given; PBN vulnerability spelling), passed_out_tags (Declarer "", Contract "Pass", Result ""), '
         'export_round_trip (any sequence of well-formed results is written and read back by the parser as one game per result, in order, each '
         'exactly the fifteen tags with the written values), consecutive_results_are_separate_games, export_as_settings (deal, dealer, '
         'vulnerability and board number recovered as a board setting), old_writer_merged_games (negative, kernel-evaluated). Proof: the export '
         'text IS an admissible layout of C17 (export_is_layout), then C17\'s reader theorem. Correspondence: real PbnWriter chunks, lengths, '
         'parse_all / parse_board_settings of the written text, write_line around 254/255/256/509/510 characters; independent oracle. ALSO by translation: '
         'Translated/PbnWriter.lean proves that the PbnWriter methods as translated from the source on this run (Generated/PyCoreJson.lean) produce exactly '
         'the model chunk lists (write_line loop by induction, tag pairs, board results, whole documents; AssertionError exactly where the model has none).',
         'Trusted: as C17; strftime("%Y.%m.%d") modelled with an unpadded year (glibc). Round trip claimed for tag pairs that fit on one line '
         '(the format\'s own limit); the line-length claim is unconditional.',
         'Lean 4 proof (reduction of the export text to an admissible import layout) + differential correspondence'),

 'C20': ('Lean 4 theorems about the model of PlayerThread._connect (admitReq) and of the accept loop (serve = fold over the requests in accept '
         'order, stopping when the table is full): accept_iff_ok (seated IFF version 18, seat free, partner unseated or same team — at its turn), '
         'error_is_first_failing_test, reject_leaves_table_unchanged (a rejection changes nothing; an acceptance writes exactly its own seat), '
         'loop_continues_until_full (a rejection never stops the loop; nothing is served after the table is full), one_client_per_seat (for EVERY '
         'request sequence at most one request is seated per seat and every occupied seat belongs to exactly one seated request, under its team '
         'name), partners_share_team (every reachable table), teams_message_correct (full table => the Teams message names each side\'s team), '
         'verdicts_are_a_prefix, order_matters, accept_loop_is_the_fold (the accept loop and _connect modelled AS THE CODE IS WRITTEN, on request TEXTS, are this fold; thread operations receive / reply / close / signal). Unbounded sequences, by an invariant over the fold. Tie to /repo: request sequences (and '
         'free-for-all arrivals) from concurrently scheduled clients against the unmodified threaded server; verdict kinds, seated replies, closed '
         'connections, final table, Teams messages of all four, first board started, session completed.',
         'Trusted: Lean kernel (3 standard axioms); the accept loop serialises admissions (it waits for each connection thread\'s verdict event '
         'before the next accept: modelled as a fold, exercised by the free-arrival mode); Event / socket / Barrier semantics; accept order = '
         'connect order. Partial aspect: the per-connection handshake (event set / wait / clear, time.sleep, is_alive) is exercised under the '
         'scheduler but not itself part of the Lean model.',
         'Lean 4 proof (invariant over the admission fold) + differential correspondence under a deterministic scheduler'),

 'C11': ('Lean 4 theorems. In process (Props/C11a): observer_simulates, observer_never_rejects_accepted, feed_public_state, related_agree — a '
         'single-seat observer (any seat, dummy included) fed the public sequence of plays, with dummy\'s hand supplied after the opening lead, '
         'accepts every play the full-information game accepts and holds the same public state (the PStates are EQUAL) and the true remaining '
         'hands, for every deal, contract and play sequence. On the network (Props/C11): server_reads_the_calls / server_plays_the_cards (the '
         'table manager reads exactly what the seats decided, through the protocol parsers), client_auction_replica + '
         'client_contract_is_servers (at every prefix of the auction every client\'s replica IS the table manager\'s; same contract and '
         'declarer), client_play_replica (after every prefix of the play every client has not raised and its replica is related to the table '
         'manager\'s game: same turn, trick number, leaders, history, counts), bundled_clients_conform (four WeakBid + RandomPlay clients, for '
         'EVERY deal and every result of random.choice, produce a complete legal auction, 52 accepted plays and texts that parse back), '
         'bundled_client_completes_session (hence every schedule of such a session completes, by C09), bundled_client_follows_the_messages (the bundled Client modelled AS THE CODE IS WRITTEN — parsing every message, own auction and observer replicas — never raises, never blocks and performs exactly the session\'s client program, for every seat). Tie to /repo: lock step of the real '
         'PlayingPhaseWithHands and four real ObservedPlayingPhase with injected illegal plays, every public field after every card; four real '
         'bundled Client objects (bundled and seeded random-legal systems) against the threaded server under the scheduler, their '
         'bidding_phase() results and final play replicas compared with the log.',
         'Trusted: Lean kernel (3 standard axioms); the message parsers\' models (C19); primitive semantics as C09; the client replica is observed '
         'through a recording subclass substituted in the client module\'s namespace by the harness.',
         'Lean 4 proof (simulation relation; induction over calls / cards through the parser models) + lock-step and network correspondence'),

 'C19': ('Lean 4 theorems about the models of the message builders and parsers of both ends (each parser = its regular expression with re.match '
         'semantics: greedy groups with backtracking, case-insensitive literals): hand_msg_round_trip (any hand, voids, any seat name / Dummy), '
         'bid_msg_round_trip (38 calls x 4 seats, ANY letter case), bid_msg_alert_round_trip (alert suffix stripped, same call), '
         'card_msg_round_trip (52 cards x 4 seats x both notations x any case), board_header_round_trip (every number, dealer, vulnerability), '
         'team_names_round_trip (all names without a double quote / line break), connect_round_trip, lead_prompt_round_trip; framing: '
         'recv_one_frame, framing_round_trip (any sequence of CR-free messages followed by any partial frame is received intact and in order '
         'and the reader then stops), chunking_irrelevant, reader_stops_at_eof (every reader state), reader_spins_at_eof_old (negative '
         'theorem about the reader before the fix). Unbounded message lengths and sequences, by induction. ALSO on the code as TRANSLATED on this run '
         '(builders and parsers of client.py / server.py / socket_interface.py in Generated/PyCoreNet.lean, their regular expressions run by the generic '
         'engine Model/Regex.lean): Translated/Messages.lean — every call x seat and every card x seat x notation x case is built and read back, wrong '
         'seat refused, headers, connection lines, by kernel evaluation; Translated/NetHelpers.lean — Server.hand_to_str = the model builder on every hand.',
         'Trusted: Lean kernel (3 standard axioms); each Python regex is represented by a hand-written scanner whose agreement with `re` is '
         'differential-tested on the generated strings (DESIGN appendix F); the generic regex engine Model/Regex.lean (differential-tested against CPython, '
         're-validated on every run); UTF-8 codec; socket.recv semantics. The receiver is compared on '
         'the real MessageInterface.receive_message over a fake socket with end-of-stream injected at every byte position.',
         'Lean 4 proof (scanner models of the regexes, induction over messages and byte streams) + differential correspondence incl. EOF injection'),
}
# session 4: the THREAD code itself is translated (desugar_threads.py -> translate_py.py -> Generated/PyCoreThreads.lean) and theorems are
# proved about the translated thread programs; appended to the claims of the properties they serve
THREADS_COMMON = (' ALSO the thread code as TRANSLATED on this run: harness/desugar_threads.py re-writes the AST of PlayerThread / Server / Client / '
                  'MessageInterface.send_message+receive_message into sequential code over ONE explicit world object (every operation on a queue, socket, '
                  'barrier, event, thread, the log writer becomes a call on it; externals declared by name; fails rather than guesses), translate_py.py turns '
                  'that into the MiniPy program Generated/PyCoreThreads.lean, and on every run both the desugared Python and the translated program are '
                  'executed on what the world handed the REAL threads of the scheduled sessions and must perform the real threads\' operations (texts included). ')
ADDENDA = {
 'C19': THREADS_COMMON + 'Translated/ThreadsFraming.lean: for EVERY character stream the translated receive_message loop returns the text before the first CR LF and '
        'leaves the rest (framing_recv_translated), raises on a CR not followed by LF, raises ConnectionError at end of stream, blocks (never spins) '
        'on an open empty stream; any list of CR-free messages is received intact and in order (framing_stream_translated); on ASCII text the outcomes '
        'are those of the byte-level model (framing_recv_model). Assumed: UTF-8 encode/decode are inverse (the translated socket carries characters).',
 'C09': THREADS_COMMON + 'Translated/ThreadsSeatA.lean, ThreadsSeatB.lean and ThreadsSeatC.lean (the whole SeatThread.run: seat_run_translated = admission + seatReactive; refused and not-ready paths) and ThreadsSeatD.lean (the CAPSTONE translated_seat_thread_is_session_program: for every playable scenario the translated seat thread consumes its two streams completely and performs exactly the operations of sessionProg sc (.seat p), with no check hypothesis left — the ready texts of the session pass the translated check by kernel evaluation of the finite families and induction over the session): the translated seat thread — _check_message, _deal, '
        '_bidding_phase (while-loop, every queue length), _playing_phase (13 x 4 loop), _connect — performs exactly the operations of the reactive model '
        '(seatDealR, seatBiddingR, seatPlayingR) which C09.seat_thread_follows_its_queue identifies with the session program; hypotheses: the '
        'client\'s "ready" messages pass the server\'s own check (stated with the same regular-expression engine the translated code calls).',
 'C08': THREADS_COMMON + 'Translated/ThreadsMainA.lean, ThreadsMainB.lean and ThreadsMainC.lean (the whole MainThread.run: main_run_translated = bind, listen, one accept round per served connection, then mainReactive; the dict handed to the log writer is the record recordFrom) and ThreadsMainD.lean (the CAPSTONE translated_main_thread_is_session_program: the translated main thread performs — apart from one sleep per trick — exactly the operations of sessionProg sc .main, and translated_main_thread_writes_the_session_log: its emit operations are open, one write of encRecord (recordOf ...) per configured board in order, close; for protocol texts the parse hypotheses are discharged by kernel evaluation of the translated parsers on all call and card texts: session_boards_parse): the translated Server.deal, bidding_phase '
        '(own BiddingPhase through the Translated/Auction theorems; an illegal call raises after the two notices) and playing_phase (own '
        'PlayingPhaseWithHands through the Translated/Play theorems; the time.sleep of every trick recorded) perform exactly the operations of the '
        'reactive model (mainDealR, mainBiddingR, mainPlayingR) which C08.main_thread_follows_the_messages identifies with the session program and '
        'the logged record; hypotheses: what the translated parse_bid / parse_card return on the texts received is what the model\'s parsers return.',
 'C11': THREADS_COMMON + 'Translated/ThreadsClientA.lean and ThreadsClientB.lean (playing_phase with the client\'s own ObservedPlayingPhase replica = clientPlayingR) and ThreadsClientC.lean (the whole ClientThread.run = connection prefix + clientReactive) and ThreadsClientD.lean (the CAPSTONE translated_client_is_session_program: the translated bundled client performs — apart from asking its systems — exactly the operations of sessionProg sc (.client p), consumes every stream, never raises, never blocks): the translated bundled Client — _connect, _deal, bidding_phase with its own '
        'BiddingPhase replica — performs exactly the operations of the reactive client model (clientDealR, clientBiddingR), returns the contract the '
        'replica holds, raises when the replica refuses a relayed call; create_bid_message proved for all 38 calls x 4 seats by kernel evaluation.',
 'C20': THREADS_COMMON + 'Translated/ThreadsSeatB.lean: the translated PlayerThread._connect on EVERY seat table and request — the three tests in the code\'s order are '
        'admitReq, the reply text is replyText, a refused request leaves the table unchanged and is answered, closed and signalled, a seated one writes '
        'its seat, answers, awaits "ready for teams", signals, passes the barrier and sends the Teams message built from the table after the barrier '
        '(seat_connect_translated, seat_connect_not_ready_translated, seat_connect_matches_connectR); Translated/ThreadsMainC.lean: the translated accept loop performs one accept round (accept, new thread, start, wait for the verdict, sleep, is_alive, clear) per served connection until the table is full and keeps the threads found alive (main_accept_loop_translated). In the admission sessions of this check every '
        'connection thread (seated or refused) and the accept loop are compared with the translated program.',
 'C17': ' The PBN parser itself is TRANSLATED on every run (data_handler/pbn_handler/parser.py -> Generated/PyCorePbn.lean) and, since session 5, '
        'PROVED equal to the hand-written model: Translated/PbnParser.lean (pp_extract_content_translated, pp_parse_board_translated, '
        'pp_parse_stream_translated, pp_parse_all_translated: for a fresh parser and EVERY list of non-empty lines the translated parse_all returns '
        'exactly the games of the model\'s parseStream; the number of lines is unbounded, the line length is bounded by the interpreter\'s fuel; % lines '
        'must pass the decidable checker pctLineOk) with the regular-expression hypotheses discharged in Translated/PbnParserClosed.lean by '
        'Lemmas/RegexPbn.lean (pbnRegexFacts: for EVERY subject string the generic regex engine on TAG_PATTERN / REPLACE_PATTERN / '
        '_VALUE_OR_SPACE_PATTERN computes what the hand scanners semiEmpty / searchTag / findTags / collapseWs compute — Appendix F, R11 is no longer '
        'an assumption about scanners) and Props/Regex.lean (the pattern texts of those theorems are the texts extracted from the source and the '
        'constants the translated class hands to the engine). So the unbounded import theorem of the model now speaks about the translated parser; '
        'the translated program also reads the generated import files and PBN-ish soup next to the real parser on every run. Likewise '
        'Lemmas/RegexHands.lean (handsRegexFacts: DEAL_PATTERN / HAND_PATTERN on every subject = takeHandField? / matchGroups).',
 'C18': ' The PBN parser is TRANSLATED on every run (Generated/PyCorePbn.lean), reads the export texts of this check exactly as the real parser does, '
        'and is PROVED equal to the reader model the round-trip theorems are about (Translated/PbnParser.lean, PbnParserClosed.lean; regular expressions '
        'by Lemmas/RegexPbn.lean, pattern texts tied to the source by Props/Regex.lean) — see C17. Translated/PbnExport.lean composes the two ends: '
        'pe_export_round_trip_translated — for every list of results (PbnResult.WF, PbnWF) the text the TRANSLATED PbnWriter writes (header + results) is read by '
        'the TRANSLATED parse_all as one game per result with exactly the fifteen tags, in order; pe_export_as_settings_translated — and by the translated '
        'parse_board_settings as the boards (id, dealer, vulnerability, deal). The line-length, non-emptiness and %-line conditions of the parser theorem are '
        'DERIVED from written_lines_at_most_255 and the export layout, not assumed.',
 'C14': ' Since session 5 the two regular expressions of hands.py are no longer represented by differential-tested scanners only: '
        'Lemmas/RegexHands.lean proves, for EVERY subject string, that the generic regex engine on DEAL_PATTERN gives the fields of takeHandField? '
        '(the skeleton of convertPbn?) and on HAND_PATTERN (subjects without a line feed; kernel-checked counterexample with one) the groups of '
        'matchGroups; Props/Regex.lean ties the pattern texts to the source and to the constants of the translated module.',
 'C10': ' The seat thread that sends these streams is also covered as TRANSLATED code (see C09: Generated/PyCoreThreads.lean, Translated/ThreadsSeat*.lean). '
        'Refused actions (an illegal call, a card not held, a card already played) are exercised too: nobody may be told about an action that was not accepted.',
 'C13': ' Since session 5 one abort path IS covered on translated code: Translated/ThreadsMainF.lean main_bidding_unparseable_raises — an unparseable plain-ASCII call makes the '
        'translated bidding_phase raise at the parse_bid statement, before take_bid and before any relay, and ThreadsMainH.lean main_playing_unparseable_raises — after any number of '
        'completed tricks and accepted cards an unparseable card text makes the translated playing_phase raise before anything about that card is relayed (parse_bid_refuses / parse_card_refuses: the translated parsers raise '
        'exactly when the model\'s refuse). The operator\'s interrupt is also delivered as a REAL signal (harness/sigint_smoke.py: Server.run in the main thread of a child process over loopback '
        'TCP, SIGINT while a later board is under way). The translated main thread (Generated/PyCoreThreads.lean) covers the normal path only: MiniPy '
        'drops the state at an exception, so the abort path stays with the hand-written abort model and the fault enumeration.',
}
REGEX5 = (' Since session 5 the regular expressions these theorems meet are themselves under theorems (DESIGN 10.2f): the generic regex engine of '
          'Model/Regex.lean is given a fuel-free denotation (Lemmas/RegexPbnA.lean) and proved equal, pattern by pattern, to the hand scanners of the '
          'models; the engine <-> CPython step (differential-tested on every C19 run) is what remains assumed. ')
ADDENDA5 = {
 'C08': REGEX5 + 'Translated/MsgParsers*.lean + ThreadsMainE.lean: remove_alert_word, parse_card, parse_bid as translated read every plain-ASCII text as the '
        'model does, so the main-thread capstone holds with NO parse hypothesis for every scenario whose call and card texts are plain ASCII '
        '(translated_main_thread_is_session_program_ascii) — not only for the protocol texts.',
 'C09': REGEX5 + 'Lemmas/RegexConnect*.lean + Translated/ConnectInfo.lean + ThreadsSeatE.lean: the connection line (case folding proved for all code points; '
        'class = no non-ASCII decimal digit, shown necessary), translated parse_connection_info = parseConnect?, and the hypothesis hparse of the '
        'seat-thread capstone discharged (translated_seat_thread_is_session_program_protocol).',
 'C11': REGEX5 + 'Translated/ClientParsers*.lean, HandParsers*.lean, ThreadsClientE/F/Hands.lean: parse_team_names, parse_leader_message (every text), parse_board '
        '(no non-ASCII digit), parse_cards / parse_hand (ASCII; every hand) as translated = the model; connectParses discharged for every input '
        '(connectParses_all), dealParses for every hand (dealParses_of_hand), board headers for every board number; ThreadsClientG.lean assembles them: '
        'session_boards_parses and translated_client_is_session_program_closed — the bundled-client capstone with NO parse hypothesis for every scenario with '
        'conforming ASCII texts and proper hands.',
 'C12': ' Translated/JsonRoundTrip.lean composes writer and reader INSIDE the translated code: jr_log_round_trip_translated — for every list of well-formed '
        'entries the document the translated JsonLogWriter writes is read by the translated parse_board_logs as exactly the entries written (up to the '
        'normalisation the property names); jr_log_as_settings_translated likewise through parse_board_settings.',
 'C19': REGEX5 + 'Audited here as well: Lemmas/RegexMsgBid*, RegexMsgClient*, RegexMsgHand* (the engine on every message pattern of both ends = the scanners of '
        'Model/Msg.lean, on the stated classes of subjects, with kernel-checked counterexamples where a class restriction is needed: U+001C-U+001F for \\s, '
        'non-ASCII decimal digits for \\d) and the translated parsers of both ends = the model parsers (MsgParsers*, ClientParsers*, HandParsers*), so the '
        'round-trip theorems of this property (builder text read back as the value) now speak about the translated builders AND parsers for every value, '
        'not only for the kernel-evaluated finite families of Translated/Messages.lean.',
 'C20': REGEX5 + 'Lemmas/RegexConnect*.lean + Translated/ConnectInfo.lean: the translated parse_connection_info returns the model\'s (team, seat, version) or raises '
        'Exception / ValueError for EVERY request text without a non-ASCII decimal digit, at every fuel >= 31 (parse_connection_info_translated).',
}
for k, extra in ADDENDA5.items():
    if k in CLAIMS:
        t, n, tech = CLAIMS[k]
        CLAIMS[k] = (t + extra, n, tech)
for k, extra in ADDENDA.items():
    if k in CLAIMS:
        t, n, tech = CLAIMS[k]
        CLAIMS[k] = (t + extra, n + ' The MiniPy semantics and the two translators (desugar_threads.py: what is external is declared by name; '
                     'translate_py.py) are validated by execution next to the real threads on every run, not proved.', tech)
PENDING = 'check not built yet in this session (work in progress, see DESIGN.md section 9); will be claimed when its theorems and correspondence run'

checks, na = [], []
for p in props:
    i = p['id']
    if i in CLAIMS and os.path.exists(os.path.join(VERIF, 'harness', f'p{i}.py')):
        text, note, tech = CLAIMS[i]
        checks.append({
            'property_id': i,
            'quick_cmd': f'./check {i} --tier quick',
            'thorough_cmd': f'./check {i} --tier thorough',
            'evidence_file': f'/verif/evidence/{i}.json',
            'replay_cmd_template': f'./check {i} --replay {{path}}',
            'engine': 'lean4-proof+correspondence',
            'level_claimed': {'category': 'proof', 'text': text, 'design_ref': f'DESIGN.md#{i}'},
            'level_note': note,
            'technique': tech})
    else:
        na.append({'property_id': i, 'reason': PENDING})
m = {
 'version': 1,
 'setup_cmd': 'cd /verif/lean && lake build BridgeVerif driver',
 'hooks': {'guard': 'BRIDGE_ENV_VERIF', 'enable': 'none needed: the checks import /repo in-process through its public API; no source hooks',
           'baseline_off_cmd': 'cd /repo && /venv/bin/python -m pytest -ra -q -p no:cacheprovider --timeout=900 --continue-on-collection-errors',
           'source_commits': [], 'add_only': True},
 'engines': [{'name': 'lean4-proof+correspondence', 'path': '/verif/lean + /verif/harness',
              'serves_properties': [c['property_id'] for c in checks],
              'kind_free_text': 'Lean 4 theorems about hand-written executable models (lake project BridgeVerif, Mathlib-free), '
              'axiom audit per theorem, and a differential correspondence check that runs the compiled model driver and the real '
              'implementation from /repo on the same op sequences'}],
 'checks': checks,
 'not_applicable': na,
 'notes': 'All checks: exit 0 held / only known findings; exit 1 with VIOLATION line; exit 2 infrastructure failure. VERIF_SEED and VERIF_TIER honoured. BRIDGE_ENV_REPO overrides /repo (used for mutant runs on scratch copies).',
}
json.dump(m, open(os.path.join(VERIF, 'MANIFEST.json'), 'w'), indent=1)
print(len(checks), 'claimed;', len(na), 'pending')
