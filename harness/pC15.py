"""C15 — exhaustive correspondence of every notation converter with the Lean model."""
import itertools
import common
from common import Case

TITLE = 'Card, call, contract, seat and vulnerability notations are exact inverses'
LEAN_TARGETS = ['BridgeVerif.Props.C15', 'BridgeVerif.Translated.Notation', 'BridgeVerif.Translated.Contract', 'BridgeVerif.Props.C15t']
AUDIT_PROPS = ['C15', 'Translated.Notation', 'Translated.Contract', 'C15t']
REQUIRED = ['C15t.translated_contract_is_model', 'Translated.Notation.player_moves', 'Translated.Notation.bid_numbers',
            'Translated.Notation.bid_texts', 'Translated.Notation.card_numbers', 'Translated.Notation.card_texts',
            'Translated.Notation.vul_texts', 'Translated.Contract.contract_class_translated',
            'deck_complete', 'calls_complete', 'card_int_round_trip', 'card_str_round_trip', 'card_notations_injective',
            'card_order_is_index_order', 'bid_idx_round_trip', 'bid_str_round_trip', 'bid_level_suit_round_trip',
            'bid_notations_injective', 'seat_formal_name_round_trip', 'suit_name_round_trip', 'vul_round_trip',
            'contract_text_round_trip', 'passed_out_text_round_trip', 'contract_text_injective']
EXHAUSTIVE = True
KEEP_FIRST = 0
RULE = ('complete enumeration of the value domains (52 cards, 52x52 card pairs, 38 calls, 8x5 level/suit pairs incl. out of '
        'range, 4 seats, 4x4 seat pairs, 4 vulnerabilities, 5 suits, contracts = (35 bids + None + Pass) x 4 flag combinations '
        'x 4 vul x 5 declarers) and, for every parser, every string the builders can produce plus every string of length <= 2 '
        '(cards, ranks) / <= 3 (bids) over an adversarial ASCII alphabet, the accepted vulnerability spellings and near-misses. '
        'distinct = distinct op lines; all non-trivial (each evaluates a converter).')
TRUSTED = ['the MiniPy semantics (Model/MiniPy.lean: value semantics, no aliasing) and the code translator (harness/translate_py.py), validated on every run by executing the translated program next to the real code (counters translated_*)',
           'the value domains are enumerated completely; parsers are compared on the stated finite string sets only '
           '(ASCII; int() of non-ASCII digits is outside the modelled domain)']
ASSUMPTIONS = ['CPython Enum lookup by name/value, str slicing, int() on ASCII digits']

VULS = ['None', 'NS', 'EW', 'Both']
SEATS = ['N', 'E', 'S', 'W']
SUITS = ['C', 'D', 'H', 'S', 'NT']


# areas of the pure core whose TRANSLATION (Generated/PyCore.lean) is run next to the real code in this check
TRANSLATED_AREAS = ('notation',)

def hx(s):
    return s.encode('utf-8').hex() if s else '-'


# every op is a call of a function whose result must not depend on earlier calls: also evaluated in other orders
PURE_OPS = True


def cases(ctx):
    ops = []
    for c in range(52):
        ops += [f'N.card.str {c}', f'N.card.int {c}']
    for n in range(-3, 56):
        ops.append(f'N.card.ofint {n}')
    for a in range(52):
        for b in range(52):
            ops.append(f'N.card.lt {a} {b}')
    alpha = 'CDHSNT0123456789JQKAXPacx -'
    for s in [''] + [a for a in alpha] + [a + b for a in alpha for b in alpha] + ['C10', 'SAA', 'NT2']:
        ops.append(f'N.card.parse {hx(s)}')
    for r in range(0, 17):
        ops.append(f'N.rank.str {r}')
    for ch in alpha:
        ops.append(f'N.rank.parse {hx(ch)}')
    yield Case(ops, {'kind': 'cards'})
    ctx.count('card_ops', len(ops))
    ops = []
    for c in range(38):
        ops += [f'N.bid.str {c}', f'N.bid.info {c}']
    for n in range(-2, 41):
        ops.append(f'N.bid.ofint {n}')
    for lv in range(-2, 10):
        for s in SUITS:
            ops.append(f'N.bid.ls {lv} {s}')
    balpha = '01278CDHSNTPasXx '
    strs = {''} | {''.join(t) for k in (1, 2, 3) for t in itertools.product(balpha, repeat=k)}
    strs |= {'Pass', 'pass', 'PASS', 'XX', 'XXX', 'ssaP', 'sPas', '1NT', '7NT', 'NT1', '1NTX', '8NT', '0NT', 'assP'}
    for s in sorted(strs):
        ops.append(f'N.bid.parse {hx(s)}')
    yield Case(ops, {'kind': 'calls'})
    ctx.count('call_ops', len(ops))
    ops = []
    for p in SEATS:
        ops.append(f'N.seat.info {p}')
        for q in SEATS:
            ops.append(f'N.seat.partner {p} {q}')
        for v in VULS:
            ops.append(f'N.seat.vul {p} {v}')
    for s in ['North', 'East', 'South', 'West', 'north', 'NORTH', 'N', 'E', 'S', 'W', '', 'Nort', 'Northh', ' North', 'n']:
        ops += [f'N.seat.parseformal {hx(s)}', f'N.seat.parse {hx(s)}']
    for v in VULS:
        ops.append(f'N.vul.str {v}')
    for s in ['None', 'Love', '-', 'NS', 'EW', 'Both', 'All', 'NONE', 'BOTH', 'none', 'all', 'both', 'love', '', 'N/S', 'Neither',
              'ns', 'ew', 'EW ', 'All ', '--']:
        ops.append(f'N.vul.parse {hx(s)}')
    for s in SUITS:
        ops.append(f'N.suit.info {s}')
    for s in ['C', 'D', 'H', 'S', 'NT', 'N', 'T', 'c', '', 'NTT', 'CC']:
        ops.append(f'N.suit.parse {hx(s)}')
    yield Case(ops, {'kind': 'seats-vul-suits'})
    ctx.count('seat_vul_suit_ops', len(ops))
    ops = []
    texts = set()
    for b in [str(i) for i in range(35)] + ['-', 'P']:
        for x in (0, 1):
            for xx in (0, 1):
                ops.append(f'N.contract.str {b} {x} {xx}')
    from_builders = ['Passed_out'] + [f'{lv}{s}{d}' for lv in range(1, 8) for s in SUITS for d in ('', 'X', 'XX')]
    odd = ['', 'X', 'XX', 'XXX', 'Pass', 'PassX', 'PassXX', '1CXXX', '8C', '0C', '1N', 'Passed_outX', 'passed_out', '1cX', '1C x',
           'XX1C', 'C1', 'C1X']
    for s in from_builders + odd:
        for v in VULS:
            for d in SEATS + ['-']:
                ops.append(f'N.contract.parse {hx(s)} {v} {d}')
    yield Case(ops, {'kind': 'contracts'})
    ctx.count('contract_ops', len(ops))


def impl_exec(ops):
    from bridge_env import Bid, Card, Contract, Pair, Player, Suit, Vul
    vmap = {'None': Vul.NONE, 'NS': Vul.NS, 'EW': Vul.EW, 'Both': Vul.BOTH}

    def un(x):
        return '' if x == '-' else bytes.fromhex(x).decode('utf-8')

    def show_contract(c):
        decl = '-' if c.declarer is None else c.declarer.name
        if c.is_passed_out():
            return f'PO:{c.vul}:{decl}'
        st = 'XX' if c.xx else 'X' if c.x else '-'
        return f'{c.final_bid.idx}:{st}:{c.vul}:{decl}'
    out = []
    for op in ops:
        t = op.split()
        k = t[0]
        try:
            if k == 'N.card.str':
                r = hx(str(Card.int_to_card(int(t[1]))))
            elif k == 'N.card.int':
                r = str(int(Card.int_to_card(int(t[1]))))
            elif k == 'N.card.ofint':
                c = Card.int_to_card(int(t[1]))
                r = f'{c.rank}{c.suit.name}'
            elif k == 'N.card.lt':
                a, b = Card.int_to_card(int(t[1])), Card.int_to_card(int(t[2]))
                r = ''.join('1' if z else '0' for z in (a < b, a <= b, a > b, a >= b))
            elif k == 'N.card.parse':
                r = str(int(Card.str_to_card(un(t[1]))))
            elif k == 'N.rank.str':
                r = hx(Card.rank_int_to_str(int(t[1])))
            elif k == 'N.rank.parse':
                r = str(Card.rank_str_to_int(un(t[1])))
            elif k == 'N.bid.str':
                r = hx(str(Bid.int_to_bid(int(t[1]))))
            elif k == 'N.bid.parse':
                r = str(Bid.str_to_bid(un(t[1])).idx)
            elif k == 'N.bid.ofint':
                r = str(Bid.int_to_bid(int(t[1])).idx)
            elif k == 'N.bid.info':
                b = Bid.int_to_bid(int(t[1]))
                r = f'{b.idx} {b.value} {"-" if b.level is None else b.level} {"-" if b.suit is None else b.suit.name}'
            elif k == 'N.bid.ls':
                r = str(Bid.level_suit_to_bid(int(t[1]), Suit[t[2]]).idx)
            elif k == 'N.seat.info':
                p = Player[t[1]]
                assert p.next_player is p.left
                r = (f'{hx(p.formal_name)} {p.left.name} {p.partner.name} {p.right.name} {p.pair} {p.opponent_pair} '
                     f'{p.value}')
            elif k == 'N.seat.partner':
                r = '1' if Player[t[1]].is_partner(Player[t[2]]) else '0'
            elif k == 'N.seat.vul':
                a = Player[t[1]].is_vul(vmap[t[2]])
                assert a == Player[t[1]].pair.is_vul(vmap[t[2]])
                r = '1' if a else '0'
            elif k == 'N.seat.parseformal':
                r = Player.convert_formal_name(un(t[1])).name
            elif k == 'N.seat.parse':
                r = Player[un(t[1])].name
            elif k == 'N.vul.str':
                r = f'{hx(str(vmap[t[1]]))} {hx(vmap[t[1]].pbn_format())}'
            elif k == 'N.vul.parse':
                r = str(Vul.str_to_vul(un(t[1])))
            elif k == 'N.suit.info':
                s = Suit[t[1]]
                r = f'{s.value} {1 if s.is_minor() else 0} {1 if s.is_major() else 0}'
            elif k == 'N.suit.parse':
                r = str(Suit[un(t[1])])
            elif k == 'N.contract.str':
                fb = None if t[1] == '-' else Bid.Pass if t[1] == 'P' else Bid.int_to_bid(int(t[1]))
                r = hx(str(Contract(final_bid=fb, x=t[2] == '1', xx=t[3] == '1')))
            elif k == 'N.contract.parse':
                c = Contract.str_to_contract(un(t[1]), vul=vmap[t[2]], declarer=None if t[3] == '-' else Player[t[3]])
                r = show_contract(c)
            else:
                r = 'bad-op'
        except Exception:
            r = 'ERR'
        out.append(r)
    return out


def classify(ops, exp, got):
    i = common.first_diff(exp, got)
    return 'notation:' + (ops[i].split()[0] if i is not None else '?')
