"""Regular-expression texts, their flags, and the queue-message constants of the repository -> Lean
(lean/BridgeVerif/Generated/SourceConsts.lean).

Every Python regex of the anchored code is represented in the Lean models by a hand-written scanner (DESIGN appendix F).
A scanner is only meaningful for the pattern it was written for, so the PATTERN TEXTS (and whether they are used with
re.IGNORECASE, and with which `re` function) are extracted from the source on every run and pinned by the theorem
`Bridge.Patterns.patterns_as_modelled` (Spec/Patterns.lean): an edited regular expression breaks that obligation, and the
check then has to find a failing input through the correspondence run (or report `no-failing-input-found`).
The same is done for the six queue messages of `Server.Message` (used literally by the session models).

Extraction is by `ast`: in the listed functions / classes, every string (or f-string, rendered with `{expr}` placeholders)
that is the first argument of an `re.<fn>` call, or is assigned to a name containing "pattern" (any case).
"""
import ast
import os

# (file, qualified scope) in which patterns are looked for; '' = module level
SCOPES = [
    ('bridge_env/hands.py', ''),
    ('bridge_env/hands.py', 'Hands.convert_pbn'),
    ('bridge_env/hands.py', 'Hands._hand_parser'),
    ('bridge_env/data_handler/pbn_handler/parser.py', 'PbnParser'),
    ('bridge_env/data_handler/pbn_handler/parser.py', 'PbnParser.extract_content'),
    ('bridge_env/data_handler/pbn_handler/parser.py', 'PbnParser.parse_board'),
    ('bridge_env/data_handler/pbn_handler/parser.py', 'PbnParser.parse_stream'),
    ('bridge_env/network_bridge/socket_interface.py', 'MessageInterface.parse_match_base'),
    ('bridge_env/network_bridge/socket_interface.py', 'MessageInterface.parse_bid'),
    ('bridge_env/network_bridge/socket_interface.py', 'MessageInterface.parse_card'),
    ('bridge_env/network_bridge/server.py', 'PlayerThread._check_message'),
    ('bridge_env/network_bridge/server.py', 'PlayerThread.parse_connection_info'),
    ('bridge_env/network_bridge/server.py', 'Server.remove_alert_word'),
    ('bridge_env/network_bridge/client.py', 'Client.parse_team_names'),
    ('bridge_env/network_bridge/client.py', 'Client.parse_board'),
    ('bridge_env/network_bridge/client.py', 'Client.parse_cards'),
    ('bridge_env/network_bridge/client.py', 'Client.parse_hand'),
    ('bridge_env/network_bridge/client.py', 'Client.parse_leader_message'),
]
MESSAGE_CLASS = ('bridge_env/network_bridge/server.py', 'Server.Message')


class TranslationError(Exception):
    pass


def render(node):
    """text of a string literal / f-string / implicit concatenation; None if not a string expression"""
    if isinstance(node, ast.Constant) and isinstance(node.value, str):
        return node.value
    if isinstance(node, ast.JoinedStr):
        out = []
        for v in node.values:
            if isinstance(v, ast.Constant):
                out.append(v.value)
            elif isinstance(v, ast.FormattedValue):
                out.append('{' + ast.unparse(v.value) + '}')
            else:
                return None
        return ''.join(out)
    if isinstance(node, ast.BinOp) and isinstance(node.op, ast.Add):
        a, b = render(node.left), render(node.right)
        return None if a is None or b is None else a + b
    return None


def find_scope(tree, qual):
    node = tree
    for part in [p for p in qual.split('.') if p]:
        for child in ast.iter_child_nodes(node):
            if isinstance(child, (ast.ClassDef, ast.FunctionDef)) and child.name == part:
                node = child
                break
        else:
            raise TranslationError(f'scope {qual!r} not found')
    return node


def own_statements(scope):
    """nodes of the scope without descending into nested functions / classes"""
    stack = list(ast.iter_child_nodes(scope))
    while stack:
        n = stack.pop(0)
        yield n
        if not isinstance(n, (ast.FunctionDef, ast.ClassDef, ast.Lambda)):
            stack = list(ast.iter_child_nodes(n)) + stack


def flags_of(call):
    names = []
    for a in list(call.args[2:]) + [k.value for k in call.keywords if k.arg == 'flags']:
        names.append(ast.unparse(a))
    return '|'.join(names)


def extract(repo):
    items = []
    for rel, qual in SCOPES:
        path = os.path.join(repo, rel)
        tree = ast.parse(open(path, encoding='utf-8').read())
        scope = find_scope(tree, qual)
        where = f'{os.path.basename(rel)}:{qual or "<module>"}'
        for n in own_statements(scope):
            if isinstance(n, (ast.Assign, ast.AnnAssign)):
                targets = n.targets if isinstance(n, ast.Assign) else [n.target]
                for t in targets:
                    name = t.id if isinstance(t, ast.Name) else (t.attr if isinstance(t, ast.Attribute) else None)
                    if name and 'pattern' in name.lower() or (name in ('HAND',)):
                        if n.value is None:
                            continue
                        txt = render(n.value)
                        if txt is None:
                            # a computed pattern (e.g. expected_message.replace(' ', r'\s+')): keep its source text
                            txt = '<expr> ' + ast.unparse(n.value)
                        items.append((where, f'assign {name}', txt))
            if isinstance(n, ast.Call) and isinstance(n.func, ast.Attribute) and isinstance(n.func.value, ast.Name) \
                    and n.func.value.id == 're' and n.args:
                first = n.args[0]
                txt = render(first)
                if txt is None:
                    txt = '<expr> ' + ast.unparse(first)
                items.append((where, f're.{n.func.attr} flags={flags_of(n)}', txt))
    # Server.Message
    rel, qual = MESSAGE_CLASS
    tree = ast.parse(open(os.path.join(repo, rel), encoding='utf-8').read())
    scope = find_scope(tree, qual)
    msgs = []
    for n in scope.body:
        if isinstance(n, (ast.Assign, ast.AnnAssign)):
            t = n.targets[0] if isinstance(n, ast.Assign) else n.target
            v = render(n.value) if n.value is not None else None
            if isinstance(t, ast.Name) and v is not None:
                msgs.append((t.id, v))
    if not msgs:
        raise TranslationError('Server.Message has no string constants')
    return items, msgs


def lean_str(s):
    out = []
    for ch in s:
        if ch == '"':
            out.append('\\"')
        elif ch == '\\':
            out.append('\\\\')
        elif ch == '\n':
            out.append('\\n')
        elif ch == '\t':
            out.append('\\t')
        elif ch == '\r':
            out.append('\\r')
        elif ord(ch) < 0x20 or ord(ch) == 0x7f:
            out.append('\\x%02x' % ord(ch))
        else:
            out.append(ch)
    return '"' + ''.join(out) + '"'


HEADER = '''/-!
GENERATED by harness/translate_consts.py from the repository's source — do not edit.
`patterns` : every regular-expression text of the anchored code with its place and use;
`messages` : the constants of `Server.Message`.
-/
namespace Bridge.Generated.Source
'''


def generate(repo):
    items, msgs = extract(repo)
    out = [HEADER, 'def patterns : List (String × String × String) := [']
    out.append(',\n'.join(f'  ({lean_str(w)}, {lean_str(u)}, {lean_str(t)})' for (w, u, t) in items))
    out.append(']\n')
    out.append('def messages : List (String × String) := [')
    out.append(',\n'.join(f'  ({lean_str(k)}, {lean_str(v)})' for k, v in msgs))
    out.append(']\n')
    out.append('end Bridge.Generated.Source\n')
    return '\n'.join(out)


def regenerate(repo, lean_dir):
    path = os.path.join(lean_dir, 'BridgeVerif', 'Generated', 'SourceConsts.lean')
    try:
        text = generate(repo)
    except (TranslationError, OSError, SyntaxError) as e:
        return False, f'source-constant translation failed: {type(e).__name__}: {e}'
    old = open(path, encoding='utf-8').read() if os.path.exists(path) else None
    if old != text:
        os.makedirs(os.path.dirname(path), exist_ok=True)
        tmp = path + '.tmp%d' % os.getpid()
        with open(tmp, 'w', encoding='utf-8') as f:
            f.write(text)
        os.replace(tmp, path)
        return True, None
    return False, None


if __name__ == '__main__':
    import sys
    repo = os.environ.get('BRIDGE_ENV_REPO', '/repo')
    lean = os.path.join(os.path.dirname(os.path.dirname(os.path.abspath(__file__))), 'lean')
    ch, err = regenerate(repo, lean)
    print('changed' if ch else 'unchanged', err or '')
    sys.exit(1 if err else 0)
