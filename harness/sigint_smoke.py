"""The operator interrupts the table manager with a REAL signal (C13, the part the deterministic scheduler cannot exhibit).

The unmodified Server runs in the MAIN thread of a child process (as `bridge_env.network_bridge.server.main` runs it), over
real TCP on loopback; four clients in this process pass board 1 out, answer the deal of board 2 and then fall silent; when
board 2's cards have arrived the child is sent SIGINT.  Python turns it into KeyboardInterrupt in the main thread; the
output file must then be a complete, parseable log holding exactly board 1.

Exit 0 = it is; 1 = it is not (detail on stdout); 3 = loopback / fork not available here (not a verdict).
Run with PYTHONPATH=<repo> /venv/bin/python sigint_smoke.py"""
import json
import os
import pathlib
import signal
import socket
import sys
import tempfile
import threading
import time

CHILD = r'''
import pathlib, sys, time
from bridge_env import Card, Hands, Player, Vul
from bridge_env.data_handler.abstract_classes import BoardSetting
from bridge_env.network_bridge import server as server_mod
from bridge_env.network_bridge.server import Server
port, path = int(sys.argv[1]), sys.argv[2]
real_sleep = time.sleep
server_mod.time.sleep = lambda t: real_sleep(min(t, 0.02))        # the sleeps, not the synchronisation, are shortened
def deal(k):
    deck = [(i * 7 + k) % 52 for i in range(52)]
    return Hands(*[{Card.int_to_card(c) for c in deck[i * 13:(i + 1) * 13]} for i in range(4)])
boards = [BoardSetting(deal(k), Player.N, Vul.NONE, f'sig-{k}') for k in range(3)]
with Server('127.0.0.1', port, pathlib.Path(path), boards) as srv:
    srv.run()
'''


def free_port():
    s = socket.socket(socket.AF_INET, socket.SOCK_STREAM)
    try:
        s.bind(('127.0.0.1', 0))
        return s.getsockname()[1]
    finally:
        s.close()


class Wire:
    def __init__(self, sock):
        self.sock, self.buf = sock, b''

    def send(self, text):
        self.sock.sendall(text.encode('utf-8') + b'\r\n')

    def recv(self):
        while b'\r\n' not in self.buf:
            d = self.sock.recv(4096)
            if not d:
                raise ConnectionError('closed')
            self.buf += d
        line, self.buf = self.buf.split(b'\r\n', 1)
        return line.decode('utf-8')


FORMAL = {'N': 'North', 'E': 'East', 'S': 'South', 'W': 'West'}


def client(seat, port, reached, log):
    name = FORMAL[seat]
    try:
        for _ in range(200):
            try:
                s = socket.create_connection(('127.0.0.1', port), timeout=30)
                break
            except OSError:
                time.sleep(0.05)
        w = Wire(s)
        w.send(f'Connecting "{"NS" if seat in "NS" else "EW"}" as {name} using protocol version 18')
        w.recv()
        w.send(f'{name} ready for teams')
        w.recv()
        w.send(f'{name} ready to start')
        for board in (1, 2):
            w.recv()                                   # Start of board
            w.send(f'{name} ready for deal')
            w.recv()
            w.send(f'{name} ready for cards')
            w.recv()
            if board == 2:
                reached[seat] = True                   # board 2 is under way: fall silent
                time.sleep(30)
                return
            order = ['N', 'E', 'S', 'W']               # dealer North: four passes
            for who in order:
                if who == seat:
                    w.send(f'{name} passes')
                else:
                    w.send(f"{name} ready for {FORMAL[who]}'s bid")
                    w.recv()
    except Exception as e:      # noqa: BLE001
        log[seat] = repr(e)


def main():
    import subprocess
    try:
        port = free_port()
    except OSError as e:
        print('loopback not available:', e)
        return 3
    out = tempfile.mkdtemp(prefix='verif-sigint-')
    path = os.path.join(out, 'log.json')
    env = dict(os.environ)
    child = subprocess.Popen([sys.executable, '-c', CHILD, str(port), path], env=env, stdout=subprocess.DEVNULL,
                             stderr=subprocess.DEVNULL)
    reached, log = {}, {}
    ts = [threading.Thread(target=client, args=(p, port, reached, log), daemon=True) for p in 'NESW']
    for t in ts:
        t.start()
    deadline = time.time() + 60
    while len(reached) < 4 and time.time() < deadline and child.poll() is None:
        time.sleep(0.05)
    detail = {'clients_reached_board_2': sorted(reached), 'client_errors': log}
    if len(reached) < 4:
        child.kill()
        detail['problem'] = 'the session did not reach board 2 (not the property under test)'
        print(json.dumps(detail))
        return 3 if not log else 1
    time.sleep(0.3)                                    # main is now blocked in Queue.get for the dealer's call of board 2
    child.send_signal(signal.SIGINT)
    try:
        child.wait(timeout=20)
    except Exception:           # noqa: BLE001
        child.kill()
        detail['problem'] = 'the table manager did not stop after SIGINT'
        print(json.dumps(detail))
        return 1
    detail['exit_status'] = child.returncode
    ok = True
    try:
        text = pathlib.Path(path).read_text()
        doc = json.loads(text)
        detail['boards_logged'] = [r['board_id'] for r in doc['logs']]
        ok = detail['boards_logged'] == ['sig-0']
    except Exception as e:      # noqa: BLE001
        detail['log'] = repr(e)
        try:
            detail['text_tail'] = pathlib.Path(path).read_text()[-120:]
        except OSError:
            detail['text_tail'] = None
        ok = False
    print(json.dumps(detail))
    try:
        for f in os.listdir(out):
            os.unlink(os.path.join(out, f))
        os.rmdir(out)
    except OSError:
        pass
    return 0 if ok else 1


if __name__ == '__main__':
    rc = main()
    sys.stdout.flush()
    os._exit(rc)
