"""C16 — point_difference_to_imps / score_to_imp vs the Lean model on dense and huge integers."""
import common
from common import Case

TITLE = 'IMP conversion is the official scale, odd and monotone, for every difference'
LEAN_TARGETS = ['BridgeVerif.Props.C16', 'BridgeVerif.Props.C16t']
AUDIT_PROPS = ['C16', 'C16t']
REQUIRED = ['C16t.translated_imps_is_scale', 'C16t.translated_score_to_imp_is_sum',
            'imps_is_scale', 'imps_bounds', 'imps_zero_below_20', 'imps_24_from_4000', 'imps_odd',
            'imps_monotone', 'score_to_imp_is_sum']
RULE = ('every integer in [-4200, 4200] (all thresholds and all off-grid values), +-10^k and +-2^k up to 10^40 '
        'with +-1 neighbours, seeded random integers of up to 140 bits, and pairs for the two-score form; '
        'distinct = distinct integers / pairs; non-trivial = all (each is one evaluation of the scan)')
TRUSTED = ['the MiniPy semantics (Model/MiniPy.lean: value semantics, no aliasing) and the code translator (harness/translate_py.py), validated on every run by executing the translated program next to the real code (counters translated_*)',
           'the theorems hold for every Int; the correspondence samples the infinite domain densely around every constant']
ASSUMPTIONS = ['CPython int arithmetic (abs, comparison) is exact on unbounded integers']
KEEP_FIRST = 0
SHARDS = {'quick': 1, 'thorough': 1}


# every op is a call of a function whose result must not depend on earlier calls: also evaluated in other orders
PURE_OPS = True


# areas of the pure core whose TRANSLATION (Generated/PyCore.lean) is run next to the real code in this check
TRANSLATED_AREAS = ('imps',)

def cases(ctx):
    rng = ctx.rng
    ops = [f'I.imps {d}' for d in range(-4200, 4201)]
    yield Case(ops, {'range': [-4200, 4200]})
    ctx.count('dense_range', len(ops))
    big = []
    for k in range(0, 41):
        for base in (10 ** k, 2 ** (3 * k)):
            for delta in (-1, 0, 1):
                big += [base + delta, -(base + delta)]
    yield Case([f'I.imps {d}' for d in big], {'kind': 'powers'})
    ctx.count('powers', len(big))
    n = 2000 if ctx.quick else 20000
    rnd = [rng.randrange(-2 ** rng.randrange(1, 140), 2 ** rng.randrange(1, 140)) for _ in range(n)]
    yield Case([f'I.imps {d}' for d in rnd], {'kind': 'random-big'})
    ctx.count('random_big', n)
    pairs = []
    for _ in range(n):
        a = rng.randrange(-8000, 8001)
        b = rng.choice([rng.randrange(-8000, 8001), -a + rng.randrange(-60, 61)])
        pairs.append((a, b))
    yield Case([f'I.pair {a} {b}' for a, b in pairs], {'kind': 'pairs'})
    ctx.count('pairs', len(pairs))
    # structured pairs: realistic scores of both signs in every relation to each other (equal, opposite, zero, swapped,
    # sums on / next to every threshold)
    scores = [0, 50, 90, 100, 110, 140, 200, 300, 400, 420, 430, 450, 500, 620, 630, 650, 800, 980, 1100, 1400, 1430, 1440,
              2000, 2220, 2980, 3400, 4000, 7600]
    scores = sorted(set(scores + [-x for x in scores]))
    grid = [(a, b) for a in scores for b in scores]
    th = [20, 50, 90, 130, 170, 220, 270, 320, 370, 430, 500, 600, 750, 900, 1100, 1300, 1500, 1750, 2000, 2250, 2500, 3000,
          3500, 4000]
    near = []
    for t in th:
        for a in (0, 100, -100, t, rng.randrange(-3000, 3000)):
            for d in (-1, 0, 1):
                near += [(a, t + d - a), (a, -(t + d) - a)]
    struct = grid + near + [(a, a) for a in range(-4100, 4101, 10)] + [(a, -a) for a in range(-4100, 4101, 50)]
    yield Case([f'I.pair {a} {b}' for a, b in struct], {'kind': 'structured-pairs'})
    ctx.count('structured_pairs', len(struct))


def impl_exec(ops):
    from bridge_env.score import point_difference_to_imps, score_to_imp
    out = []
    for op in ops:
        t = op.split()
        try:
            if t[0] == 'I.imps':
                v = int(point_difference_to_imps(int(t[1])))
                out.append(f'{v} {v}')
            else:
                out.append(str(int(score_to_imp(int(t[1]), int(t[2])))))
        except Exception:
            out.append('ERR')
    return out


def classify(ops, exp, got):
    i = common.first_diff(exp, got)
    return 'imps:' + (ops[i] if i is not None else '?').replace(' ', '_')
