"""Automatic mutation sweep — a measurement of the checks' detection power, not a check.

  1. generate first-order mutants of the repository's source (comparison / arithmetic / boolean operators, integer and
     boolean constants, `not` removal, condition negation, statement deletion) in the listed files;
  2. keep those with which the pinned test-suite still passes (run in scratch worktrees OUTSIDE /repo and /verif);
  3. run the quick correspondence of the properties anchored in the mutated file against each survivor
     (BRIDGE_ENV_REPO=<worktree>, VERIF_NO_BUILD=1: model driver as built from the unchanged tree, no proof rebuild);
  4. write sweep/<name>.json + sweep/<name>.md: killed-by-suite / caught (by which property, with what) / not caught.

A survivor that no check catches is either an equivalent mutant (the property still holds) or a gap: triaged by hand in
DESIGN.md §10.4b.

usage: mutsweep.py <name> [--files f1,f2,…] [--jobs N] [--limit K] [--seed S]
"""
import argparse
import ast
import json
import multiprocessing
import os
import random
import re
import shutil
import subprocess
import sys
import time

VERIF = os.path.dirname(os.path.dirname(os.path.abspath(__file__)))
REPO = '/repo'
PY = '/venv/bin/python'
ROOT = '/tmp/msw'

# file -> properties whose quick check is run against a surviving mutant of that file
PROPS = {
    'bridge_env/bidding_phase.py': ['C01', 'C02', 'C03'],
    'bridge_env/playing_phase.py': ['C04', 'C05', 'C06', 'C11'],
    'bridge_env/score.py': ['C07', 'C16'],
    'bridge_env/contract.py': ['C07', 'C15', 'C03'],
    'bridge_env/bid.py': ['C15', 'C01', 'C19'],
    'bridge_env/card.py': ['C15', 'C04', 'C14'],
    'bridge_env/player.py': ['C15', 'C02', 'C04'],
    'bridge_env/pair.py': ['C15', 'C07'],
    'bridge_env/suit.py': ['C15', 'C07'],
    'bridge_env/vul.py': ['C15', 'C07'],
    'bridge_env/hands.py': ['C14', 'C17'],
    'bridge_env/data_handler/json_handler/writer.py': ['C12', 'C17'],
    'bridge_env/data_handler/json_handler/parser.py': ['C12', 'C17'],
    'bridge_env/data_handler/pbn_handler/writer.py': ['C18', 'C17'],
    'bridge_env/data_handler/pbn_handler/parser.py': ['C18', 'C17'],
    'bridge_env/network_bridge/socket_interface.py': ['C19', 'C09', 'C11', 'C20'],
    'bridge_env/network_bridge/server.py': ['C08', 'C09', 'C10', 'C13', 'C20', 'C19'],
    'bridge_env/network_bridge/client.py': ['C11', 'C19'],
    'bridge_env/network_bridge/bidding_system.py': ['C11'],
    'bridge_env/network_bridge/playing_system.py': ['C11', 'C06'],
}

CMP = {ast.Lt: '<=', ast.LtE: '<', ast.Gt: '>=', ast.GtE: '>', ast.Eq: '!=', ast.NotEq: '==', ast.Is: 'is not',
       ast.IsNot: 'is', ast.In: 'not in', ast.NotIn: 'in'}
CMP_TXT = {ast.Lt: '<', ast.LtE: '<=', ast.Gt: '>', ast.GtE: '>=', ast.Eq: '==', ast.NotEq: '!=', ast.Is: 'is',
           ast.IsNot: 'is not', ast.In: 'in', ast.NotIn: 'not in'}
BIN = {ast.Add: ('+', '-'), ast.Sub: ('-', '+'), ast.Mult: ('*', '//'), ast.FloorDiv: ('//', '*'), ast.Mod: ('%', '//')}


def sh(cmd, cwd=None, env=None, timeout=1800):
    # own process group: a timed-out check is killed WITH its pool workers (they hold the output pipe otherwise)
    import signal
    p = subprocess.Popen(cmd, cwd=cwd, env=env, stdout=subprocess.PIPE, stderr=subprocess.STDOUT, text=True, start_new_session=True)
    try:
        out, _ = p.communicate(timeout=timeout)
        return p.returncode, out
    except subprocess.TimeoutExpired:
        try:
            os.killpg(p.pid, signal.SIGKILL)
        except ProcessLookupError:
            pass
        try:
            out, _ = p.communicate(timeout=30)
        except Exception:
            out = ''
        return 124, (out or '') + '\ntimeout'


class Src:
    def __init__(self, text):
        self.text = text
        self.lines = text.split('\n')
        self.starts = [0]
        for l in self.lines:
            self.starts.append(self.starts[-1] + len(l) + 1)

    def off(self, lineno, col):
        # ast columns are UTF-8 byte offsets
        line = self.lines[lineno - 1]
        return self.starts[lineno - 1] + len(line.encode('utf-8')[:col].decode('utf-8', 'ignore'))


def docstring_nodes(tree):
    out = set()
    for n in ast.walk(tree):
        if isinstance(n, (ast.FunctionDef, ast.ClassDef, ast.Module, ast.AsyncFunctionDef)) and n.body \
                and isinstance(n.body[0], ast.Expr) and isinstance(n.body[0].value, ast.Constant) \
                and isinstance(n.body[0].value.value, str):
            out.add(id(n.body[0].value))
    return out


def annotation_nodes(tree):
    out = set()
    for n in ast.walk(tree):
        anns = []
        if isinstance(n, ast.arg) and n.annotation is not None:
            anns.append(n.annotation)
        if isinstance(n, ast.AnnAssign):
            anns.append(n.annotation)
        if isinstance(n, (ast.FunctionDef, ast.AsyncFunctionDef)) and n.returns is not None:
            anns.append(n.returns)
        for a in anns:
            for m in ast.walk(a):
                out.add(id(m))
    return out


def mutants_of(rel, text):
    """list of (description, new_text)"""
    src = Src(text)
    tree = ast.parse(text)
    skip = docstring_nodes(tree) | annotation_nodes(tree)
    out = []

    def replace(a, b, new, what, node):
        out.append((f'{rel}:{node.lineno} {what}', src.text[:a] + new + src.text[b:]))

    def between(left, right, txt):
        a = src.off(left.end_lineno, left.end_col_offset)
        b = src.off(right.lineno, right.col_offset)
        seg = src.text[a:b]
        m = re.search(r'(?<![=!<>])' + re.escape(txt) + r'(?![=])' if txt in ('<', '>', '=') else re.escape(txt), seg)
        if not m:
            return None
        return a + m.start(), a + m.end()

    # logging calls and exception messages are not behaviour the properties speak about
    def in_logging(node, parents):
        p = parents.get(id(node))
        while p is not None:
            if isinstance(p, ast.Call) and isinstance(p.func, ast.Attribute) and isinstance(p.func.value, ast.Name) \
                    and p.func.value.id in ('logger', 'logging'):
                return True
            if isinstance(p, ast.Raise):
                return True
            p = parents.get(id(p))
        return False

    parents = {}
    for n in ast.walk(tree):
        for c in ast.iter_child_nodes(n):
            parents[id(c)] = n

    for n in ast.walk(tree):
        if id(n) in skip or in_logging(n, parents):
            continue
        if isinstance(n, ast.Compare):
            operands = [n.left] + list(n.comparators)
            for op, l, r in zip(n.ops, operands, operands[1:]):
                t = CMP_TXT.get(type(op))
                if t is None:
                    continue
                span = between(l, r, t)
                if span:
                    replace(span[0], span[1], CMP[type(op)], f'{t} -> {CMP[type(op)]}', n)
        elif isinstance(n, ast.BinOp) and type(n.op) in BIN:
            if isinstance(n.left, ast.Constant) and isinstance(n.left.value, str):
                continue
            t, new = BIN[type(n.op)]
            span = between(n.left, n.right, t)
            if span:
                replace(span[0], span[1], new, f'{t} -> {new}', n)
        elif isinstance(n, ast.BoolOp):
            t, new = ('and', 'or') if isinstance(n.op, ast.And) else ('or', 'and')
            for l, r in zip(n.values, n.values[1:]):
                span = between(l, r, t)
                if span:
                    replace(span[0], span[1], new, f'{t} -> {new}', n)
        elif isinstance(n, ast.UnaryOp) and isinstance(n.op, ast.Not):
            a = src.off(n.lineno, n.col_offset)
            b = src.off(n.operand.lineno, n.operand.col_offset)
            replace(a, b, '', 'not removed', n)
        elif isinstance(n, ast.Constant) and type(n.value) is int and not isinstance(parents.get(id(n)), ast.Slice):
            a, b = src.off(n.lineno, n.col_offset), src.off(n.end_lineno, n.end_col_offset)
            for d in (1, -1):
                if n.value + d >= 0 or n.value < 0:
                    replace(a, b, str(n.value + d), f'{n.value} -> {n.value + d}', n)
        elif isinstance(n, ast.Constant) and type(n.value) is bool:
            a, b = src.off(n.lineno, n.col_offset), src.off(n.end_lineno, n.end_col_offset)
            replace(a, b, str(not n.value), f'{n.value} -> {not n.value}', n)
        elif isinstance(n, (ast.If, ast.While)) and not isinstance(n.test, ast.Constant):
            a, b = src.off(n.test.lineno, n.test.col_offset), src.off(n.test.end_lineno, n.test.end_col_offset)
            replace(a, b, 'not (' + src.text[a:b] + ')', 'condition negated', n)
        elif isinstance(n, (ast.Expr, ast.AugAssign, ast.Assign)) and not (
                isinstance(n, ast.Expr) and isinstance(n.value, ast.Constant)):
            if isinstance(n, ast.Assign) and not any(isinstance(t, (ast.Attribute, ast.Subscript)) for t in n.targets):
                continue          # deleting a local binding only raises NameError
            if isinstance(n, ast.Expr) and not isinstance(n.value, ast.Call):
                continue
            if isinstance(parents.get(id(n)), (ast.ClassDef, ast.Module)):
                continue
            a, b = src.off(n.lineno, n.col_offset), src.off(n.end_lineno, n.end_col_offset)
            replace(a, b, 'pass', 'statement deleted', n)
    # dedupe, keep only ones that still parse
    seen, res = set(), []
    for d, t in out:
        if t in seen or t == text:
            continue
        seen.add(t)
        try:
            ast.parse(t)
        except SyntaxError:
            continue
        res.append((d, t))
    return res


def worker(args):
    wid, jobs, name = args
    wt = os.path.join(ROOT, f'w{wid}')
    if not os.path.isdir(wt):
        sh(['git', '-C', REPO, 'worktree', 'add', '--detach', wt, 'HEAD'])
    env = dict(os.environ, PYTHONPATH=wt, PYTHONDONTWRITEBYTECODE='1')
    results = []
    for (rel, desc, text) in jobs:
        path = os.path.join(wt, rel)
        orig = open(path, encoding='utf-8').read()
        rec = {'file': rel, 'mutant': desc}
        try:
            with open(path, 'w', encoding='utf-8') as f:
                f.write(text)
            rc, out = sh([PY, '-m', 'pytest', '-q', '-x', '-p', 'no:cacheprovider', '--timeout=120'], cwd=wt, env=env, timeout=600)
            if rc != 0:
                rec['suite'] = 'killed'
                results.append(rec)
                continue
            rec['suite'] = 'survived'
            rec['checks'] = {}
            for prop in PROPS.get(rel, []):
                ev = os.path.join(ROOT, f'ev{wid}')
                rp = os.path.join(ROOT, f'rp{wid}')
                shutil.rmtree(rp, ignore_errors=True)
                os.makedirs(ev, exist_ok=True)
                os.makedirs(rp, exist_ok=True)
                e = dict(os.environ, BRIDGE_ENV_REPO=wt, VERIF_NO_BUILD='1', VERIF_EVIDENCE_DIR=ev, VERIF_REPLAY_DIR=rp,
                         VERIF_SEED='0')
                rc, out = sh([os.path.join(VERIF, 'check'), prop, '--tier', 'quick'], cwd=VERIF, env=e, timeout=600)
                reason = ''
                if rc == 1:
                    for fn in sorted(os.listdir(rp))[:1]:
                        try:
                            r = json.load(open(os.path.join(rp, fn)))
                            reason = (str(r.get('key') or r.get('kind') or ''))[:120]
                        except Exception:
                            pass
                rec['checks'][prop] = {'rc': rc, 'reason': reason, 'tail': (out.splitlines() or [''])[-1][:160]}
                if rc == 1:
                    break           # caught: the other properties need not be asked
            results.append(rec)
        finally:
            with open(path, 'w', encoding='utf-8') as f:
                f.write(orig)
    return results


def main():
    ap = argparse.ArgumentParser()
    ap.add_argument('name')
    ap.add_argument('--files', default=','.join(PROPS))
    ap.add_argument('--jobs', type=int, default=12)
    ap.add_argument('--limit', type=int, default=0)
    ap.add_argument('--seed', type=int, default=0)
    a = ap.parse_args()
    os.makedirs(ROOT, exist_ok=True)
    allm = []
    for rel in a.files.split(','):
        text = open(os.path.join(REPO, rel), encoding='utf-8').read()
        ms = mutants_of(rel, text)
        allm += [(rel, d, t) for d, t in ms]
    rng = random.Random(a.seed)
    rng.shuffle(allm)
    if a.limit:
        allm = allm[:a.limit]
    print(f'{len(allm)} mutants', flush=True)
    chunks = [allm[i::a.jobs] for i in range(a.jobs)]
    t0 = time.time()
    with multiprocessing.Pool(a.jobs) as pool:
        res = [r for rs in pool.map(worker, [(i, chunks[i], a.name) for i in range(a.jobs)]) for r in rs]
    for i in range(a.jobs):
        sh(['git', '-C', REPO, 'worktree', 'remove', '--force', os.path.join(ROOT, f'w{i}')])
    sh(['git', '-C', REPO, 'worktree', 'prune'])
    shutil.rmtree(ROOT, ignore_errors=True)
    out_dir = os.path.join(VERIF, 'sweep')
    os.makedirs(out_dir, exist_ok=True)
    killed = [r for r in res if r['suite'] == 'killed']
    surv = [r for r in res if r['suite'] == 'survived']
    caught = [r for r in surv if any(c['rc'] == 1 for c in r['checks'].values())]
    infra = [r for r in surv if any(c['rc'] not in (0, 1) for c in r['checks'].values()) and r not in caught]
    missed = [r for r in surv if r not in caught and r not in infra]
    summary = {'name': a.name, 'files': a.files.split(','), 'mutants': len(res), 'killed_by_suite': len(killed),
               'survived_suite': len(surv), 'caught_by_checks': len(caught), 'not_caught': len(missed), 'infrastructure': len(infra),
               'seconds': round(time.time() - t0)}
    json.dump({'summary': summary, 'survivors': surv}, open(os.path.join(out_dir, a.name + '.json'), 'w'), indent=1)
    md = [f'# Mutation sweep `{a.name}`', '', json.dumps(summary), '', '## Survivors of the pinned suite that NO quick check caught', '']
    for r in missed:
        md.append(f'* `{r["mutant"]}` — asked: {", ".join(r["checks"])}')
    md += ['', '## Survivors caught', '']
    for r in caught:
        p, c = next((p, c) for p, c in r['checks'].items() if c['rc'] == 1)
        md.append(f'* `{r["mutant"]}` — {p}: {c["reason"]}')
    if infra:
        md += ['', '## Infrastructure failures (exit 2)', '']
        for r in infra:
            md.append(f'* `{r["mutant"]}` — ' + '; '.join(f'{p}: rc={c["rc"]} {c["tail"]}' for p, c in r['checks'].items()))
    open(os.path.join(out_dir, a.name + '.md'), 'w').write('\n'.join(md) + '\n')
    print(json.dumps(summary))


if __name__ == '__main__':
    main()
