"""C10 — each seat is told exactly what the protocol entitles it to, and nothing else."""
TITLE = 'Each seat is told exactly what the protocol entitles it to, and nothing else'
LEAN_TARGETS = ['BridgeVerif.Props.C10']
REQUIRED = ['s2c_history_is_seat_stream', 'streams_independent_of_schedule', 'own_cards_only',
            'relay_exactly_once_in_order', 'dummy_disclosed_between_lead_and_second_card', 'lead_prompt_only_to_leader',
            'board_header_is_configured']
SHARDS = {'quick': 4, 'thorough': 16}
WANT = {'completion', 'streams'}
RULE = ('same session campaign as C08/C09; the complete server->client byte stream of each of the four connections is split '
        'at CR LF and every message is classified by the protocol grammar (teams / start / header(n, dealer, vul) / '
        'cards(seat, set) / dummy(set) / relay(seat, call|card) / lead-prompt(who) / end / other(text)); the event sequence '
        'of every seat must equal the sequence the Lean specification sends to that seat. distinct = distinct '
        '(scenario, policy) pairs; all non-trivial.')
TRUSTED = ['primitive semantics of Queue / socket / Barrier as stated for C09',
           'the message classifier of the harness (session_props.classify) implements the protocol grammar']
ASSUMPTIONS = ['in-memory network instead of TCP']
REQUIRED_COUNTERS = {'quick': ['sessions', 'passed_out_boards'], 'thorough': ['sessions', 'passed_out_boards', 'boards_with_alert']}


def cases(ctx):
    return []


def extra_checks(ctx):
    import session_props as SP
    n = 6 if ctx.quick else 80
    fails = SP.campaign(ctx, WANT, n, policies_per_scenario=2)
    fails += refused_action_sessions(ctx, 6 if ctx.quick else 60)
    if ctx.shard == 0:
        ctx.samples.append({'note': 'a case is (scenario, scheduling policy); four event streams are compared per case'})
    return fails


def refused_check(sc, fault, pdesc, workdir, driver):
    import session
    import session_check as SC
    import session_props as SP
    model = SC.model_session(driver, sc)
    r = session.run_session(sc, SP.make_policy(pdesc), workdir, faults=fault, max_steps=400000)
    by_client = {c[0]: c for c in r.conns}
    for p in SP.SEATS:
        c = by_client.get(f'client-{p}')
        got = SC.stream_messages(c[1]) if c else []
        exp = model[f'X.stream {p}'].split(',') if model[f'X.stream {p}'] else []
        ge = SP.stream_events(got[1:])
        while ge and ge[-1][0] == 'other' and ge[-1][1].lower() in ('illegal bid', 'error detected'):
            ge.pop()
        ee = SP.stream_events(exp)
        if ge != ee[:len(ge)]:
            j = next((j for j, (a, b) in enumerate(zip(ge, ee)) if a != b), min(len(ge), len(ee)))
            return [{'key': 'told-about-a-refused-action', 'kind': 'counterexample', 'scenario': sc, 'policy': pdesc,
                     'fault': fault, 'schedule': r.schedule,
                     'diff': {'seat': p, 'index': j, 'impl': list(ge[j]) if j < len(ge) else None,
                              'spec': list(ee[j]) if j < len(ee) else None, 'refused': fault['text']}}], r.steps
    return [], r.steps


def refused_action_sessions(ctx, n):
    """sessions in which one seat sends an action the table manager refuses (an illegal call, a card it does not hold, a
    card already played): nobody is entitled to be told about an action that was not accepted — every seat's event stream
    must be a PREFIX of the stream the specification sends in the undisturbed session (the notices of the abort itself,
    `illegal bid` / `error detected`, apart)"""
    import random
    import common
    import pC13
    import session
    import session_check as SC
    import session_props as SP
    driver = common.ModelDriver()
    rng = random.Random(f'C10-refused/{ctx.seed}/{ctx.shard}')
    fails = []
    for i in range(n):
        sc = session.gen_scenario(rng, rng.choice([1, 2]), fancy=True)
        pts = [pt for pt in pC13.abort_points(sc) if pt[3] in ('illegal_call', 'card_not_held', 'card_already_played')]
        if not pts:
            continue
        pt = rng.choice(pts)
        fault = pC13.fault_of(pt)
        pdesc = {'kind': 'random', 'seed': rng.randrange(1 << 30)}
        ctx.count('_cases')
        ctx.count('refused_action_sessions')
        ctx.count('refused_' + pt[3])
        f, steps = refused_check(sc, fault, pdesc, ctx.workdir, driver)
        ctx.count('_evals', steps)
        fails += f
        if len(fails) > 3:
            break
    return fails


def replay(record):
    import session_props as SP
    if record.get('fault'):
        import os
        import common
        workdir = os.path.join(common.VERIF, '.work')
        os.makedirs(workdir, exist_ok=True)
        f, steps = refused_check(record['scenario'], record['fault'], record['policy'], workdir, common.ModelDriver())
        print(f'replayed {steps} steps')
        for d in f:
            print('DIFF', d['diff'])
        return 1 if f else 0
    return SP.replay(record, WANT)
