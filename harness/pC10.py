"""C10 — each seat is told exactly what the protocol entitles it to, and nothing else."""
TITLE = 'Each seat is told exactly what the protocol entitles it to, and nothing else'
LEAN_TARGETS = ['BridgeVerif.Props.C10']
REQUIRED = ['s2c_history_is_seat_stream', 'streams_independent_of_schedule', 'own_cards_only',
            'relay_exactly_once_in_order', 'dummy_disclosed_between_lead_and_second_card', 'lead_prompt_only_to_leader',
            'board_header_is_configured']
SHARDS = {'quick': 4, 'thorough': 16}
WANT = {'completion', 'streams'}
RULE = ('same session campaign as C08/C09; the complete server->client byte stream of each of the four connections is split '
        'at CR LF and every message is classified by the protocol grammar (teams / start / header(n, dealer, vul) / '
        'cards(seat, set) / dummy(set) / relay(seat, call|card) / lead-prompt(who) / end / other(text)); the event sequence '
        'of every seat must equal the sequence the Lean specification sends to that seat. distinct = distinct '
        '(scenario, policy) pairs; all non-trivial.')
TRUSTED = ['primitive semantics of Queue / socket / Barrier as stated for C09',
           'the message classifier of the harness (session_props.classify) implements the protocol grammar']
ASSUMPTIONS = ['in-memory network instead of TCP']
REQUIRED_COUNTERS = {'quick': ['sessions', 'passed_out_boards'], 'thorough': ['sessions', 'passed_out_boards', 'boards_with_alert']}


def cases(ctx):
    return []


def extra_checks(ctx):
    import session_props as SP
    n = 6 if ctx.quick else 80
    fails = SP.campaign(ctx, WANT, n, policies_per_scenario=2)
    if ctx.shard == 0:
        ctx.samples.append({'note': 'a case is (scenario, scheduling policy); four event streams are compared per case'})
    return fails


def replay(record):
    import session_props as SP
    return SP.replay(record, WANT)
