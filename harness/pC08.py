"""C08 — the table manager's log records exactly what was played, independently of thread timing."""
TITLE = "The table manager's log records exactly what was played"
LEAN_TARGETS = ['BridgeVerif.Props.C08', 'BridgeVerif.Translated.ThreadsMainA', 'BridgeVerif.Translated.ThreadsMainB', 'BridgeVerif.Translated.ThreadsMainC', 'BridgeVerif.Translated.ThreadsMainD', 'BridgeVerif.Translated.ThreadsMainE', 'BridgeVerif.Translated.ThreadsMainF', 'BridgeVerif.Translated.ThreadsMainG']
AUDIT_PROPS = ['C08', 'Translated.ThreadsMainA', 'Translated.ThreadsMainB', 'Translated.ThreadsMainC', 'Translated.ThreadsMainD', 'Translated.ThreadsMainE', 'Translated.MsgParsersA', 'Translated.MsgParsersC', 'Translated.MsgParsersD', 'Translated.MsgParsersE', 'Translated.MsgParsersF', 'Translated.ThreadsMainF', 'Translated.ThreadsMainG']
REQUIRED = ['Translated.ThreadsMainE.translated_main_thread_is_session_program_ascii', 'Translated.MsgParsersA.parse_card_translated', 'Translated.MsgParsersD.parse_bid_translated_ascii',
            'Translated.ThreadsMainD.translated_main_thread_is_session_program', 'Translated.ThreadsMainD.translated_main_thread_writes_the_session_log', 'Translated.ThreadsMainD.session_boards_parse', 'Translated.ThreadsMainD.translated_main_thread_is_session_program_protocol', 
            'Translated.ThreadsMainC.main_deal_translated_dict', 'Translated.ThreadsMainC.main_board_translated', 'Translated.ThreadsMainC.main_boards_translated', 'Translated.ThreadsMainC.main_run_translated', 
            'Translated.ThreadsMainB.main_trick_card_translated', 'Translated.ThreadsMainB.main_trick_translated', 'Translated.ThreadsMainB.main_playing_translated', 
            'log_is_session_spec', 'log_independent_of_schedule', 'scores_are_opposite', 'passed_out_record_shape',
            'deal_logged_is_original', 'record_follows_rules', 'main_thread_follows_the_messages',
            'Translated.ThreadsMainA.main_sync_event_translated', 'Translated.ThreadsMainA.main_deal_translated',
            'Translated.ThreadsMainA.main_bidding_translated', 'Translated.ThreadsMainA.main_bidding_illegal_raises']
SHARDS = {'quick': 4, 'thorough': 16}
WANT = {'completion', 'log', 'ops'}
RULE = ('sessions of 1-3 boards on the unmodified threaded Server with four scripted conforming clients (random legal '
        'auctions incl. passed-out, random play incl. revokes, both card notations, letter case, alert suffixes, arbitrary '
        'board ids, optional double-dummy tables) under random / PCT / lowest-first / stall-one schedules; every scenario '
        'is run under at least two different schedules and the log files must be byte-identical; each log record is compared '
        'field by field (id, team names, dealer, vulnerability, deal, calls, contract, declarer, play with leaders, tricks, '
        'the two scores, dda) with the record computed by the Lean session specification. distinct = distinct '
        '(scenario, policy) pairs; all non-trivial.')
TRUSTED = ['primitive semantics of Queue / socket / Barrier as stated for C09',
           'json.loads reads the log text; the JSON text layer itself is C12']
ASSUMPTIONS = ['in-memory network instead of TCP', 'scripted clients stand for "the seats"; what they send is the scenario']
REQUIRED_COUNTERS = {'quick': ['sessions', 'passed_out_boards'], 'thorough': ['sessions', 'passed_out_boards', 'boards_with_alert']}


def cases(ctx):
    return []


def extra_checks(ctx):
    import session_props as SP
    n = 6 if ctx.quick else 80
    fails = SP.campaign(ctx, WANT, n, policies_per_scenario=2, independent_log=True)
    if ctx.shard == 0:
        ctx.samples.append({'note': 'a case is (scenario, scheduling policy); the log is compared record by record'})
    return fails


def replay(record):
    import session_props as SP
    return SP.replay(record, WANT)
