"""C07 — exhaustive correspondence of calc_bid_score / calc_score with the Lean model."""
import common
from common import Case

TITLE = 'Every contract and result scores what the duplicate scoring table says'
LEAN_TARGETS = ['BridgeVerif.Props.C07', 'BridgeVerif.Props.C07t']
AUDIT_PROPS = ['C07', 'C07t']
REQUIRED = ['C07t.translated_calc_score_is_law', 'C07t.translated_calc_score_passed_out', 'C07t.translated_calc_bid_score_is_law', 'C07t.translated_calc_bid_score_rejects_non_bids', 'C07t.translated_contract_is_model',
            'calc_bid_score_is_law', 'calc_score_is_law', 'declarer_side_vulnerability_only',
            'passed_out_scores_zero', 'is_vul_is_declarer_side']
EXHAUSTIVE = True
KEEP_FIRST = 0
RULE = ('complete enumeration: calc_bid_score on 35 bids x (x,xx) x vul x 0..13 tricks; calc_score on '
        '35 bids x (x,xx) in {00,10,11,01} x 4 vulnerabilities x (4 declarers + None) x 0..13; '
        'passed-out contracts (final_bid None and Bid.Pass) x flags x 4 vul x 5 declarers x 0..13. '
        'distinct = distinct case op-lists; every case is non-trivial (it evaluates the scoring code)')
TRUSTED = ['the MiniPy semantics (Model/MiniPy.lean: value semantics, no aliasing) and the code translator (harness/translate_py.py), validated on every run by executing the translated program next to the real code (counters translated_*)',
           'on this finite domain the correspondence is exhaustive, so the implementation equals the model pointwise']
ASSUMPTIONS = ['CPython int arithmetic and tuple indexing', 'taken tricks are within 0..13 (the domain of the property)']

VULS = ['None', 'NS', 'EW', 'Both']
DECLS = ['N', 'E', 'S', 'W', '-']


# every op is a call of a function whose result must not depend on earlier calls: also evaluated in other orders
PURE_OPS = True


# areas of the pure core whose TRANSLATION (Generated/PyCore.lean) is run next to the real code in this check
TRANSLATED_AREAS = ('score',)

def cases(ctx):
    for b in range(35):
        for x in (0, 1):
            for xx in (0, 1):
                ops = []
                for v in (0, 1):
                    for n in range(14):
                        ops.append(f'S.bid {b} {x} {xx} {v} {n}')
                for v in VULS:
                    for d in DECLS:
                        for n in range(14):
                            ops.append(f'S.contract {b} {x} {xx} {v} {d} {n}')
                ctx.count('bid_cases')
                yield Case(ops, {'bid': b, 'x': x, 'xx': xx})
    for fb in ('-', 'P'):
        for x in (0, 1):
            for xx in (0, 1):
                ops = [f'S.contract {fb} {x} {xx} {v} {d} {n}'
                       for v in VULS for d in DECLS for n in range(14)]
                ctx.count('passed_out_cases')
                yield Case(ops, {'passed_out': fb, 'x': x, 'xx': xx})


def impl_exec(ops):
    from bridge_env import Bid, Contract, Player, Vul
    from bridge_env.score import calc_bid_score, calc_score
    vmap = {'None': Vul.NONE, 'NS': Vul.NS, 'EW': Vul.EW, 'Both': Vul.BOTH}
    out = []
    for op in ops:
        t = op.split()
        try:
            # every line carries the value twice: once against the MODEL (tables translated from score.py), once against
            # the LAW (Spec/Scoring.lean: formulas); "-" where the law needs a declarer and there is none
            law_undefined = False
            if t[0] == 'S.bid':
                r = calc_bid_score(Bid.int_to_bid(int(t[1])), t[2] == '1', t[3] == '1', t[4] == '1', int(t[5]))
            else:
                fb = None if t[1] == '-' else Bid.Pass if t[1] == 'P' else Bid.int_to_bid(int(t[1]))
                law_undefined = t[5] == '-' and t[1] not in ('-', 'P')
                c = Contract(final_bid=fb, x=t[2] == '1', xx=t[3] == '1', vul=vmap[t[4]],
                             declarer=None if t[5] == '-' else Player[t[5]])
                r = calc_score(c, int(t[6]))
            out.append(f'{int(r)} {"-" if law_undefined else int(r)}')
        except Exception:
            out.append('ERR -' if law_undefined else 'ERR ERR')
    return out


def classify(ops, exp, got):
    i = common.first_diff(exp, got)
    return 'score:' + (ops[i] if i is not None else '?').replace(' ', '_')
