"""C04 — tricks are won, led and counted according to the laws of play."""
import play_common as pc
from play_common import impl_exec, impl_exec_multi, classify, nontrivial  # noqa: F401
from common import Case

TITLE = 'Tricks are won, led and counted according to the laws of play'
LEAN_TARGETS = ['BridgeVerif.Props.C04', 'BridgeVerif.Translated.Play']
AUDIT_PROPS = ['C04', 'Translated.Play']
REQUIRED = ['Translated.Play.calc_highest_translated', 'Translated.Play.play_card_translated', 'Translated.Play.run_translated_play', 'Translated.Play.play_init_translated_cases', 'Translated.Play.play_has_done_translated',
            'calc_highest_spec', 'trick_winner_is_law', 'opening_lead_and_dummy', 'turn_passes_clockwise',
            'winner_unique', 'winner_leads_next', 'one_trick_credited_to_winners_side', 'incomplete_trick_step', 'history_is_tricksOf', 'passed_out_not_playable',
            'after_52_cards', 'has_done_iff_52']
RULE = ('random contracts (35 bids x 4 declarers) and deals (incl. voids / long suits) played to the end through '
        'PlayingPhaseWithHands.play_card_by_player with a follow-suit / revoke mix, plus calc_highest on random 1..4-card '
        'lists for every suit and NT, plus PlayingPhase.play_card sequences without hands; every public field and the trick '
        'history compared after every card. distinct = distinct (board, set of played cards, op).')
REQUIRED_COUNTERS = {t: ['winner_pos_0', 'winner_pos_1', 'winner_pos_2', 'winner_pos_3', 'nt_trick', 'ruff_wins',
                         'over_ruff', 'ruff_beats_higher_card', 'higher_offsuit_discard_loses', 'revoke']
                     for t in ('quick', 'thorough')}
SHARDS = {'quick': 1, 'thorough': 16}
TRUSTED = ['the MiniPy semantics (Model/MiniPy.lean: value semantics, no aliasing) and the code translator (harness/translate_py.py), validated on every run by executing the translated program next to the real code (counters translated_*)',
           'the cards of the current (incomplete) trick are not public: that field is reconstructed from the accepted plays']
ASSUMPTIONS = ['CPython list/set/dict semantics']


# areas of the pure core whose TRANSLATION (Generated/PyCore.lean) is run next to the real code in this check
TRANSLATED_AREAS = ('play',)

def cases(ctx):
    rng = ctx.rng
    n = 120 if ctx.quick else 700
    for _ in range(n):
        yield Case(pc.gen_board(ctx, rng, fault_p=0.0, revoke_p=rng.choice([0.0, 0.3, 1.0])))
    # calc_highest, static
    ops = []
    for _ in range(300 if ctx.quick else 3000):
        k = rng.randrange(0, 5)
        cards = rng.sample(range(52), k)
        ops.append(f'P.highest {rng.choice(["C", "D", "H", "S", "NT"])} {pc.cs(cards)}')
    ctx.count('calc_highest_static', len(ops))
    yield Case(ops, {'kind': 'calc_highest'})
    # base class without hands: arbitrary distinct cards, 1..60 of them; passed-out / declarer-less contracts
    for _ in range(20 if ctx.quick else 200):
        b, d = rng.randrange(35), rng.choice(pc.SEATS)
        seq = rng.sample(range(52), rng.randrange(1, 53))
        ops = [f'P.base {b} {d}'] + [f'P.card {c}' for c in seq]
        ctx.count('base_sequences')
        yield Case(ops, {'kind': 'base'})
    # the SAME four cards met again in another order (another board of the same session, same denomination): the winner
    # depends on the suit LED, not on the set of cards — anything remembered about a trick from an earlier board shows here
    for _ in range(30 if ctx.quick else 300):
        b, d = rng.randrange(35), rng.choice(pc.SEATS)
        suits = rng.sample(range(4), 2)
        four = [suits[0] * 13 + r for r in rng.sample(range(13), 2)] + [suits[1] * 13 + r for r in rng.sample(range(13), 2)]
        rng.shuffle(four)
        other = [c for c in four if c // 13 != four[0] // 13] + [c for c in four if c // 13 == four[0] // 13]
        ops = [f'P.base {b} {d}'] + [f'P.card {c}' for c in four] + [f'P.base {b} {d}'] + [f'P.card {c}' for c in other]
        ctx.count('same_four_cards_other_lead')
        yield Case(ops, {'kind': 'same-four-cards'})
    yield Case(['P.base - -', 'P.base - N', 'P.base 3 -', 'P.full - - - - - -'], {'kind': 'bad-contract'})
