"""C09 — a session with four conforming clients always runs to completion, whatever the interleaving."""
import random

import common

TITLE = 'A session with four conforming clients always runs to completion'
LEAN_TARGETS = ['BridgeVerif.Props.C09', 'BridgeVerif.Translated.ThreadsSeatA', 'BridgeVerif.Translated.ThreadsSeatB', 'BridgeVerif.Translated.ThreadsSeatC', 'BridgeVerif.Translated.ThreadsSeatD', 'BridgeVerif.Translated.ThreadsSeatE']
AUDIT_PROPS = ['C09', 'Translated.ThreadsSeatA', 'Translated.ThreadsSeatB', 'Translated.ThreadsSeatC', 'Translated.ThreadsSeatD', 'Translated.ThreadsSeatE']
REQUIRED = ['Translated.ThreadsSeatE.translated_seat_thread_is_session_program_protocol', 'Translated.ThreadsSeatE.connect_request_parses_nodigit', 'Translated.ThreadsSeatD.translated_seat_thread_is_session_program', 'Translated.ThreadsSeatD.session_boards_checks', 
            'Translated.ThreadsSeatC.seat_boards_translated', 'Translated.ThreadsSeatC.seat_run_translated', 'Translated.ThreadsSeatC.seat_run_refused_translated', 'Translated.ThreadsSeatC.seat_run_not_ready_translated', 
            'Translated.ThreadsSeatB.seat_playing_translated', 'Translated.ThreadsSeatB.seat_trick_translated', 
            'session_disciplined', 'canonical_run_terminates', 'no_lost_wakeup', 'session_always_completes',
            'runs_are_bounded', 'never_deadlocks', 'end_of_session_is_last', 'log_is_opened_written_closed',
            'ready_messages_pass_the_server_check', 'seat_thread_follows_its_queue',
            'Translated.ThreadsSeatA.seat_check_message_translated', 'Translated.ThreadsSeatA.seat_deal_translated',
            'Translated.ThreadsSeatA.seat_bidding_translated']
SHARDS = {'quick': 4, 'thorough': 16}
WANT = {'completion', 'ops'}
RULE = ('sessions of 1-3 boards (random legal auctions incl. passed-out boards, random play incl. revokes, both card '
        'notations, random letter case, alert suffixes) run on the UNMODIFIED threaded Server with four scripted conforming '
        'clients under the deterministic scheduler; policies: uniform random, PCT priorities, lowest-first in random thread '
        'orders, stall-one (a victim thread is withheld for 50..10^7 steps from a random yield point or right after its k-th '
        'barrier/queue/socket operation).  Thorough adds the systematic stall sweep: every one of the nine threads withheld '
        '(for as long as anything else can run) from every 7th yield point of a passed-out and of a played one-board session. '
        'Each run must end with every thread finished, "End of session" on every connection, a closed parseable log with one '
        'record per board, and the per-thread operation sequences (queue put/get, barrier arrive/depart, socket send/recv '
        'with payloads) equal to the straight-line programs of the Lean model, for which the theorems are proved. '
        'distinct = distinct (scenario, policy) pairs; all are non-trivial (each is a full session).')
THREADS = ['main'] + [f'seat:client-{p}' for p in 'NESW'] + [f'client-{p}' for p in 'NESW']
TRUSTED = ['primitive semantics assumed by the scheduler and by the model: Queue = unbounded FIFO with blocking get; '
           'stream socket = reliable FIFO whose send never blocks; threading.Barrier(n) releases the k-th wait when all n '
           'parties made their k-th call; time.sleep is a yield; the OS eventually runs some enabled thread',
           'the thread code as translated (Generated/PyCoreThreads.lean): desugar_threads.py (externals declared by name, every operation on them a call on the world object) + translate_py.py + the MiniPy semantics, validated on every run by executing the translated program next to the real threads of every session',
           'the session model (Model/Session.lean) is hand-written; its agreement with the real threads is tested, '
           'operation by operation, on the sessions of this run']
ASSUMPTIONS = ['in-memory network instead of TCP (no partial sendall, no RST, no accept backlog limit)',
               'admission is exercised by C20; here four conforming clients connect in a scheduler-chosen order']
REQUIRED_COUNTERS = {'quick': ['sessions', 'policy_stall', 'passed_out_boards', 'sync_window_sessions'],
                     'thorough': ['sessions', 'policy_stall', 'passed_out_boards', 'stall_sweep_sessions']}


def cases(ctx):
    return []


def extra_checks(ctx):
    import session
    import session_props as SP
    n = 6 if ctx.quick else 60
    fails = SP.campaign(ctx, WANT, n)
    # synchronisation windows: every party of the barrier withheld (for as long as anything else can run) right after
    # each of its barrier arrivals / departures — the places where a rendezvous can be lapped, reset or lost
    scw = session.gen_scenario(random.Random(f'windows/{ctx.seed}'), 2, fancy=False, kinds=['passout', 'short'])
    nbar = 1 + 2 * len(scw['boards'])
    victims = ['main'] + [f'seat:client-{p}' for p in (['N', 'E', 'S', 'W'] if not ctx.quick else [random.Random(ctx.seed).choice('NESW')])]
    jobs = [(v, op, k) for v in victims for op in ('arrive', 'depart') for k in range(1, nbar + 1)]
    driver = common.ModelDriver()
    modelw = None
    for v, op, k in jobs[ctx.shard::ctx.nshards]:
        pdesc = {'kind': 'stall_after', 'base': {'kind': 'lowest', 'order': SP.CANON_ORDER}, 'victim': v, 'op': op, 'k': k,
                 'length': 10 ** 7}
        diffs, r, modelw = SP.run_and_compare(driver, scw, pdesc, ctx.workdir, {'completion'}, modelw)
        ctx.count('_cases')
        ctx.count('_evals', r.steps)
        ctx.count('sync_window_sessions')
        ctx.distinct.add(hash(('window', v, op, k)))
        for d in diffs:
            fails.append({'key': d['what'], 'kind': SP.kind_of(d), 'scenario': scw, 'policy': pdesc,
                          'schedule': r.schedule, 'diff': d})
    if not ctx.quick and ctx.shard < 4:
        # partial aspect: the REAL primitives (threads, Barrier, Queue, TCP over loopback), no scheduler
        import os
        import subprocess
        import sys
        env = dict(os.environ, PYTHONPATH=common.REPO)
        try:
            p = subprocess.run([sys.executable, os.path.join(common.VERIF, 'harness', 'tcp_smoke.py'), str(ctx.seed * 4 + ctx.shard)],
                               env=env, stdout=subprocess.PIPE, stderr=subprocess.STDOUT, text=True, timeout=150)
            rc, out = p.returncode, p.stdout
        except subprocess.TimeoutExpired as e:
            rc, out = 1, 'watchdog of the harness: no exit after 150 s ' + str(e.stdout)[-300:]
        if rc == 3:
            ctx.count('tcp_smoke_unavailable')
        else:
            ctx.count('tcp_smoke_sessions')
            ctx.count('_cases')
            if rc != 0:
                fails.append({'key': 'tcp-session-did-not-complete', 'kind': 'counterexample', 'scenario': None,
                              'diff': {'what': 'real-thread session over loopback TCP did not complete', 'output': out[-1200:],
                                       'seed': ctx.seed * 4 + ctx.shard,
                                       'rerun': 'PYTHONPATH=/repo /venv/bin/python harness/tcp_smoke.py <seed>'}})
    if not ctx.quick:
        for kinds in (['passout'], [None]):
            sc = session.gen_scenario(random.Random(f'sweep/{ctx.seed}/{kinds}'), 1, fancy=True, kinds=kinds)
            fails += SP.stall_sweep(ctx, {'completion'}, sc, stride=7)
    if ctx.shard == 0:
        # corpus: the scenario of every recorded deadlock is re-run under stall-main policies (the recorded schedule
        # belongs to the code before the repair and need not apply any more)
        import json
        import os
        cdir = os.path.join(common.VERIF, 'corpus', 'C09')
        for fn in sorted(os.listdir(cdir)) if os.path.isdir(cdir) else []:
            if fn.endswith('.json'):
                rec = json.load(open(os.path.join(cdir, fn)))
                driver = common.ModelDriver()
                for start in (0, 40, 200, 700):
                    pdesc = {'kind': 'stall', 'base': {'kind': 'lowest', 'order': SP.CANON_ORDER}, 'victim': 'main',
                             'start': start, 'length': 10 ** 7}
                    diffs, r, _m = SP.run_and_compare(driver, rec['scenario'], pdesc, ctx.workdir, {'completion'})
                    ctx.count('corpus_cases')
                    ctx.count('_cases')
                    ctx.count('_evals', r.steps)
                    for d in diffs:
                        fails.append({'key': d['what'], 'kind': SP.kind_of(d), 'scenario': rec['scenario'], 'policy': pdesc,
                                      'schedule': r.schedule, 'diff': d})
        ctx.samples.append({'note': 'one failing-or-not session is (scenario, policy); see generator_distribution',
                            'threads': THREADS})
    return fails


def replay(record):
    import session_props as SP
    return SP.replay(record, WANT)
