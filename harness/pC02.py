"""C02 — auction correspondence; see auction_common.py"""
import auction_common as ac
from auction_common import impl_exec, impl_exec_multi, nontrivial, classify  # noqa: F401

SHARDS = {'quick': 1, 'thorough': 16}
TITLE = 'Auction proceeds clockwise from the dealer and ends exactly when it must'
LEAN_TARGETS = ['BridgeVerif.Props.C02', 'BridgeVerif.Translated.Auction', 'BridgeVerif.Props.C02t']
AUDIT_PROPS = ['C02', 'Translated.Auction', 'C02t']
REQUIRED = ['C02t.translated_run_is_model', 'C02t.translated_has_done_is_model', 'Translated.Auction.init_translated', 'Translated.Auction.take_bid_translated', 'Translated.Auction.run_translated', 'Translated.Auction.contract_translated',
            'turn_rotates', 'active_is_turn', 'per_seat_is_share', 'finishes_iff_ended', 'over_iff_ended_law',
            'after_end_raises_and_unchanged', 'after_end_run_unchanged', 'auction_terminates', 'bound_is_attained']
RULE = ('same campaign as C01 with a pass-heavy mix (three opening passes then a bid, passes separated by doubles, '
        '4th seat re-opening); after FINISHED further calls are offered and the whole observable state must stay frozen. '
        'distinct = distinct (dealer, vul, accepted history, offered call).')
REQUIRED_COUNTERS = {t: ['three_passes_then_bid', 'fourth_seat_reopens', 'passed_out', 'has_double'] for t in ('quick', 'thorough')}
TRUSTED = ['the MiniPy semantics (Model/MiniPy.lean: value semantics, no aliasing) and the code translator (harness/translate_py.py), validated on every run by executing the translated program next to the real code (counters translated_*)',
           ]
ASSUMPTIONS = ['CPython list/dict semantics']


# areas of the pure core whose TRANSLATION (Generated/PyCore.lean) is run next to the real code in this check
TRANSLATED_AREAS = ('auction',)

def cases(ctx):
    return ac.gen_cases(ctx, 500 if ctx.quick else 1500, 0 if ctx.quick else 2)
