"""Shared machinery of the checks: lake build, axiom audit, source scan, the model driver,
the generic differential engine (ops -> lines on both sides), shrinking, verdict, evidence."""
import fcntl
import json
import os
import random
import re
import subprocess
import sys
import time

VERIF = os.path.dirname(os.path.dirname(os.path.abspath(__file__)))
LEAN = os.path.join(VERIF, 'lean')
REPO = os.environ.get('BRIDGE_ENV_REPO', '/repo')
DRIVER = os.path.join(LEAN, '.lake', 'build', 'bin', 'driver')
ALLOWED_AXIOMS = {'propext', 'Classical.choice', 'Quot.sound'}
FORBIDDEN = re.compile(
    r'\bsorry\b|\badmit\b|^\s*axiom\s|native_decide|bv_decide|implemented_by|\bunsafe\s|maxHeartbeats\s+0\b',
    re.M)

if REPO not in sys.path:
    sys.path.insert(0, REPO)

# the server logs every refused connection at ERROR level; without a handler Python prints those lines to stderr
import logging as _logging  # noqa: E402
_logging.getLogger().addHandler(_logging.NullHandler())


class Infra(Exception):
    """infrastructure failure: exit 2, never a VIOLATION"""


def sh(cmd, cwd=None, timeout=3600, env=None, input=None):
    p = subprocess.run(cmd, cwd=cwd, timeout=timeout, env=env, input=input,
                       stdout=subprocess.PIPE, stderr=subprocess.STDOUT, text=True)
    return p.returncode, p.stdout


class BuildLock:
    """serialises everything that reads or writes lean/ (regeneration of the translated files, lake build, the axiom
    audit, taking a private copy of the driver): several checks — possibly pointed at different copies of the repository —
    may run at once"""
    held = 0

    def __enter__(self):
        if BuildLock.held == 0:
            os.makedirs(os.path.join(LEAN, '.lake'), exist_ok=True)
            self.f = open(os.path.join(LEAN, '.lake', 'verif.lock'), 'w')
            fcntl.flock(self.f, fcntl.LOCK_EX)
            BuildLock.file = self.f
        BuildLock.held += 1
        return self

    def __exit__(self, *a):
        BuildLock.held -= 1
        if BuildLock.held == 0:
            fcntl.flock(BuildLock.file, fcntl.LOCK_UN)
            BuildLock.file.close()


def lake_build(targets, clean_modules=False):
    """(ok, output). Serialised with a file lock: several checks may run at once."""
    with BuildLock():
        rc, out = sh(['lake', 'build'] + list(targets), cwd=LEAN, timeout=3000)
        return rc == 0, out


def strip_lean_comments(src):
    # nested block comments and line comments
    out = []
    i, depth, n = 0, 0, len(src)
    while i < n:
        if src.startswith('/-', i):
            depth += 1
            i += 2
        elif depth and src.startswith('-/', i):
            depth -= 1
            i += 2
        elif depth:
            if src[i] == '\n':
                out.append('\n')
            i += 1
        elif src.startswith('--', i):
            while i < n and src[i] != '\n':
                i += 1
        else:
            out.append(src[i])
            i += 1
    return ''.join(out)


def import_closure(modules):
    """files of the BridgeVerif modules transitively imported by `modules`"""
    seen, todo = set(), list(modules)
    while todo:
        m = todo.pop()
        if m in seen or not m.startswith('BridgeVerif'):
            continue
        seen.add(m)
        p = os.path.join(LEAN, *m.split('.')) + '.lean'
        if os.path.exists(p):
            for imp in re.findall(r'^import\s+(\S+)', open(p).read(), re.M):
                todo.append(imp)
    return sorted(os.path.join(LEAN, *m.split('.')) + '.lean' for m in seen)


def source_scan(modules=None):
    """forbidden constructs in the Lean sources the property depends on (comments stripped);
    the driver sources are always included"""
    hits = []
    if modules is None:
        files_ = []
        for root, dirs, files in os.walk(LEAN):
            dirs[:] = [d for d in dirs if d != '.lake']
            files_ += [os.path.join(root, f) for f in files if f.endswith('.lean')]
    else:
        files_ = import_closure(list(modules) + ['BridgeVerif.Driver.Main'])
    for p in files_:
        if True:
            if os.path.exists(p):
                src = strip_lean_comments(open(p).read())
                for m in FORBIDDEN.finditer(src):
                    line = src.count('\n', 0, m.start()) + 1
                    hits.append(f'{os.path.relpath(p, LEAN)}:{line}: {m.group(0).strip()}')
    return hits


# audited modules whose theorems live in another namespace than their directory suggests
NAMESPACES = {'Lemmas.MiniPyFuel': 'Bridge.Py',
              # the regular-expression engine on the patterns of the source = the hand scanners (Appendix F)
              'Lemmas.RegexPbn': 'Bridge.RegexPbn', 'Lemmas.RegexHands': 'Bridge.RegexHands',
              'Lemmas.RegexConnect': 'Bridge.RegexConnect', 'Lemmas.RegexConnectB': 'Bridge.RegexConnect', 'Translated.ConnectInfo': 'Bridge.Translated.ConnectInfo',
              'Translated.ThreadsSeatE': 'Bridge.Translated.SeatE',
              'Lemmas.RegexMsgClient': 'Bridge.RegexMsgClient', 'Lemmas.RegexMsgClientB': 'Bridge.RegexMsgClient',
              'Translated.ClientParsersB': 'Bridge.Translated.ClientParsers', 'Translated.ClientParsersC': 'Bridge.Translated.ClientParsers',
              'Translated.ClientParsersD': 'Bridge.Translated.ClientParsers',
              'Translated.ThreadsClientE': 'Bridge.Translated.ClientE', 'Translated.ThreadsClientF': 'Bridge.Translated.ClientE',
              'Lemmas.RegexMsgBidA': 'Bridge.RegexMsgBid', 'Lemmas.RegexMsgBidB': 'Bridge.RegexMsgBid', 'Lemmas.RegexMsgBidC': 'Bridge.RegexMsgBid',
              'Lemmas.RegexMsgBidD': 'Bridge.RegexMsgBid',
              'Translated.MsgParsersA': 'Bridge.Translated.MsgParsers', 'Translated.MsgParsersC': 'Bridge.Translated.MsgParsers',
              'Translated.MsgParsersD': 'Bridge.Translated.MsgParsers', 'Translated.MsgParsersE': 'Bridge.Translated.MsgParsers', 'Translated.MsgParsersF': 'Bridge.Translated.MsgParsers',
              'Translated.ThreadsMainF': 'Bridge.Translated.MainA', 'Translated.ThreadsMainG': 'Bridge.Translated.MainB', 'Translated.ThreadsMainH': 'Bridge.Translated.MainB', 'Translated.ThreadsMainE': 'Bridge.Translated.MainE',
              'Lemmas.RegexMsgHandA': 'Bridge.RegexMsgHand', 'Lemmas.RegexMsgHandB': 'Bridge.RegexMsgHand',
              'Translated.HandParsersA': 'Bridge.Translated.HandParsers', 'Translated.HandParsersB': 'Bridge.Translated.HandParsers',
              'Translated.HandParsersC': 'Bridge.Translated.HandParsers', 'Translated.HandParsersD': 'Bridge.Translated.HandParsers',
              'Translated.ThreadsClientHands': 'Bridge.Translated.ClientHands', 'Translated.ThreadsClientG': 'Bridge.Translated.ClientG',
              'Translated.HandsPbn': 'Bridge.Translated.HandsPbn', 'Translated.HandsPbnClosed': 'Bridge.Translated.HandsPbn',
              # the theorem families about the translated THREAD programs live in their own namespaces
              'Translated.ThreadsMainA': 'Bridge.Translated.MainA', 'Translated.ThreadsMainB': 'Bridge.Translated.MainB',
              'Translated.ThreadsSeatB': 'Bridge.Translated.SeatB', 'Translated.ThreadsClientA': 'Bridge.Translated.ClientA',
              'Translated.ThreadsSeatC': 'Bridge.Translated.SeatC', 'Translated.ThreadsClientB': 'Bridge.Translated.ClientB',
              'Translated.ThreadsMainC': 'Bridge.Translated.MainC',
              'Translated.ThreadsSeatD': 'Bridge.Translated.SeatD', 'Translated.ThreadsClientC': 'Bridge.Translated.ClientC',
              'Translated.ThreadsClientD': 'Bridge.Translated.ClientD', 'Translated.ThreadsMainD': 'Bridge.Translated.MainD'}


def prop_module(prop):
    """'C07' -> ('BridgeVerif.Props.C07', 'Bridge.C07'); 'Translated.Score' -> ('BridgeVerif.Translated.Score', 'Bridge.Translated')"""
    if prop in NAMESPACES:
        return 'BridgeVerif.' + prop, NAMESPACES[prop]
    if '.' in prop:
        return 'BridgeVerif.' + prop, 'Bridge.' + prop.split('.')[0]
    return f'BridgeVerif.Props.{prop}', f'Bridge.{prop}'


def theorems_in(prop):
    path = os.path.join(LEAN, *prop_module(prop)[0].split('.')) + '.lean'
    src = strip_lean_comments(open(path).read())
    return re.findall(r'^theorem\s+([^\s({\[:]+)', src, re.M)


def audit(prop, workdir, props=None):
    """#print axioms of every theorem in Props/<p>.lean for p in props (default [prop]) -> {name: [axioms]} (None = missing)"""
    props = props or [prop]
    names = [(p, n) for p in props for n in theorems_in(p)]
    f = os.path.join(workdir, f'Audit_{prop}.lean')
    with open(f, 'w') as fh:
        for p in props:
            fh.write(f'import {prop_module(p)[0]}\n')
        for p, n in names:
            fh.write(f'#print axioms {prop_module(p)[1]}.{n}\n')
    rc, out = sh(['lake', 'env', 'lean', f], cwd=LEAN, timeout=1200)

    def key(p, n):
        return n if p == prop else f'{p}.{n}'
    res = {key(p, n): None for p, n in names}
    # messages may wrap over lines: normalise
    flat = re.sub(r'\s+', ' ', out)
    for p in props:
        ns = re.escape(prop_module(p)[1])
        mine = set(n for q, n in names if q == p)
        for m in re.finditer(r"'%s\.(\S+)' depends on axioms: \[([^\]]*)\]" % ns, flat):
            if m.group(1) in mine:
                res[key(p, m.group(1))] = [a.strip() for a in m.group(2).split(',') if a.strip()]
        for m in re.finditer(r"'%s\.(\S+)' does not depend on any axioms" % ns, flat):
            if m.group(1) in mine:
                res[key(p, m.group(1))] = []
    return res, out, rc


class ModelDriver:
    """runs the compiled Lean driver over a batch of op lines"""

    def __init__(self):
        # a check works with its own copy of the driver, taken under the build lock (VERIF_DRIVER)
        self.path = os.environ.get('VERIF_DRIVER') or DRIVER
        if not os.path.exists(self.path):
            raise Infra('driver executable missing (lake build driver failed?)')

    def run(self, lines, timeout=3000):
        if not lines:
            return []
        data = '\n'.join(lines) + '\n'
        p = subprocess.run([self.path], input=data, stdout=subprocess.PIPE, stderr=subprocess.PIPE,
                           text=True, timeout=timeout)
        if p.returncode != 0:
            raise Infra(f'driver crashed rc={p.returncode}: {p.stderr[-500:]}')
        out = p.stdout.split('\n')
        if out and out[-1] == '':
            out.pop()
        if len(out) != len(lines):
            raise Infra(f'driver answered {len(out)} lines for {len(lines)} ops')
        return out


class Case:
    """one correspondence case: op lines (driver protocol) + free-form meta for the evidence"""
    __slots__ = ('ops', 'meta', 'tags')

    def __init__(self, ops, meta=None, tags=()):
        self.ops = list(ops)
        self.meta = meta or {}
        self.tags = tuple(tags)


def first_diff(a, b):
    for i, (x, y) in enumerate(zip(a, b)):
        if x != y:
            return i
    return None


def shrink_case(ops, impl_exec, driver, keep_first=1, budget=400):
    """delta-debugging on the op list: drop ops while the two sides still disagree"""
    def differs(o):
        try:
            return first_diff(impl_exec(o), driver.run(o)) is not None
        except Infra:
            raise
        except Exception:
            return False
    cur = list(ops)
    # 1. cut after first differing line
    i = first_diff(impl_exec(cur), driver.run(cur))
    if i is not None:
        cur = cur[:i + 1]
    n = 2
    tries = 0
    while len(cur) - keep_first >= 1 and tries < budget:
        body = cur[keep_first:]
        chunk = max(1, len(body) // n)
        reduced = False
        for s in range(0, len(body), chunk):
            cand = cur[:keep_first] + body[:s] + body[s + chunk:]
            tries += 1
            if len(cand) < len(cur) and differs(cand):
                cur = cand
                n = max(n - 1, 2)
                reduced = True
                break
        if not reduced:
            if chunk == 1:
                break
            n = min(len(body), n * 2)
    return cur


def load_known():
    known, fixed = [], []
    p = os.path.join(VERIF, 'known_findings.txt')
    if os.path.exists(p):
        for line in open(p):
            line = line.strip()
            m = re.match(r'known:\s+property=(\S+)\s+key=(\S+)\s+(.*)', line)
            if m:
                known.append((m.group(1), m.group(2), m.group(3)))
            m = re.match(r'fixed:\s+property=(\S+)\s+(\S+)\s+(.*)', line)
            if m:
                fixed.append((m.group(1), m.group(2), m.group(3)))
    return known, fixed


def write_json(path, obj):
    os.makedirs(os.path.dirname(path), exist_ok=True)
    tmp = path + '.tmp%d' % os.getpid()
    with open(tmp, 'w') as f:
        json.dump(obj, f, indent=1, sort_keys=True, default=str)
        f.write('\n')
    os.replace(tmp, path)
