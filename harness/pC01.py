"""C01 — auction correspondence; see auction_common.py"""
import auction_common as ac
from auction_common import impl_exec, impl_exec_multi, nontrivial, classify  # noqa: F401

SHARDS = {'quick': 1, 'thorough': 16}
TITLE = 'Auction accepts exactly the calls the Laws of bridge allow'
LEAN_TARGETS = ['BridgeVerif.Props.C01', 'BridgeVerif.Translated.Auction', 'BridgeVerif.Props.C01t', 'BridgeVerif.Lemmas.MiniPyFuel']
AUDIT_PROPS = ['C01', 'Translated.Auction', 'C01t', 'Lemmas.MiniPyFuel']
REQUIRED = ['Lemmas.MiniPyFuel.mkRec_mono', 'Lemmas.MiniPyFuel.runMethod_independent_of_fuel', 'C01t.translated_auction_refines_laws', 'C01t.translated_take_bid_is_model', 'Translated.Auction.init_translated', 'Translated.Auction.take_bid_translated', 'Translated.Auction.run_translated', 'Translated.Auction.contract_translated',
            'auction_refines_laws', 'take_bid_accepts_iff_legal', 'illegal_reported_and_state_unchanged',
            'avail_vector_is_legal_set']
RULE = ('legal-biased random auctions played to completion through BiddingPhase.take_bid with calls the Laws forbid '
        'offered at every position (X/XX and bids at or below the last bid preferred), all 4 dealers x 4 vulnerabilities, '
        'fixed edge auctions; thorough adds every one of the 38 calls offered after every legal history of length <= 2 '
        '(sampled beyond). After every offered call the result, the 38-vector, turn, history, per-seat histories, done flag '
        'and contract are compared with the model. distinct = distinct (dealer, vul, accepted history, offered call).')
REQUIRED_COUNTERS = {'quick': ['illegal_offered', 'has_double', 'has_redouble', 'double_superseded'],
                     'thorough': ['illegal_offered', 'has_double', 'has_redouble', 'double_superseded', 'bfs_offer']}
TRUSTED = ['the MiniPy semantics (Model/MiniPy.lean: value semantics, no aliasing) and the code translator (harness/translate_py.py), validated on every run by executing the translated program next to the real code (counters translated_*)',
           'numpy float vector of 0.0/1.0 read through BiddingPhase.available_bid']
ASSUMPTIONS = ['CPython list/dict semantics', 'numpy slice assignment on a 38-vector']


# areas of the pure core whose TRANSLATION (Generated/PyCore.lean) is run next to the real code in this check
TRANSLATED_AREAS = ('auction',)

def cases(ctx):
    return ac.gen_cases(ctx, 400 if ctx.quick else 1500, 0 if ctx.quick else 3)
