"""The THREAD code of bridge_env (server.py `PlayerThread` / `Server`, client.py `Client`, socket_interface.py
`MessageInterface.send_message` / `receive_message`)  ->  sequential Python in the pure subset of translate_py.py.

A thread of the table manager is a sequential program that talks to the rest of the world through a handful of external
objects: queues, a socket, a barrier, an event, the log writer, the clock, other threads.  This pass re-writes the AST of
each method so that every operation on such an object becomes a call on ONE explicit world object `self._w`
(class `_World` below): a send / put / emit appends to the list of operations performed, a receive / get / ask takes the
next value from the world's input streams (and raises `Blocked` when the stream is empty).  Nothing else is changed: the
control flow, the parsing, the own auction / play objects, the texts built are the source's.  The result is

  * ordinary Python (it is also EXECUTED by the harness next to the real threads: `thread_check.py`), and
  * inside the subset of translate_py.py, which turns it into the MiniPy program `Generated/PyCoreThreads.lean`.

What is external is DECLARED here, by name (EXTERNALS); an operation on an external that has no rule, or an effectful
call in a position where it cannot be hoisted, makes the pass FAIL (a broken obligation), never guess.

Assumed, not modelled (recorded in DESIGN.md §10.2d): `str.encode('utf-8')` / `bytes.decode('utf-8')` are inverse and the
socket carries the text's characters; `copy.deepcopy` is the identity on values (MiniPy has value semantics); `is` between two strings that are the
SAME constant of `Server.Message` is `==`; logging has no effect; the `with` statement is entered and left on the normal
path only (an exception ends the run of the translated thread: the abort path is the subject of C13's own model).
"""
import ast
import copy
import os

WORLD = '''
class Blocked(Exception):
    pass


class _World:
    def __init__(self, ins, table, tables, eof):
        self.ins = ins
        self.out = []
        self.table = table
        self.tables = tables
        self.eof = eof

    def w_put(self, q, k, m):
        self.out.append(('put', q, k, m))

    def w_get(self, q, k):
        if len(self.ins[(q, k)]) == 0:
            raise Blocked()
        m = self.ins[(q, k)][0]
        self.ins[(q, k)] = self.ins[(q, k)][1:]
        self.out.append(('get', q, k))
        return m

    def w_send(self, m):
        self.out.append(('send', m))

    def w_recv(self):
        if len(self.ins['conn']) == 0:
            raise Blocked()
        m = self.ins['conn'][0]
        self.ins['conn'] = self.ins['conn'][1:]
        self.out.append(('recv',))
        return m

    def w_sendall(self, text):
        self.out.append(('sendall', text))

    def w_recv1(self):
        if len(self.ins['bytes']) == 0:
            if self.eof:
                return ''
            raise Blocked()
        c = self.ins['bytes'][0]
        self.ins['bytes'] = self.ins['bytes'][1:]
        return c

    def w_advance(self):
        if len(self.tables) != 0:
            self.table = self.tables[0]
            self.tables = self.tables[1:]

    def w_sync(self):
        self.out.append(('sync',))
        self.w_advance()

    def w_wait_event(self):
        self.out.append(('event_wait',))
        self.w_advance()

    def w_op(self, kind, arg):
        self.out.append((kind, arg))

    def w_ask(self, kind, arg):
        if len(self.ins[kind]) == 0:
            raise Blocked()
        v = self.ins[kind][0]
        self.ins[kind] = self.ins[kind][1:]
        self.out.append((kind, arg))
        return v

    def w_emit(self, kind, arg):
        self.out.append(('emit', kind, arg))

    def w_set_table(self, k, v):
        self.table[k] = v
        self.out.append(('table', k, v))
'''


class DesugarError(Exception):
    pass


def w_call(method, *args):
    return ast.Call(func=ast.Attribute(value=ast.Attribute(value=ast.Name(id='self', ctx=ast.Load()), attr='_w', ctx=ast.Load()),
                                       attr=method, ctx=ast.Load()), args=list(args), keywords=[])


def const(v):
    return ast.Constant(value=v)


def table_expr():
    return ast.Attribute(value=ast.Attribute(value=ast.Name(id='self', ctx=ast.Load()), attr='_w', ctx=ast.Load()),
                         attr='table', ctx=ast.Load())


# per source class: new name, the methods taken, what the external objects are called in ITS code, the synthetic constructor
CONFIG = {
    'PlayerThread': {
        'new': 'SeatThread', 'file': 'network_bridge/server.py',
        'methods': ['send_message_to_queue', 'receive_message_from_queue', '_check_message', '_handle_error', '_sync_event',
                    '_connect', '_deal', '_bidding_phase', '_playing_phase', 'run'],
        'queues': {'self._sent_message_queues': 't2m', 'self._received_message_queues': 'm2t'},
        'barriers': ['self.event_sync'], 'events': ['self.event_thread'], 'sockets': ['self.connection'],
        'tables': ['self.team_names'], 'ignored': ['self.players_event'],
        'init': 'def __init__(self, w):\n    self._w = w\n',
    },
    'Server': {
        'new': 'MainThread', 'file': 'network_bridge/server.py',
        'methods': ['_sync_event', 'deal', 'bidding_phase', 'playing_phase', 'run'],
        'queues': {'self.sent_message_queues': 'm2t', 'self.received_message_queues': 't2m'},
        'barriers': ['event_sync', 'event'], 'events': ['event_thread'], 'sockets': [],
        'listen': ['self._socket'], 'threads': ['thread'],
        'tables': ['team_names'], 'ignored': ['self.players_event', 'players_event'],
        'init': 'def __init__(self, w, board_settings):\n    self._w = w\n    self.board_settings = board_settings\n',
    },
    'Client': {
        'new': 'ClientThread', 'file': 'network_bridge/client.py',
        'methods': ['_connect', '_deal', 'bidding_phase', 'playing_phase', 'run'],
        'queues': {}, 'barriers': [], 'events': [], 'sockets': [], 'tables': [], 'ignored': [],
        'oracles': {'self.bidding_system.bid': 'bid', 'self.playing_system.play': 'play'},
        'init': ('def __init__(self, w, player, team_name):\n    self._w = w\n    self.player = player\n'
                 '    self.team_name = team_name\n    self.opponent_team_name = None\n'),
    },
    'MessageInterface': {
        'new': 'Framing', 'file': 'network_bridge/socket_interface.py',
        'methods': ['send_message', 'receive_message'],
        'queues': {}, 'barriers': [], 'events': [], 'sockets': [], 'tables': [], 'ignored': [],
        'bytesock': ['self.connection_socket'],
        'init': 'def __init__(self, w):\n    self._w = w\n',
    },
}


class Rewriter(ast.NodeTransformer):
    """one method of one class"""

    def __init__(self, cfg, cls_node, consts, src_class, static_pure, effectful_static):
        self.cfg = cfg
        self.cls_node = cls_node
        self.consts = consts                    # ('Server', 'Message', 'NULL') / ('PlayerThread', 'PROTOCOL_VERSION') -> value
        self.src_class = src_class
        self.static_pure = static_pure          # static methods of the source class that stay calls on the source class
        self.effectful_static = effectful_static
        self.lambdas = {}
        self.tmp = 0

    # ---------------------------------------------------------------- helpers
    def src(self, node):
        return ast.unparse(node)

    def is_logger_call(self, call):
        f = call.func
        return (isinstance(f, ast.Attribute) and isinstance(f.value, ast.Name) and f.value.id == 'logger') or \
               (isinstance(f, ast.Name) and f.id == 'print')

    def fresh(self):
        self.tmp += 1
        return f'_t{self.tmp}'

    # ---------------------------------------------------------------- expressions
    def visit_Attribute(self, node):
        s = self.src(node)
        if s in self.cfg.get('tables', []):
            return table_expr()
        # Server.Message.NULL / self.Message.NULL / self.PROTOCOL_VERSION / PlayerThread.PROTOCOL_VERSION
        parts = s.split('.')
        if parts[0] == 'self':
            parts[0] = self.src_class
        key = tuple(parts)
        if key in self.consts:
            return const(self.consts[key])
        self.generic_visit(node)
        return node

    def visit_Name(self, node):
        if isinstance(node.ctx, ast.Load) and node.id in self.cfg.get('tables', []):
            return table_expr()
        return node

    def visit_Compare(self, node):
        self.generic_visit(node)
        # `message is Server.Message.NULL`: identity of the SAME string constant handed over through a queue = equality of texts
        operands = [node.left] + list(node.comparators)
        for i, op in enumerate(node.ops):
            if isinstance(op, (ast.Is, ast.IsNot)) and any(isinstance(x, ast.Constant) and isinstance(x.value, str)
                                                            for x in (operands[i], operands[i + 1])):
                node.ops[i] = ast.Eq() if isinstance(op, ast.Is) else ast.NotEq()
        return node

    def visit_Constant(self, node):
        if isinstance(node.value, bytes):
            return const(node.value.decode('latin-1'))
        return node

    def visit_Call(self, node):
        f = node.func
        fs = self.src(f)
        cfg = self.cfg
        # ---- things that vanish
        if fs == 'copy.deepcopy' and len(node.args) == 1:
            # kept: the desugared code is also run as Python (where it matters); the translator reads it as the identity
            node.args = [self.visit(node.args[0])]
            return node
        if isinstance(f, ast.Attribute) and f.attr in ('encode', 'decode') and len(node.args) == 1 \
                and isinstance(node.args[0], ast.Constant) and node.args[0].value == 'utf-8':
            return self.visit(f.value)
        if fs in ('Barrier', 'Event', 'Queue'):
            return const(None)
        if isinstance(f, ast.Name) and f.id in self.lambdas and not node.args:
            return self.visit(copy.deepcopy(self.lambdas[f.id]))
        # ---- queues
        if isinstance(f, ast.Attribute) and f.attr in ('put', 'get') and isinstance(f.value, ast.Subscript):
            q = self.src(f.value.value)
            if q in cfg['queues']:
                k = self.visit(f.value.slice)
                if f.attr == 'put':
                    return w_call('w_put', const(cfg['queues'][q]), k, self.visit(node.args[0]))
                return w_call('w_get', const(cfg['queues'][q]), k)
        if isinstance(f, ast.Attribute):
            r = self.src(f.value)
            if r in cfg.get('barriers', []) and f.attr == 'wait' and not node.args:
                return w_call('w_sync')
            if r in cfg.get('events', []):
                if f.attr == 'wait' and not node.args and not node.keywords:
                    return w_call('w_wait_event')
                if f.attr in ('set', 'clear') and not node.args:
                    return w_call('w_op', const('event_' + f.attr), const(None))
            if r in cfg.get('sockets', []) and f.attr == 'close':
                return w_call('w_op', const('close'), const(None))
            if r in cfg.get('listen', []):
                if f.attr == 'bind':
                    return w_call('w_op', const('bind'), const(None))
                if f.attr == 'listen':
                    return w_call('w_op', const('listen'), self.visit(node.args[0]))
                if f.attr == 'accept':
                    return w_call('w_ask', const('accept'), const(None))
            if r in cfg.get('threads', []):
                if f.attr in ('start', 'join') and not node.args and not node.keywords:
                    return w_call('w_op', const(f.attr), self.visit(f.value))
                if f.attr == 'is_alive':
                    return w_call('w_ask', const('is_alive'), self.visit(f.value))
            if r in cfg.get('bytesock', []):
                if f.attr == 'recv' and len(node.args) == 1 and isinstance(node.args[0], ast.Constant) and node.args[0].value == 1:
                    return w_call('w_recv1')
                if f.attr == 'sendall' and len(node.args) == 1:
                    return w_call('w_sendall', self.visit(node.args[0]))
            if fs in cfg.get('oracles', {}):
                return w_call('w_ask', const(cfg['oracles'][fs]), const(None))
            # ---- the message layer, as the thread classes use it
            if (r == 'super()' or r == 'self') and f.attr == 'send_message' and self.src_class != 'MessageInterface':
                return w_call('w_send', self.visit(node.args[0] if node.args else node.keywords[0].value))
            if (r == 'super()' or r == 'self') and f.attr == 'receive_message' and self.src_class != 'MessageInterface':
                return w_call('w_recv')
            if r == 'super()' and f.attr == 'connect_socket':
                return w_call('w_op', const('connect'), const(None))
            if r in ('super()', 'self') and f.attr in ('parse_bid', 'parse_card', 'parse_match_base') \
                    and self.src_class != 'MessageInterface':
                node.func = ast.Attribute(value=ast.Name(id='MessageInterface', ctx=ast.Load()), attr=f.attr, ctx=ast.Load())
                self.generic_visit(node)
                return node
            if r == 'self' and f.attr in self.static_pure:
                node.func = ast.Attribute(value=ast.Name(id=self.src_class, ctx=ast.Load()), attr=f.attr, ctx=ast.Load())
                self.generic_visit(node)
                return node
            if r == 'self' and f.attr in self.effectful_static:
                # an effectful static method became an instance method; arguments that are externals become None
                node.args = [const(None) if self.is_external_expr(a) else self.visit(a) for a in node.args]
                return node
            if fs == 'time.sleep':
                return w_call('w_op', const('sleep'), self.visit(node.args[0]))
            if fs == 'random.choice':
                return w_call('w_ask', const('choice'), self.visit(node.args[0]))
            if fs == 'Hands.generate_random_hands':
                return w_call('w_ask', const('random_hands'), const(None))
            if r == 'game_log_writer' and f.attr == 'write' and not node.args:
                d = ast.Dict(keys=[const(k.arg) for k in node.keywords], values=[self.visit(k.value) for k in node.keywords])
                return w_call('w_emit', const('write'), d)
        if fs == 'PlayerThread' and self.src_class == 'Server':
            conn = [k.value for k in node.keywords if k.arg == 'connection']
            return w_call('w_ask', const('new_thread'), self.visit(conn[0]) if conn else const(None))
        if fs in ('super().__init__', 'Thread.__init__', 'MessageInterface.__init__', 'SocketInterface.__init__'):
            raise DesugarError(f'{fs}: constructors of the thread classes are replaced, not translated')
        self.generic_visit(node)
        # an argument that names an external object is not a value of the program
        node.args = [const(None) if self.is_external_expr(a) else a for a in node.args]
        return node

    def is_external_expr(self, a):
        s = self.src(a)
        cfg = self.cfg
        return s in cfg.get('barriers', []) or s in cfg.get('events', []) or s in cfg.get('ignored', []) or \
            s in cfg.get('sockets', []) or s in cfg.get('listen', [])

    # ---------------------------------------------------------------- statements
    def is_effect(self, call):
        """a call that may touch the world: on `self._w`, or an instance method of the thread class itself"""
        f = call.func
        if not isinstance(f, ast.Attribute):
            return False
        s = self.src(f.value)
        if s == 'self._w':
            return True
        if s == 'self' and f.attr in self.instance_methods:
            return True
        return False

    def hoist(self, expr, pre, top=True):
        """replace effectful calls nested in `expr` by temporaries (evaluation order: left to right, innermost first);
        the call that IS the whole expression stays (the translator's `x = recv.m(..)` form) when `top`"""
        if isinstance(expr, (ast.BoolOp, ast.IfExp, ast.Lambda, ast.ListComp, ast.SetComp, ast.DictComp, ast.GeneratorExp)):
            for sub in ast.walk(expr):
                if isinstance(sub, ast.Call) and self.is_effect(sub):
                    raise DesugarError(f'effectful call {self.src(sub)} under a short-circuit / comprehension')
            return expr
        for field, value in ast.iter_fields(expr):
            if isinstance(value, ast.expr):
                setattr(expr, field, self.hoist(value, pre, top=False))
            elif isinstance(value, list):
                setattr(expr, field, [self.hoist(v, pre, top=False) if isinstance(v, ast.expr) else
                                      (self.hoist_kw(v, pre) if isinstance(v, ast.keyword) else v) for v in value])
        if isinstance(expr, ast.Call) and self.is_effect(expr) and not top:
            t = self.fresh()
            pre.append(ast.Assign(targets=[ast.Name(id=t, ctx=ast.Store())], value=expr, lineno=0))
            return ast.Name(id=t, ctx=ast.Load())
        return expr

    def hoist_kw(self, kw, pre):
        kw.value = self.hoist(kw.value, pre, top=False)
        return kw

    def block(self, body):
        out = []
        for st in body:
            out.extend(self.statement(st))
        return out or [ast.Pass()]

    def statement(self, st):
        cfg = self.cfg
        if isinstance(st, ast.Expr):
            if isinstance(st.value, ast.Constant):
                return []
            if isinstance(st.value, ast.Call) and self.is_logger_call(st.value):
                return []
            v = self.visit(st.value)
            pre = []
            v = self.hoist(v, pre, top=True)
            return pre + [ast.Expr(value=v)]
        if isinstance(st, (ast.Assign, ast.AnnAssign)):
            targets = st.targets if isinstance(st, ast.Assign) else [st.target]
            if isinstance(st, ast.AnnAssign) and st.value is None:
                return []
            if len(targets) == 1 and isinstance(targets[0], ast.Name) and isinstance(st.value, ast.Lambda) \
                    and not st.value.args.args:
                self.lambdas[targets[0].id] = st.value.body
                return []
            value = self.visit(st.value)
            pre = []
            t0 = targets[0]
            ts = self.src(t0)
            # a write to the shared seat table
            if isinstance(t0, ast.Subscript) and self.src(t0.value) in cfg.get('tables', []):
                value = self.hoist(value, pre, top=False)
                return pre + [ast.Expr(value=w_call('w_set_table', self.visit(t0.slice), value))]
            if ts in cfg.get('tables', []):
                tgt = table_expr()
                tgt.ctx = ast.Store()
                value = self.hoist(value, pre, top=False)
                return pre + [ast.Assign(targets=[tgt], value=value, lineno=0)]
            if ts in cfg.get('barriers', []) or ts in cfg.get('events', []):
                return []
            simple = isinstance(t0, ast.Name) or (isinstance(t0, ast.Attribute))
            value = self.hoist(value, pre, top=simple)
            tgt = self.visit_target(t0)
            return pre + [ast.Assign(targets=[tgt], value=value, lineno=0)]
        if isinstance(st, ast.AugAssign):
            st.value = self.visit(st.value)
            return [st]
        if isinstance(st, ast.Return):
            if st.value is None:
                return [st]
            pre = []
            v = self.hoist(self.visit(st.value), pre, top=False)
            return pre + [ast.Return(value=v)]
        if isinstance(st, ast.If):
            pre = []
            test = self.hoist(self.visit(st.test), pre, top=False)
            return pre + [ast.If(test=test, body=self.block(st.body), orelse=self.block(st.orelse) if st.orelse else [])]
        if isinstance(st, ast.While):
            test = self.visit(st.test)
            for sub in ast.walk(test):
                if isinstance(sub, ast.Call) and self.is_effect(sub):
                    raise DesugarError('effectful call in a while test')
            return [ast.While(test=test, body=self.block(st.body), orelse=[])]
        if isinstance(st, ast.For):
            pre = []
            it = self.hoist(self.visit(st.iter), pre, top=False)
            return pre + [ast.For(target=st.target, iter=it, body=self.block(st.body), orelse=[], lineno=0)]
        if isinstance(st, ast.With):
            # with open(..) as fw, JsonLogWriter(fw) as game_log_writer:  ->  emit open ; body ; emit close   (normal path)
            srcs = [self.src(i.context_expr) for i in st.items]
            if len(srcs) == 2 and srcs[0].startswith('open(') and srcs[1].startswith('JsonLogWriter('):
                return ([ast.Expr(value=w_call('w_emit', const('open'), const(None)))] + self.block(st.body) +
                        [ast.Expr(value=w_call('w_emit', const('close'), const(None)))])
            raise DesugarError('with statement: ' + '; '.join(srcs))
        if isinstance(st, ast.Raise):
            return [ast.Raise(exc=ast.Call(func=st.exc.func, args=[], keywords=[]) if isinstance(st.exc, ast.Call) else st.exc,
                              cause=None)]
        if isinstance(st, ast.Assert):
            return [ast.Assert(test=self.visit(st.test), msg=None)]
        if isinstance(st, (ast.Break, ast.Continue, ast.Pass)):
            return [st]
        raise DesugarError(f'statement {type(st).__name__}')

    def visit_target(self, t):
        if isinstance(t, (ast.Tuple, ast.List)):
            t.elts = [self.visit_target(e) for e in t.elts]
            return t
        if isinstance(t, ast.Subscript):
            t.value = self.visit_target(t.value) if isinstance(t.value, (ast.Attribute, ast.Subscript)) else t.value
            t.slice = self.visit(t.slice)
            return t
        return t


def class_consts(tree):
    """literal class attributes, also of nested classes: ('Server','Message','NULL') -> 'nothing happens'"""
    out = {}

    def walk(cls, prefix):
        for st in cls.body:
            tgt = None
            if isinstance(st, ast.Assign) and len(st.targets) == 1 and isinstance(st.targets[0], ast.Name):
                tgt, val = st.targets[0].id, st.value
            elif isinstance(st, ast.AnnAssign) and isinstance(st.target, ast.Name) and st.value is not None:
                tgt, val = st.target.id, st.value
            if tgt is not None and isinstance(val, ast.Constant) and type(val.value) in (int, str):
                out[prefix + (tgt,)] = val.value
            if isinstance(st, ast.ClassDef):
                walk(st, prefix + (st.name,))
    for node in tree.body:
        if isinstance(node, ast.ClassDef):
            walk(node, (node.name,))
    return out


def desugar(repo):
    """-> Python source of the pseudo-module `_threads`"""
    trees = {}
    consts = {}
    for f in {c['file'] for c in CONFIG.values()}:
        t = ast.parse(open(os.path.join(repo, 'bridge_env', f), encoding='utf-8').read())
        trees[f] = t
        consts.update(class_consts(t))
    out = [WORLD]
    for src_class, cfg in CONFIG.items():
        cls = next((n for n in trees[cfg['file']].body if isinstance(n, ast.ClassDef) and n.name == src_class), None)
        if cls is None:
            raise DesugarError(f'class {src_class} not found')
        methods = {st.name: st for st in cls.body if isinstance(st, ast.FunctionDef)}
        missing = [m for m in cfg['methods'] if m not in methods]
        if missing:
            raise DesugarError(f'{src_class}: methods not found: {missing}')
        statics = {n for n, fd in methods.items() if any(ast.unparse(d) == 'staticmethod' for d in fd.decorator_list)}
        effectful_static = {n for n in statics if n in cfg['methods']}
        static_pure = statics - effectful_static
        body = [ast.parse(cfg['init']).body[0]]
        for mname in cfg['methods']:
            fd = copy.deepcopy(methods[mname])
            rw = Rewriter(cfg, cls, consts, src_class, static_pure, effectful_static)
            rw.instance_methods = set(cfg['methods'])
            fd.decorator_list = []
            fd.returns = None
            if mname in effectful_static:
                fd.args.args = [ast.arg(arg='self')] + fd.args.args
            for a in fd.args.args:
                a.annotation = None
            fd.args.defaults = [rw.visit(d) for d in fd.args.defaults]
            fd.body = rw.block(fd.body)
            body.append(fd)
        new = ast.ClassDef(name=cfg['new'], bases=[], keywords=[], body=body, decorator_list=[])
        ast.fix_missing_locations(new)
        out.append(ast.unparse(new))
    return '\n\n\n'.join(out) + '\n'


if __name__ == '__main__':
    import sys
    print(desugar(sys.argv[1] if len(sys.argv) > 1 else os.environ.get('BRIDGE_ENV_REPO', '/repo')))
