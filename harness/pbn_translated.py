"""The TRANSLATED PBN parser (Generated/PyCorePbn.lean: `PbnParser.extract_content`, `parse_board`, `parse_stream` — a
generator, translated as the function returning the list of what it yields —, `parse_all`, `parse_board_settings`) next to
the real parser: admissible import layouts, export texts and PBN-ish soup (comments, stray quotes and brackets), read as the
lines a text-mode file yields.  A difference is a broken correspondence of translator / interpreter, not a violation."""
import io

import py_common as PC

FRESH = 'oPbnParser{_in_comment=Ftag_pair_buffer=t()comment_list=t()comment_buffer=t()}'


def lines_of(text):
    # what `for line in fp` yields for a text-mode file / StringIO with universal newlines
    return list(io.StringIO(text, newline=None))


def outcome(fn):
    try:
        return ('ok', fn())
    except Exception as e:      # noqa: BLE001 — the class of the exception is the observation
        return ('exc', type(e).__name__)


def check(repo, driver, texts):
    """-> (differences, number of translated runs)"""
    from bridge_env.data_handler.pbn_handler.parser import PbnParser
    ops, exp = [], []
    for text in texts:
        ls = lines_of(text)
        fp = 't(' + ''.join(PC.enc(l) for l in ls) + ')'
        real_all = outcome(lambda: PbnParser().parse_all(io.StringIO(text, newline=None)))
        ops.append(f'Y.meth PbnParser parse_all {FRESH} {fp}')
        exp.append(('parse_all', text, real_all))
        real_set = outcome(lambda: PbnParser().parse_board_settings(io.StringIO(text, newline=None)))
        ops.append(f'Y.meth PbnParser parse_board_settings {FRESH} {fp}')
        exp.append(('parse_board_settings', text, real_set))
    answers = driver.run(ops) if ops else []
    diffs = []
    for a, (what, text, real) in zip(answers, exp):
        parts = a.split(' ')
        if real[0] == 'exc':
            if parts[0] != 'exc' or parts[1] != real[1]:
                diffs.append({'what': 'translated-pbn-parser', 'method': what, 'text': text[:200], 'real': f'raises {real[1]}',
                              'minipy': a[:200]})
            continue
        if parts[0] != 'ok':
            diffs.append({'what': 'translated-pbn-parser', 'method': what, 'text': text[:200], 'real': 'returns', 'minipy': a[:200]})
            continue
        r = PC.same(real[1], PC.parse(parts[1]))
        if r:
            diffs.append({'what': 'translated-pbn-parser', 'method': what, 'text': text[:200], 'difference': r[:300]})
    return diffs, len(ops)
