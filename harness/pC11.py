"""C11 — all replicas of a board agree with the table manager."""
import json
import random
import re

import common

TITLE = 'All replicas of a board agree with the table manager'
LEAN_TARGETS = ['BridgeVerif.Translated.ThreadsClientF', 'BridgeVerif.Translated.ThreadsClientHands', 'BridgeVerif.Translated.ThreadsClientG', 'BridgeVerif.Props.C11', 'BridgeVerif.Props.C11a', 'BridgeVerif.Translated.Play', 'BridgeVerif.Translated.NetHelpers', 'BridgeVerif.Translated.ThreadsClientA', 'BridgeVerif.Translated.ThreadsClientB', 'BridgeVerif.Translated.ThreadsClientC', 'BridgeVerif.Translated.ThreadsClientD']
AUDIT_PROPS = ['C11', 'C11a', 'Translated.Play', 'Translated.NetHelpers', 'Translated.ThreadsClientA', 'Translated.ThreadsClientB', 'Translated.ThreadsClientC', 'Translated.ThreadsClientD', 'Translated.ThreadsClientE', 'Translated.ThreadsClientF', 'Translated.ClientParsersB', 'Translated.ClientParsersC', 'Translated.ClientParsersD', 'Lemmas.RegexMsgClient', 'Lemmas.RegexMsgClientB', 'Lemmas.RegexMsgHandB', 'Translated.HandParsersA', 'Translated.HandParsersD', 'Translated.ThreadsClientHands', 'Translated.ThreadsClientG']
REQUIRED = ['Translated.ThreadsClientG.translated_client_is_session_program_closed', 'Translated.ThreadsClientG.session_boards_parses', 'Translated.ThreadsClientF.connectParses_all', 'Translated.ThreadsClientHands.dealParses_of_hand', 'Translated.ThreadsClientHands.hand_message_translated', 'Translated.ThreadsClientF.parse_team_names_all', 'Translated.ThreadsClientE.board_header_returns',
            'Translated.ThreadsClientD.translated_client_is_session_program', 'Translated.ThreadsClientD.translated_client_consumes_everything', 
            'Translated.ThreadsClientC.client_board_translated', 'Translated.ThreadsClientC.client_boards_translated', 'Translated.ThreadsClientC.client_run_translated', 
            'Translated.ThreadsClientB.client_play_card_translated', 'Translated.ThreadsClientB.client_playing_loop_translated', 'Translated.ThreadsClientB.client_playing_translated', 
            'Translated.ThreadsClientA.client_deal_translated', 'Translated.ThreadsClientA.client_bidding_translated', 'Translated.ThreadsClientA.client_connect_translated', 
            'Translated.NetHelpers.nh_weak_bid_translated',
            'Translated.Play.observed_play_translated', 'Translated.Play.observed_init_translated', 'Translated.Play.play_card_translated',
            'server_reads_the_calls', 'client_auction_replica', 'client_contract_is_servers', 'server_plays_the_cards',
            'client_play_replica', 'bundled_clients_conform', 'bundled_client_completes_session', 'bundled_client_follows_the_messages',
            'C11a.observer_simulates', 'C11a.observer_never_rejects_accepted', 'C11a.feed_public_state', 'C11a.related_agree']
SHARDS = {'quick': 4, 'thorough': 16}
SEATS = ['N', 'E', 'S', 'W']
RULE = ('(a) in process: the real PlayingPhaseWithHands and FOUR real ObservedPlayingPhase (one per seat, dummy included) run '
        'in lock step on random deals x contracts; plays are offered legal or not (out of turn, card not held, card already '
        'played, revokes); every play the full-information game accepts must be accepted by all four observers, dummy\'s hand '
        'being supplied after the opening lead to the three that do not sit dummy; after EVERY card: contract data, declarer, '
        'dummy, leader, turn, trick number, trick counts, trick history, played cards, has_done, own hand and tracked dummy hand '
        'are compared. (b) on the network: four real bundled Client objects (the bundled WeakBid/RandomPlay systems, and seeded '
        'random LEGAL bidding / playing systems for variety) play sessions of 1-3 boards against the unmodified threaded Server '
        'under the deterministic scheduler; per board: every client\'s bidding_phase() return value (contract, doubling, '
        'vulnerability, declarer) and its play replica at the end of the board (trick history with leaders, trick counts, trick '
        'number, turn) are compared with the table manager\'s record in the log, and every client must see "End of session" and '
        'return. distinct = distinct (deal, contract, play list) / (scenario, systems, policy).')
TRUSTED = ['the MiniPy semantics (Model/MiniPy.lean: value semantics, no aliasing) and the code translator (harness/translate_py.py), validated on every run by executing the translated program next to the real code (counters translated_*)',
           'primitive semantics of Queue / socket / Barrier as stated for C09',
           'the client-side replica is observed by substituting a recording subclass for ObservedPlayingPhase in the client '
           'module\'s namespace (harness-side, no repository hook) and by wrapping Client.bidding_phase']
ASSUMPTIONS = ['in-memory network instead of TCP', 'PYTHONHASHSEED pinned (RandomPlay iterates a set)']
REQUIRED_COUNTERS = {t: ['lockstep_boards', 'lockstep_refused_plays', 'observer_is_dummy', 'bundled_sessions', 'bundled_boards',
                         'systems_bundled', 'systems_random_legal', 'systems_pass_then_play', 'systems_mixed', 'passed_out_boards_net']
                     for t in ('quick', 'thorough')}


# areas of the pure core whose TRANSLATION (Generated/PyCore.lean) is run next to the real code in this check
TRANSLATED_AREAS = ('play', 'net')

def cases(ctx):
    return []


# ------------------------------------------------------------------ (a) lock step in process
def pub(env):
    h = [(t.leader.name, tuple(int(c) for c in t.cards)) for t in env.playing_history.history]
    from bridge_env import Pair
    return {'leader': env.leader.name, 'active': env.active_player.name if env.active_player is not None else None,
            'trick_num': env.trick_num, 'taken': (env.taken_tricks[Pair.NS], env.taken_tricks[Pair.EW]),
            'history': h, 'used': sorted(int(c) for c in env.used_cards), 'done': env.has_done(),
            'declarer': env.declarer.name, 'dummy': env.dummy.name,
            'trump': None if env.contract.trump is None else env.contract.trump.name}


def lockstep_board(ctx, rng):
    from bridge_env import Bid, Card, Contract, Hands, Player, Vul
    from bridge_env.playing_phase import ObservedPlayingPhase, PlayingPhaseWithHands
    import copy
    deck = list(range(52))
    rng.shuffle(deck)
    deal = [deck[i * 13:(i + 1) * 13] for i in range(4)]
    bid = rng.randrange(35)
    decl = rng.randrange(4)
    P = [Player.N, Player.E, Player.S, Player.W]
    contract = Contract(Bid.int_to_bid(bid), rng.random() < 0.3, rng.random() < 0.1, rng.choice(list(Vul)), P[decl])
    hands = Hands(*[{Card.int_to_card(c) for c in h} for h in deal])
    full = PlayingPhaseWithHands(contract, copy.deepcopy(hands))
    obs = [ObservedPlayingPhase(contract, P[i], {Card.int_to_card(c) for c in deal[i]}) for i in range(4)]
    dummy = (decl + 2) % 4
    ctx.count('lockstep_boards')
    ctx.count('observer_is_dummy')        # one of the four always sits dummy
    live = [set(h) for h in deal]
    played = []
    trace = []
    ncards = 0
    guard = 0
    while not full.has_done() and guard < 400:
        guard += 1
        active = P.index(full.active_player)
        r = rng.random()
        # offer: mostly a legal card by the seat on turn; sometimes garbage
        if r < 0.12:
            who = rng.choice([i for i in range(4) if i != active])
            card = rng.choice(sorted(live[who]) or sorted(live[active]))
        elif r < 0.2:
            who, card = active, rng.choice(sorted(set(range(52)) - live[active]))
        else:
            who = active
            hand = sorted(live[active])
            card = rng.choice(hand)
        c_obj = Card.int_to_card(card)
        try:
            full.play_card_by_player(c_obj, P[who])
            accepted = True
        except Exception:
            accepted = False
        trace.append((who, card, accepted))
        if not accepted:
            ctx.count('lockstep_refused_plays')
            continue
        live[who].discard(card)
        played.append(card)
        ncards += 1
        for i, o in enumerate(obs):
            try:
                o.play_card_by_player(c_obj, P[who])
            except Exception as e:
                return {'key': 'observer-rejects-accepted-play', 'kind': 'counterexample',
                        'diff': {'observer': SEATS[i], 'error': repr(e), 'card': card, 'by': SEATS[who], 'n': ncards},
                        'deal': deal, 'bid': bid, 'declarer': SEATS[decl], 'trace': trace}
            if ncards == 1 and i != dummy:
                o.set_dummy_hand({Card.int_to_card(c) for c in live[dummy]})
        want = pub(full)
        for i, o in enumerate(obs):
            got = pub(o)
            bad = [k for k in want if got[k] != want[k]]
            own = sorted(int(c) for c in o.hand)
            if own != sorted(live[i]):
                bad.append('own-hand')
            if o.dummy_hand is not None and sorted(int(c) for c in o.dummy_hand) != sorted(live[dummy]):
                bad.append('dummy-hand')
            if bad:
                return {'key': 'observer-state-' + bad[0], 'kind': 'counterexample',
                        'diff': {'observer': SEATS[i], 'fields': bad, 'n': ncards,
                                 'observer_value': {k: got.get(k) for k in bad if k in got},
                                 'table_value': {k: want.get(k) for k in bad if k in want}},
                        'deal': deal, 'bid': bid, 'declarer': SEATS[decl], 'trace': trace}
    ctx.distinct.add(hash((tuple(map(tuple, deal)), bid, decl, tuple(played))))
    return None


# ------------------------------------------------------------------ (b) bundled clients on the network
def make_systems(kind, seed):
    from bridge_env import Bid
    from bridge_env.network_bridge.bidding_system import AlwaysPass, BiddingSystem, WeakBid
    from bridge_env.network_bridge.playing_system import PlayingSystem, RandomPlay
    if kind == 'bundled':
        return WeakBid(), RandomPlay()
    if kind == 'always_pass':
        return AlwaysPass(), RandomPlay()
    if kind == 'pass_then_play':
        # every seat passes the first board and bids on the later ones: a passed-out board FOLLOWED by a played board
        class PassFirstBoard(BiddingSystem):
            def __init__(self):
                self.seen = []          # the auction objects met so far (kept alive so that ids are not reused)
                self.inner = WeakBid()

            def bid(self, hand, env):
                if not any(e is env for e in self.seen):
                    self.seen.append(env)
                return Bid.Pass if len(self.seen) == 1 else self.inner.bid(hand, env)
        return PassFirstBoard(), RandomPlay()
    rng = random.Random(seed)

    class RandomLegalBid(BiddingSystem):
        def bid(self, hand, env):
            avail = [i for i, v in enumerate(env.available_bid) if v == 1]
            if rng.random() < 0.55 or len(env.bid_history) > 14:
                return Bid.Pass
            bids = [i for i in avail if i < 35]
            r = rng.random()
            if 36 in avail and r < 0.3:
                return Bid.int_to_bid(36)
            if 37 in avail and r < 0.5:
                return Bid.int_to_bid(37)
            return Bid.int_to_bid(bids[min(len(bids) - 1, int(rng.expovariate(0.6)))]) if bids else Bid.Pass

    class SeededPlay(PlayingSystem):
        def play(self, hand, env):
            return rng.choice(sorted(env.current_available_cards(hand), key=int))
    return RandomLegalBid(), SeededPlay()


def bundled_session(ctx, rng, kind=None):
    import session
    import session_props as SP
    import bridge_env.network_bridge.client as client_mod
    from bridge_env import Player
    kind = kind or rng.choice(['bundled', 'random_legal', 'random_legal', 'always_pass', 'pass_then_play', 'mixed', 'mixed'])
    nb = rng.choice([1, 1, 2, 3]) if kind not in ('pass_then_play', 'mixed') else rng.choice([2, 3])
    if kind == 'mixed':
        # some seats are the bundled Client (its systems replay the scenario's decisions for that seat), the others are
        # scripted clients that send the scenario's texts: any letter case, both card notations, alert suffixes — the
        # bundled clients have to follow THOSE relays
        sc = session.gen_scenario(rng, nb, fancy=True, kinds=[rng.choice([None, None, 'passout', 'short']) for _ in range(nb)])
        bundled_seats = set(rng.sample(SEATS, rng.choice([1, 2, 3])))
    else:
        sc = session.gen_scenario(rng, nb, fancy=False)      # only the boards (deals, dealers, vulnerability) are used
        bundled_seats = set(SEATS)
    ctx.count('systems_' + kind)
    seeds = [rng.randrange(1 << 30) for _ in range(4)]
    gseed = rng.randrange(1 << 30)
    records = {p: {'contracts': [], 'envs': []} for p in SEATS}
    Orig = client_mod.ObservedPlayingPhase

    class RecordingObserved(Orig):
        def __init__(self, contract, player, hand):
            super().__init__(contract, player, hand)
            records[player.name]['envs'].append(self)

    class RecClient(client_mod.Client):
        def bidding_phase(self):
            c = super().bidding_phase()
            records[self.player.name]['contracts'].append(c)
            return c

    def scripted_systems(p):
        from bridge_env import Bid, Card
        from bridge_env.network_bridge.bidding_system import BiddingSystem
        from bridge_env.network_bridge.playing_system import PlayingSystem
        me = SEATS.index(p)
        calls, cards = [], []
        for b in sc['boards']:
            d = SEATS.index(b['dealer'])
            calls += [c for j, (c, _t) in enumerate(b['calls']) if (d + j) % 4 == me]
            con = session.contract_of(d, [c for c, _ in b['calls']])
            if con is not None:
                decl = con[2]
                dummy = (decl + 2) % 4
                for (c, _t, who) in b['plays']:
                    w = SEATS.index(who)
                    if (decl if w == dummy else w) == me:
                        cards.append(c)
        calls, cards = iter(calls), iter(cards)

        class SB(BiddingSystem):
            def bid(self, hand, env):
                return Bid.int_to_bid(next(calls))

        class SP(PlayingSystem):
            def play(self, hand, env):
                return Card.int_to_card(next(cards))
        return SB(), SP()

    def factory(p, scenario, addr, out):
        if p not in bundled_seats:
            return lambda: session.scripted_client(p, scenario, addr, out)

        def fn():
            bs, ps = scripted_systems(p) if kind == 'mixed' else make_systems(kind, seeds[SEATS.index(p)])
            team = scenario['teams']['NS' if p in 'NS' else 'EW']
            try:
                with RecClient(Player[p], team, bs, ps, addr[0], addr[1]) as cl:
                    cl.run()
                out['end'] = 'End of session'
            except BaseException as e:          # noqa: the client raising is an observation
                if type(e).__name__ == 'SchedAbort':
                    raise
                out['client_exception'] = repr(e)
        return fn
    pdesc = SP.random_policy_desc(rng, 900 * nb)
    client_mod.ObservedPlayingPhase = RecordingObserved
    random.seed(gseed)
    try:
        r = session.run_session(sc, SP.make_policy(pdesc), ctx.workdir, client_factory=factory, max_steps=600000,
                                segment=pdesc.get('segment'))
    finally:
        client_mod.ObservedPlayingPhase = Orig
    ctx.count('_cases')
    ctx.count('_evals', r.steps)
    ctx.count('bundled_sessions')
    ctx.count('bundled_boards', nb)
    fails = []

    def fail(key, detail):
        fails.append({'key': key, 'kind': 'counterexample', 'scenario': sc, 'systems': kind, 'seeds': seeds, 'gseed': gseed,
                      'policy': pdesc, 'schedule': r.schedule, 'diff': detail})
    bad_clients = {p: o.get('client_exception') for p, o in r.outs.items() if o.get('client_exception')}
    if r.status != 'DONE' or bad_clients or r.exceptions:
        fail('bundled-client-does-not-complete', {'status': r.status, 'blocked': r.deadlock, 'clients': bad_clients,
                                                  'threads': r.exceptions})
        return fails
    for p in SEATS:
        if r.outs[p].get('end') != 'End of session':
            fail('client-did-not-see-end-of-session', {'seat': p})
    try:
        logs = json.loads(r.log_text)['logs']
    except Exception as e:
        fail('log-not-parseable', repr(e))
        return fails
    if len(logs) != nb:
        fail('boards-played', {'logged': len(logs), 'configured': nb})
        return fails
    for p in sorted(bundled_seats):
        cons, envs = records[p]['contracts'], records[p]['envs']
        if len(cons) != nb:
            fail('client-auction-count', {'seat': p, 'got': len(cons)})
            continue
        ei = 0
        for k, rec in enumerate(logs):
            c = cons[k]
            po = rec['contract'] == 'Passed_out'
            if p == 'N' and po:
                ctx.count('passed_out_boards_net')
            want = (rec['contract'], rec['declarer'], rec['vulnerability'])
            got = (str(c), None if c.declarer is None or c.is_passed_out() else c.declarer.name, str(c.vul))
            if got != want:
                fail('client-contract', {'seat': p, 'board': k, 'client': got, 'table_manager': want})
                continue
            if po:
                continue
            if ei >= len(envs):
                fail('client-play-replica-missing', {'seat': p, 'board': k})
                continue
            env = envs[ei]
            ei += 1
            hist = [{'leader': t.leader.name, 'cards': [str(x) for x in t.cards]} for t in env.playing_history.history]
            from bridge_env import Pair
            decl_pair = Player[rec['declarer']].pair
            state = {'history': hist, 'tricks': env.taken_tricks[decl_pair], 'trick_num': env.trick_num, 'done': env.has_done(),
                     'total': env.taken_tricks[Pair.NS] + env.taken_tricks[Pair.EW], 'own_hand_left': len(env.hand)}
            wantst = {'history': rec['play_history'], 'tricks': rec['taken_trick'], 'trick_num': 14, 'done': True, 'total': 13,
                      'own_hand_left': 0}
            badk = [x for x in wantst if state[x] != wantst[x]]
            if badk:
                fail('client-play-replica-' + badk[0], {'seat': p, 'board': k, 'fields': badk,
                                                        'client': {x: state[x] for x in badk if x != 'history'},
                                                        'table_manager': {x: wantst[x] for x in badk if x != 'history'}})
    # the REACTIVE model of the bundled client (Model/ClientThread.lean: own auction and play replicas, parsing of every
    # relay, decisions of the systems as oracles) fed what the REAL server sent on the connection must perform the
    # operations the REAL Client performed
    import session_check as SC
    driver = common.ModelDriver()
    by_client = {c[0]: c for c in r.conns}
    toks = SC.thread_tokens(r, r.qmap)
    ops, seats = [], []
    for p in sorted(bundled_seats):
        conn = by_client.get(f'client-{p}')
        if conn is None:
            continue
        s2c = SC.stream_messages(conn[1])[1:]                 # after "<Seat> <team> seated"
        own_calls, own_cards = [], []
        for h in SC.stream_messages(conn[2])[2:]:              # after the request and "ready for teams"
            text = SC.hex_text(h) if hasattr(SC, 'hex_text') else (bytes.fromhex(h).decode('utf-8') if h != '-' else '')
            low = text.lower()
            if ' ready ' in low:
                continue
            m = re.fullmatch(r'(\w+) (passes|doubles|redoubles|bids (\d)(c|d|h|s|nt))', low)
            if m:
                own_calls.append({'passes': 35, 'doubles': 36, 'redoubles': 37}.get(m.group(2), None)
                                 if not m.group(3) else (int(m.group(3)) - 1) * 5 + ['c', 'd', 'h', 's', 'nt'].index(m.group(4)))
                continue
            m = re.fullmatch(r'(\w+) plays (\w)(\w)', low)
            if m:
                own_cards.append('cdhs'.index(m.group(3)) * 13 + '23456789tjqka'.index(m.group(2)))
        ops.append(f'X.clientreact {p} {",".join(map(str, own_calls)) or "-"} {",".join(map(str, own_cards)) or "-"} '
                   f'{",".join(s2c) or "-"}')
        seats.append(p)
    for p, line in zip(seats, driver.run(ops) if ops else []):
        exp = [x for x in line.split(' ') if x]
        got = toks.get('client' + p, [])
        ctx.count('client_reactive_comparisons')
        if got != exp:
            i = next((i for i, (a, b) in enumerate(zip(got, exp)) if a != b), min(len(got), len(exp)))
            fails.append({'key': 'client-ops', 'kind': 'broken-correspondence', 'scenario': sc, 'systems': kind, 'policy': pdesc,
                          'diff': {'what': 'client-ops', 'seat': p, 'index': i,
                                   'impl': SC.decode_tok(got[i]) if i < len(got) else None,
                                   'model': SC.decode_tok(exp[i]) if i < len(exp) else (line if line == 'RAISES' else None),
                                   'n_impl': len(got), 'n_model': len(exp)}})
    # the TRANSLATED client / seat-thread / main programs (Generated/PyCoreThreads.lean) on what the world handed the real ones
    import thread_check as TC
    tdiffs, n_lean = TC.check_session(common.REPO, r, driver, bundled=set(bundled_seats), boards=session.board_settings(sc))
    ctx.count('translated_thread_runs', n_lean)
    for d in tdiffs:
        fails.append({'key': 'translated-thread-ops', 'kind': 'broken-correspondence', 'scenario': sc, 'systems': kind,
                      'policy': pdesc, 'diff': d})
    ctx.distinct.add(hash((json.dumps(sc, sort_keys=True), kind, tuple(seeds), json.dumps(pdesc, sort_keys=True))))
    return fails


def extra_checks(ctx):
    rng = ctx.rng
    fails = []
    for _ in range(25 if ctx.quick else 400):
        f = lockstep_board(ctx, rng)
        ctx.count('_cases')
        ctx.count('_evals', 52)
        if f:
            fails.append(f)
            if len(fails) > 5:
                return fails
    for i in range(6 if ctx.quick else 40):
        fails += bundled_session(ctx, rng, kind=(['always_pass', 'bundled', 'random_legal', 'pass_then_play', 'mixed', 'mixed'][i] if i < 6 and ctx.shard == 0 else
                                            (['pass_then_play', 'mixed'][i] if i < 2 else None)))
        if len(fails) > 8:
            break
    if ctx.shard == 0:
        ctx.samples.append({'note': '(a) one case = a board played in lock step by the full-information game and four observers; '
                                    '(b) one case = a session of four bundled Client objects against the threaded server'})
    return fails
