import BridgeVerif.Driver.Main
def main : IO Unit := Bridge.Driver.main
