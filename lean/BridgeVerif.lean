import BridgeVerif.Core
import BridgeVerif.Model.Score
import BridgeVerif.Spec.Scoring
import BridgeVerif.Lemmas.Imps
import BridgeVerif.Props.C07
import BridgeVerif.Props.C16
