-- the whole development: importing every property module makes `lake build BridgeVerif` check that all of them are
-- consistent with each other (no clashing declarations) and pre-builds what the checks need
import BridgeVerif.Props.C01
import BridgeVerif.Props.C02
import BridgeVerif.Props.C03
import BridgeVerif.Props.C04
import BridgeVerif.Props.C05
import BridgeVerif.Props.C06
import BridgeVerif.Props.C07
import BridgeVerif.Props.C08
import BridgeVerif.Props.C09
import BridgeVerif.Props.C10
import BridgeVerif.Props.C11
import BridgeVerif.Props.C11a
import BridgeVerif.Props.C12
import BridgeVerif.Props.C13
import BridgeVerif.Props.C14
import BridgeVerif.Props.C15
import BridgeVerif.Props.C16
import BridgeVerif.Props.C17
import BridgeVerif.Props.C18
import BridgeVerif.Props.C19
import BridgeVerif.Props.C20
import BridgeVerif.Props.Source
