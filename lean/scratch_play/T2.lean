import BridgeVerif.Translated.PlayLemmasA
open Bridge Bridge.Py Bridge.Generated.PyCore Bridge.Translated

def veq (a b : Val) : Bool := toString (repr a) == toString (repr b)
def req (a : R (Val × Val)) (b : Val × Val) : Bool := match a with
  | .ok (x, y) => veq x b.1 && veq y b.2
  | _ => false

def c1 : Contract := { finalBid := some ⟨7, by decide⟩, x := true, vul := .ns, declarer := some .E }
def c2 : Contract := { finalBid := some ⟨9, by decide⟩, x := true, vul := .ns, declarer := some .W }
-- pseudo random cards
def cardsSeq (seed : Nat) (n : Nat) : List Card :=
  (List.range n).map fun i => Card.ofIdx ((seed * 7919 + i * i * 31 + i * 17) % 52)

def runBoth (c : Contract) (s : PState) : List Card → Bool
  | [] => true
  | cd :: r =>
    req (P.runMethod n_PlayingPhase n_play_card [encPState c s, encCard cd]) (.none, encPState c (playCard s cd))
      && runBoth c (playCard s cd) r

#eval (PState.init c1).map fun s => runBoth c1 s (cardsSeq 1 52)
#eval (PState.init c2).map fun s => runBoth c2 s (cardsSeq 5 60)
#eval (PState.init c2).map fun s => runBoth c2 s (Card.deck)
-- calc_highest
def chk (su : Suit) (cs : List Card) : Bool :=
  match P.runMethod n_PlayingPhase n_calc_highest [encSuit su, encCards cs] with
  | .ok (.int n, _) => n == calcHighest su cs
  | _ => false
#eval (List.range 40).all fun k => Suit.all.all fun su => chk su (cardsSeq k (k % 7))
def chkA (h : List Card) (f : Option Card) : Bool :=
  match P.runMethod n_PlayingPhase n_available_cards [encCards h, encOpt encCard f] with
  | .ok (v, _) => veq v (encCards (availableCards h f))
  | _ => false
#eval (List.range 40).all fun k => chkA (cardsSeq k (k % 9)) none && chkA (cardsSeq k (k % 9)) (some (Card.ofIdx k))
-- not WF
#eval (PState.init c2).map fun s => (P.runMethod n_PlayingPhase n_play_card [encPState c2 {s with trick := cardsSeq 2 3, trickNum := 5}, encCard ⟨2,.C⟩])
#eval (PState.init c2).map fun s => req (P.runMethod n_PlayingPhase n_play_card [encPState c2 {s with trick := cardsSeq 2 6, trickNum := 5}, encCard ⟨2,.C⟩]) (.none, encPState c2 (playCard {s with trick := cardsSeq 2 6, trickNum := 5} ⟨2,.C⟩))
#eval P.runNew n_PlayingPhase [encContract {c1 with finalBid := none}]
#eval P.runNew n_PlayingPhase [encContract {c1 with declarer := none}]
#eval P.runNew n_PlayingPhase [encContract {c1 with declarer := none, finalBid := none}]
