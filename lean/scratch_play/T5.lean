import BridgeVerif.Translated.PlayLemmasD
set_option profiler true
namespace Bridge.Translated
open Bridge Bridge.Py Bridge.Generated.PyCore

theorem xx1 (f : Nat) (k : Id) (c : Contract) (hfb : c.finalBid = none) :
    callF (mkRec P (f+40)) m_PlayingPhase___init__ [.obj k [], encContract c] = .error (.exc K.Exception) := by
  rw [callF_def]
  simp only [m_PlayingPhase___init__, bindParams, Option.map]
  ppsimp [meth_encContract, mth_is_passed_out, is_passed_out_call, hfb]
end Bridge.Translated
