import BridgeVerif.Translated.PlayLemmasA
open Bridge Bridge.Py Bridge.Generated.PyCore Bridge.Translated

def c1 : Contract := { finalBid := some ⟨7, by decide⟩, x := true, vul := .ns, declarer := some .E }
def hands1 : Seat → List Card := fun p => match p with
  | .N => [⟨2,.C⟩, ⟨14,.S⟩, ⟨5,.H⟩] | .E => [⟨3,.C⟩, ⟨13,.S⟩] | .S => [⟨4,.C⟩, ⟨12,.H⟩] | .W => [⟨5,.C⟩, ⟨11,.S⟩]
#eval P.runNew n_PlayingPhase [encContract c1]
#eval (PState.init c1).map (encPState c1)
#eval P.runNew n_PlayingPhaseWithHands [encContract c1, .dict (handsKvs hands1)]
#eval (WithHands.init c1 hands1).map (encWithHands c1)
#eval P.runNew n_ObservedPlayingPhase [encContract c1, encSeat .S, encCards (hands1 .S)]
#eval (Observed.init c1 .S (hands1 .S)).map (encObserved c1)
