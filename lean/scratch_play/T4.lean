import BridgeVerif.Translated.PlayLemmasD
set_option profiler true
namespace Bridge.Translated
open Bridge Bridge.Py Bridge.Generated.PyCore

theorem init_call_none (f : Nat) (k : Id) (c : Contract) (hfb : c.finalBid = none) :
    callF (mkRec P (f+40)) m_PlayingPhase___init__ [.obj k [], encContract c] = .error (.exc K.Exception) := by
  rw [callF_def]
  simp only [m_PlayingPhase___init__, bindParams, Option.map]
  ppsimp [meth_encContract, mth_is_passed_out, is_passed_out_call, hfb]

theorem init_call_nodecl (f : Nat) (k : Id) (c : Contract) (b) (hfb : c.finalBid = some b) (hd : c.declarer = none) :
    callF (mkRec P (f+40)) m_PlayingPhase___init__ [.obj k [], encContract c] = .error (.exc K.AssertionError) := by
  rw [callF_def]
  simp only [m_PlayingPhase___init__, bindParams, Option.map]
  ppsimp [meth_encContract, mth_is_passed_out, is_passed_out_call, hfb, getAttr_contract_trump, Contract.trump,
        getAttr_contract_declarer, hd, beq_encSuit_none]
end Bridge.Translated
