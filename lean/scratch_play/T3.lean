import BridgeVerif.Translated.PlayLemmasC
open Bridge Bridge.Py Bridge.Generated.PyCore Bridge.Translated
example : (Val.enum 143 1).beq (.enum 143 2) = false := rfl
example : (Val.enum 143 1).beq (.enum 143 2) = false := by decide
example (f : Nat) (env : Env) :
    evalF (mkRec P (f+1)) P env (.dictOf [((.const (.enum n_Pair 1)), (.const (.int 0))), ((.const (.enum n_Pair 2)), (.const (.int 0)))])
      = .ok (.dict [(.enum n_Pair 1, .int 0), (.enum n_Pair 2, .int 0)]) := by
  simp only [evalF, List.map, mapR, eval_succ, bind_ok, pure_eq, List.zip_cons_cons, List.zip_nil_right, List.foldl, updateD, Val.beq]
  trace_state
  rfl
