import BridgeVerif.Driver.Util
import BridgeVerif.Driver.Hands
import BridgeVerif.Driver.Notation
import BridgeVerif.Model.Session
import BridgeVerif.Model.Abort
import BridgeVerif.Model.SeatThread
import BridgeVerif.Model.MainThread
import BridgeVerif.Model.ClientThread
/-! Driver ops `X.*` : a session scenario is assembled line by line, then its per-thread programs, log
records and seat streams are printed, and the canonical (lowest-enabled-first) run is executed. -/
namespace Bridge.Driver

structure XState where
  ns : Text := []
  ew : Text := []
  boards : List (BoardSetting × Decisions) := []     -- newest first while building

def XState.scenario (x : XState) : Scenario :=
  { nsName := x.ns, ewName := x.ew,
    boards := x.boards.reverse.map fun (b, d) => (b, { calls := d.calls.reverse, cards := d.cards.reverse }) }

def showTid : Tid → String
  | .main => "main" | .seat p => "seat" ++ showSeat p | .client p => "client" ++ showSeat p
def tid? (s : String) : Option Tid :=
  if s = "main" then some .main
  else if s.startsWith "seat" then (seat? (s.drop 4).toString).map Tid.seat
  else if s.startsWith "client" then (seat? (s.drop 6).toString).map Tid.client
  else none
def showChan : Chan → String
  | .m2t p => "m2t" ++ showSeat p | .t2m p => "t2m" ++ showSeat p
  | .c2s p => "c2s" ++ showSeat p | .s2c p => "s2c" ++ showSeat p

def showAct : SAct Text LogOp → String
  | .send c m => s!"s:{showChan c}:{hexOf m}"
  | .recv c => s!"r:{showChan c}"
  | .arrive => "A"
  | .depart => "D"
  | .emit .open => "e:open"
  | .emit (.write _) => "e:write"
  | .emit .close => "e:close"

def showTrickX (t : Trick) : String := s!"{showSeat t.leader}:{showCards t.cards}"

def showDda (d : Option (Seat → Suit → Int)) : String :=
  match d with
  | none => "-"
  | some f => ",".intercalate (Seat.all.flatMap fun p => Suit.all.map fun s => toString (f p s))

def showRecord (r : BoardRecord) : String :=
  let hand (p : Seat) := let x := showCardSet (r.deal p); if x = "" then "-" else x
  s!"id={hexOf r.boardId} ns={hexOf r.nsName} ew={hexOf r.ewName} dealer={showSeat r.dealer} " ++
  s!"vul={showVul r.vul} deal={hand .N}|{hand .E}|{hand .S}|{hand .W} calls={showCalls r.calls} " ++
  s!"contract={hexOf (contractStr r.contract)} decl={showSeatOpt (if r.contract.isPassedOut then none else r.contract.declarer)} " ++
  s!"play={match r.play with | none => "null" | some ts => ";".intercalate (ts.map showTrickX)} " ++
  s!"tricks={match r.tricks with | none => "null" | some n => toString n} " ++
  s!"ns_score={r.scoreNS} ew_score={r.scoreEW} dda={showDda r.dda}"

def writesOf (l : List (SAct Text LogOp)) : List BoardRecord :=
  l.filterMap fun a => match a with | .emit (.write r) => some r | _ => none

/-- canonical scheduler: repeatedly the first enabled thread of `Tid.all` -/
def runLowest : Nat → Net Tid Chan Text LogOp → Nat → Nat × Net Tid Chan Text LogOp
  | 0, n, k => (k, n)
  | fuel + 1, n, k =>
    match Tid.all.findSome? fun t => step parties n t with
    | none => (k, n)
    | some n' => runLowest fuel n' (k + 1)

def dda? (s : String) : Option (Option (Seat → Suit → Int)) :=
  if s = "-" then some none else do
    let xs ← (s.splitOn ",").mapM int?
    if xs.length ≠ 20 then none else
    pure (some fun p su => xs.getD (p.idx * 5 + (su.value - 1)) 0)

def sessionOps (x : XState) (t : List String) : XState × String :=
  match t with
  | ["X.begin", a, b] =>
    match unhex? a, unhex? b with
    | some a, some b => ({ ns := a, ew := b, boards := [] }, "ok")
    | _, _ => (x, "bad-op")
  | ["X.board", id, d, v, hn, he, hs, hw, dda] =>
    match unhex? id, seat? d, vul? v, cardsArg? hn, cardsArg? he, cardsArg? hs, cardsArg? hw, dda? dda with
    | some id, some d, some v, some hn, some he, some hs, some hw, some dda =>
      let b : BoardSetting := { boardId := id, dealer := d, vul := v, deal := mkHands hn he hs hw, dda := dda }
      ({ x with boards := (b, { calls := [], cards := [] }) :: x.boards }, "ok")
    | _, _, _, _, _, _, _, _ => (x, "bad-op")
  | ["X.call", c, text] =>
    match x.boards, call? c, unhex? text with
    | (b, d) :: rest, some c, some text =>
      ({ x with boards := (b, { d with calls := (c, text) :: d.calls }) :: rest }, "ok")
    | _, _, _ => (x, "bad-op")
  | ["X.card", c, text] =>
    match x.boards, card? c, unhex? text with
    | (b, d) :: rest, some c, some text =>
      ({ x with boards := (b, { d with cards := (c, text) :: d.cards }) :: rest }, "ok")
    | _, _, _ => (x, "bad-op")
  | ["X.prog", tid] =>
    match tid? tid with
    | some tid => (x, " ".intercalate ((sessionProg x.scenario tid).map showAct))
    | none => (x, "bad-op")
  | ["X.nrec"] => (x, toString (writesOf (sessionProg x.scenario .main)).length)
  | ["X.rec", k] =>
    match nat? k with
    | some k =>
      match (writesOf (sessionProg x.scenario .main))[k]? with
      | some r => (x, showRecord r)
      | none => (x, "none")
    | none => (x, "bad-op")
  -- the log file when main raises during board k+1 (k records written): closed by the `with` statement / left open
  | ["X.abortlog", k, closed] =>
    match nat? k, bool? closed with
    | some k, some c =>
      let recs := (writesOf (sessionProg x.scenario .main)).take k
      (x, hexOf (logFileText (LogOp.open :: recs.map LogOp.write ++ (if c then [LogOp.close] else []))))
    | _, _ => (x, "bad-op")
  -- the reactive seat-thread model on given queue / connection streams (comma-separated hex texts)
  | ["X.react", p, teams, q, c] =>
    let texts (s : String) : Option (List Text) := if s = "-" then some [] else (s.splitOn ",").mapM unhex?
    match seat? p, unhex? teams, texts q, texts c with
    | some p, some teams, some q, some c =>
      (x, match seatReactive p teams q c with
          | some acts => " ".intercalate (acts.map showAct)
          | none => "STUCK")
    | _, _, _, _ => (x, "bad-op")
  -- the same on the streams of the loaded scenario: what main puts on the seat's queue and what its client sends
  | ["X.reactmodel", p] =>
    match seat? p with
    | some p =>
      let sc := x.scenario
      let q := sendsOn (Chan.m2t p) (sessionProg sc .main)
      let c := sendsOn (Chan.c2s p) (sessionProg sc (.client p))
      (x, match seatReactive p (teamsMsg sc.nsName sc.ewName) q c with
          | some acts => if acts.map showAct == (sessionProg sc (.seat p)).map showAct then "same" else
              " ".intercalate (acts.map showAct)
          | none => "STUCK")
    | none => (x, "bad-op")
  -- the reactive main-thread model on the streams of the loaded scenario (what the seat threads forward to main)
  | ["X.mainmodel"] =>
    let sc := x.scenario
    let streams : MainIn := fun p => sendsOn (Chan.t2m p) (sessionProg sc (.seat p))
    (x, match mainReactive sc (sc.boards.map (·.1)) streams with
        | some acts =>
          if acts.map showAct == (sessionProg sc .main).map showAct &&
             (writesOf acts).map showRecord == (writesOf (sessionProg sc .main)).map showRecord then "same"
          else " ".intercalate (acts.map showAct)
        | none => "RAISES")
  -- … and on given streams (per seat: comma-separated hex texts), for the boards of the loaded scenario:
  -- the actions, then ` ## `-separated records it writes
  | ["X.mainreact", qn, qe, qs, qw] =>
    let texts (s : String) : Option (List Text) := if s = "-" then some [] else (s.splitOn ",").mapM unhex?
    match texts qn, texts qe, texts qs, texts qw with
    | some qn, some qe, some qs, some qw =>
      let sc := x.scenario
      let streams : MainIn := fun p => match p with | .N => qn | .E => qe | .S => qs | .W => qw
      (x, match mainReactive sc (sc.boards.map (·.1)) streams with
          | some acts => " ".intercalate (acts.map showAct) ++ " || " ++ " ## ".intercalate ((writesOf acts).map showRecord)
          | none => "RAISES")
    | _, _, _, _ => (x, "bad-op")
  -- the reactive model of the bundled client: seat, the decisions its systems returned (calls, cards), the s2c stream
  | ["X.clientreact", p, calls, cards, s2c] =>
    let texts (s : String) : Option (List Text) := if s = "-" then some [] else (s.splitOn ",").mapM unhex?
    let callsL : Option (List Call) := if calls = "-" then some [] else (calls.splitOn ",").mapM call?
    let cardsL : Option (List Card) := if cards = "-" then some [] else (cards.splitOn ",").mapM card?
    match seat? p, callsL, cardsL, texts s2c with
    | some p, some cl, some cd, some st =>
      (x, match clientReactive p cl cd st with
          | some acts => " ".intercalate (acts.map showAct)
          | none => "RAISES")
    | _, _, _, _ => (x, "bad-op")
  | ["X.logops"] =>
    (x, " ".intercalate ((emitsOf (sessionProg x.scenario .main)).map fun o =>
      match o with | .open => "open" | .write _ => "write" | .close => "close"))
  | ["X.stream", p] =>
    match seat? p with
    | some p =>
      let ms := sendsOn (Chan.s2c p) (sessionProg x.scenario (.seat p))
      (x, ",".intercalate (ms.map hexOf))
    | none => (x, "bad-op")
  | ["X.run"] =>
    let sc := x.scenario
    let total := (Tid.all.map fun t => (sessionProg sc t).length).sum
    let (k, n) := runLowest (total + 1) (Net.init (sessionProg sc)) 0
    let done := Tid.all.all fun t => (n.prog t).isEmpty
    let empty := Chan.all.all fun c => (n.chan c).isEmpty
    let histOk := Chan.all.all fun c => n.hist c == sendsOn c (sessionProg sc c.wr)
    (x, s!"steps={k} total={total} alldone={showBool done} chans_empty={showBool empty} hist_ok={showBool histOk}")
  | _ => (x, "bad-op")

end Bridge.Driver
