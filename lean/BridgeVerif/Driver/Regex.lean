import BridgeVerif.Model.Regex
/-! Driver op `R.case OP IC PAT SUBJ [REPL]` : the regular-expression engine of Model/Regex.lean on one case (format of the
differential test harness/regex/difftest.py: strings are hex code points joined by `,`, `-` = empty;
OP = M match | F fullmatch | S search | U sub | A findall | C character tables). -/
namespace Bridge.Driver.Rx
open Bridge.Re

def hexDigit (c : Char) : Nat :=
  if '0' ≤ c && c ≤ '9' then c.toNat - 48
  else if 'a' ≤ c && c ≤ 'f' then c.toNat - 87
  else if 'A' ≤ c && c ≤ 'F' then c.toNat - 55 else 0

def hexNat (s : String) : Nat := s.toList.foldl (fun a c => a * 16 + hexDigit c) 0

def decodeStr (s : String) : List Char :=
  if s == "-" then [] else (s.splitOn ",").map fun h => Char.ofNat (hexNat h)

def hexOf (n : Nat) : String := String.ofList (Nat.toDigits 16 n)

def encodeStr (cs : List Char) : String := ",".intercalate (cs.map fun c => hexOf c.toNat)

def showSpan (p : Nat × Nat) : String := s!"{p.1},{p.2}"

def showMatch : Option (Option MatchObj) → String
  | none => "N"
  | some none => "none"
  | some (some m) =>
    showSpan m.span ++ "|" ++ ";".intercalate (m.groups.map fun g =>
      match g with
      | none => "-"
      | some p => showSpan p)

def bit (b : Bool) : String := if b then "1" else "0"

def answer (line : String) : String :=
  match line.splitOn " " with
  | ["C", n] =>
    let n := hexNat n
    s!"{hexOf (lowerNat n)} {hexOf (foldNat n)} {bit (isSpaceNat n)} {bit (isDigitNat n)} {bit (isWordNat n)}"
  | op :: ic :: pat :: subj :: rest =>
    let ic := ic == "1"
    let pat := decodeStr pat
    let subj := decodeStr subj
    match op with
    | "M" => showMatch (pyMatch ic pat subj)
    | "F" => showMatch (pyFullmatch ic pat subj)
    | "S" => showMatch (pySearch ic pat subj)
    | "U" =>
      match pySub ic pat (decodeStr (rest.headD "-")) subj with
      | none => "N"
      | some r => "=" ++ encodeStr r
    | "A" =>
      match pyFindall ic pat subj with
      | none => "N"
      | some [] => "[]"
      | some rows => "/".intercalate (rows.map fun row => ";".intercalate (row.map fun t => "_" ++ encodeStr t))
    | _ => "?"
  | _ => "?"


end Bridge.Driver.Rx
