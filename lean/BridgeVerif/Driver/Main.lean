import BridgeVerif.Driver.Util
import BridgeVerif.Model.Score
import BridgeVerif.Spec.Scoring
import BridgeVerif.Driver.Auction
import BridgeVerif.Driver.Play
import BridgeVerif.Driver.Notation
import BridgeVerif.Driver.Hands
import BridgeVerif.Driver.Msg
import BridgeVerif.Driver.Session
import BridgeVerif.Driver.Json
import BridgeVerif.Driver.Pbn
import BridgeVerif.Driver.Admission
import BridgeVerif.Driver.PyCore
import BridgeVerif.Driver.Regex
/-! The line-protocol driver: one op per line in, one canonical line out. -/
namespace Bridge.Driver

structure DState where
  auction : Option AState := none
  play : Option PlayMode := none
  sess : XState := {}
  json : JState := {}
  pbn : BState := {}
  py : PyRegs := []

def scoreOps (t : List String) : Option String :=
  match t with
  | ["I.imps", d] => (int? d).map fun d => s!"{pointDifferenceToImps d} {impsSpec d}"
  | ["I.pair", a, b] => do
      let a ← int? a; let b ← int? b
      pure s!"{scoreToImp a b}"
  | ["S.bid", b, x, xx, v, n] => do
      let b ← bidIdx? b; let x ← bool? x; let xx ← bool? xx; let v ← bool? v; let n ← nat? n
      -- model value, then the value of the LAW (Spec/Scoring.lean: formulas, no tables)
      let st : Dbl := if xx then .xx else if x then .x else .none
      pure s!"{calcBidScore b x xx v n} {dupScore (bidLevel b) (bidDenom b) st v n}"
  | ["S.contract", b, x, xx, v, d, n] => do
      let b ← bidOpt? b; let x ← bool? x; let xx ← bool? xx; let v ← vul? v
      let d ← seatOpt? d; let n ← nat? n
      let law : String :=
        match b, d with
        | some bb, some dd =>
          let st : Dbl := if xx then .xx else if x then .x else .none
          toString (dupScore (bidLevel bb) (bidDenom bb) st (sideVulnerable v dd) n)
        | none, _ => "0"
        | some _, none => "-"          -- no declarer: the law needs declarer's side only when one side is vulnerable
      pure (showOptInt (calcScore ⟨b, x, xx, v, d⟩ n) ++ " " ++ law)
  | _ => none

def step (s : DState) (line : String) : DState × String :=
  let t := toks line
  match t with
  | [] => (s, "bad-op")
  | op :: _ =>
    if op.startsWith "I." || op.startsWith "S." then
      (s, (scoreOps t).getD "bad-op")
    else if op.startsWith "A." then
      let (a, o) := auctionOps s.auction t
      ({ s with auction := a }, o)
    else if op.startsWith "X." then
      let (a, o) := sessionOps s.sess t
      ({ s with sess := a }, o)
    else if op.startsWith "J." then
      let (a, o) := jsonOps s.json t
      ({ s with json := a }, o)
    else if op.startsWith "B." then
      let (a, o) := pbnOps s.pbn t
      ({ s with pbn := a }, o)
    else if op.startsWith "M." || op.startsWith "F." then
      (s, (msgOps t).getD "bad-op")
    else if op.startsWith "G." then
      (s, ((admissionOps t).orElse fun _ => admissionLoopOps t).getD "bad-op")
    else if op = "R.case" then
      (s, Bridge.Driver.Rx.answer (" ".intercalate (t.drop 1)))
    else if op.startsWith "Y." then
      match pyOps s.py t with
      | some (rs, o) => ({ s with py := rs }, o)
      | none => (s, "bad-op")
    else if op.startsWith "H." then
      (s, (handsOps t).getD "bad-op")
    else if op.startsWith "N." then
      (s, (notationOps t).getD "bad-op")
    else if op.startsWith "P." then
      let (a, o) := playOps s.play t
      ({ s with play := a }, o)
    else (s, "bad-op")

partial def loop (h : IO.FS.Stream) (out : IO.FS.Stream) (s : DState) : IO Unit := do
  let line ← h.getLine
  if line.isEmpty then return ()
  let (s', o) := step s line
  out.putStrLn o
  loop h out s'

def main : IO Unit := do
  let out ← IO.getStdout
  loop (← IO.getStdin) out {}
  out.flush

end Bridge.Driver
