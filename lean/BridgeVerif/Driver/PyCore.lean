import BridgeVerif.Driver.Util
import BridgeVerif.Generated.PyCore
/-!
Driver ops `Y.*` : run the TRANSLATED program (Generated/PyCore.lean) under the MiniPy interpreter.

  Y.fn   <function> <arg>…            -> ok <value> | exc <ExceptionClass> | stuck <n> | fuel
  Y.meth <Class> <method> <self> <arg>… -> ok <value> <self afterwards> | …
  Y.new  <Class> <arg>…               -> ok <value> | …
  Y.skipped                           -> the functions outside the translated subset

Values travel in a prefix code without spaces:
  i<int>;  T  F  N  s<hex>;  e<Class>:<int>;  c<Class>;  t(<v>…)  o<Class>{<field>=<v>…}  d[<k><v>…]
-/
namespace Bridge.Driver
open Bridge.Py

def pyNames : List (Id × String) := Bridge.Generated.PyCore.names
def pyProgram : Program := Bridge.Generated.PyCore.program

def idOf? (s : String) : Option Id := (pyNames.find? (·.2 == s)).map (·.1)
def nameOf (i : Id) : String := ((pyNames.find? (·.1 == i)).map (·.2)).getD s!"#{i}"

partial def showVal : Val → String
  | .int n => s!"i{n};"
  | .bool true => "T"
  | .bool false => "F"
  | .none => "N"
  | .str s => "s" ++ (if s = [] then "" else hexOf s) ++ ";"
  | .enum c n => s!"e{nameOf c}:{n};"
  | .cls c => s!"c{nameOf c};"
  | .tuple xs => "t(" ++ String.join (xs.map showVal) ++ ")"
  | .obj c fs => s!"o{nameOf c}" ++ "{" ++ String.join (fs.map fun (k, v) => nameOf k ++ "=" ++ showVal v) ++ "}"
  | .dict kvs => "d[" ++ String.join (kvs.map fun (k, v) => showVal k ++ showVal v) ++ "]"

/-- characters up to (not including) the first `stop`; the rest after it -/
def splitAt (stop : Char) : List Char → Option (List Char × List Char)
  | [] => none
  | c :: r => if c = stop then some ([], r) else (splitAt stop r).map fun (a, b) => (c :: a, b)

mutual
partial def parseVal : List Char → Option (Val × List Char)
  | 'T' :: r => some (.bool true, r)
  | 'F' :: r => some (.bool false, r)
  | 'N' :: r => some (.none, r)
  | 'i' :: r => do
    let (a, rest) ← splitAt ';' r
    let n ← (String.ofList a).toInt?
    pure (.int n, rest)
  | 's' :: r => do
    let (a, rest) ← splitAt ';' r
    let s ← if a = [] then some [] else unhex? (String.ofList a)
    pure (.str s, rest)
  | 'e' :: r => do
    let (a, rest) ← splitAt ';' r
    let (cn, v) ← splitAt ':' a
    let c ← idOf? (String.ofList cn)
    let n ← (String.ofList v).toInt?
    pure (.enum c n, rest)
  | 'c' :: r => do
    let (a, rest) ← splitAt ';' r
    let c ← idOf? (String.ofList a)
    pure (.cls c, rest)
  | 't' :: '(' :: r => do
    let (xs, rest) ← parseVals ')' r
    pure (.tuple xs, rest)
  | 'o' :: r => do
    let (cn, rest) ← splitAt '{' r
    let c ← idOf? (String.ofList cn)
    let (fs, rest) ← parseFields rest
    pure (.obj c fs, rest)
  | 'd' :: '[' :: r => do
    let (xs, rest) ← parseVals ']' r
    let rec pairs : List Val → Option (List (Val × Val))
      | [] => some []
      | k :: v :: t => (pairs t).map ((k, v) :: ·)
      | _ => none
    pure (.dict (← pairs xs), rest)
  | _ => none
partial def parseVals (close : Char) : List Char → Option (List Val × List Char)
  | c :: r =>
    if c = close then some ([], r) else do
      let (v, rest) ← parseVal (c :: r)
      let (vs, rest) ← parseVals close rest
      pure (v :: vs, rest)
  | [] => none
partial def parseFields : List Char → Option (List (Id × Val) × List Char)
  | '}' :: r => some ([], r)
  | cs => do
    let (fname, rest) ← splitAt '=' cs
    let k ← idOf? (String.ofList fname)
    let (v, rest) ← parseVal rest
    let (fs, rest) ← parseFields rest
    pure ((k, v) :: fs, rest)
end

def val? (s : String) : Option Val :=
  match parseVal s.toList with
  | some (v, []) => some v
  | _ => none

def showErr : Err → String
  | .exc c => s!"exc {nameOf c}"
  | .stuck n => s!"stuck {n}"
  | .fuel => "fuel"

abbrev PyRegs := List (String × Val)

def regGet (rs : PyRegs) (k : String) : Option Val := (rs.find? (·.1 == k)).map (·.2)
def regSet (rs : PyRegs) (k : String) (v : Val) : PyRegs := (k, v) :: rs.filter (·.1 != k)

/-- an argument: a value in the prefix code, or `$reg` -/
def arg? (rs : PyRegs) (s : String) : Option Val :=
  if s.startsWith "$" then regGet rs (s.drop 1).toString else val? s

def pyOps (rs : PyRegs) (t : List String) : Option (PyRegs × String) :=
  match t with
  | "Y.fn" :: fn :: args => do
    let f ← idOf? fn
    let vs ← args.mapM (arg? rs)
    match pyProgram.runFn f vs with
    | .ok v => pure (rs, s!"ok {showVal v}")
    | .error e => pure (rs, showErr e)
  | "Y.meth" :: cn :: mn :: args => do
    let c ← idOf? cn
    let m ← idOf? mn
    let vs ← args.mapM (arg? rs)
    match pyProgram.runMethod c m vs with
    | .ok (v, s) => pure (rs, s!"ok {showVal v} {showVal s}")
    | .error e => pure (rs, showErr e)
  | "Y.new" :: cn :: args => do
    let c ← idOf? cn
    let vs ← args.mapM (arg? rs)
    match pyProgram.runNew c vs with
    | .ok v => pure (rs, s!"ok {showVal v}")
    | .error e => pure (rs, showErr e)
  -- registers: a whole run of a state machine in one batch
  | ["Y.let", reg, v] => do
    let v ← val? v
    pure (regSet rs reg v, "ok")
  | "Y.newr" :: reg :: cn :: args => do
    let c ← idOf? cn
    let vs ← args.mapM (arg? rs)
    match pyProgram.runNew c vs with
    | .ok v => pure (regSet rs reg v, s!"ok {showVal v}")
    | .error e => pure (rs, showErr e)
  | "Y.methr" :: reg :: cn :: mn :: args => do
    let c ← idOf? cn
    let m ← idOf? mn
    let self ← regGet rs reg
    let vs ← args.mapM (arg? rs)
    match pyProgram.runMethod c m (self :: vs) with
    | .ok (v, s) => pure (regSet rs reg s, s!"ok {showVal v} {showVal s}")
    | .error e => pure (rs, showErr e)
  | ["Y.skipped"] =>
    pure (rs, "skipped=" ++ ";".intercalate (Bridge.Generated.PyCore.skipped.map fun (a, b) => a ++ ":" ++ hexOf b.toList))
  | _ => none

end Bridge.Driver
