import BridgeVerif.Driver.Util
import BridgeVerif.Model.Play
/-! Driver ops `P.*` : the three play models. -/
namespace Bridge.Driver

inductive PlayMode
  | base (s : PState)
  | full (w : WithHands)
  | obs (o : Observed)

def cards? (s : String) : Option (List Card) :=
  if s = "-" then some [] else (s.splitOn ",").mapM card?

def showTrick (t : Trick) : String := s!"{showSeat t.leader}:{showCards t.cards}"

def baseObs (s : PState) : String :=
  s!"l={showSeat s.leader} a={showSeat s.active} n={s.trickNum} t={showCards s.trick} " ++
  s!"ns={s.takenNS} ew={s.takenEW} dn={showBool s.hasDone} dc={showSeat s.declarer} dm={showSeat s.dummy} " ++
  s!"tr={String.ofList s.trump.name} h={";".intercalate (s.history.reverse.map showTrick)} u={showCardSet s.used}"

def showHand (l : List Card) : String := let x := showCardSet l; if x = "" then "-" else x

def modeObs : PlayMode → String
  | .base s => baseObs s
  | .full w =>
    baseObs w.base ++ s!" N={showHand (w.hands .N)} E={showHand (w.hands .E)} S={showHand (w.hands .S)} " ++
      s!"W={showHand (w.hands .W)} av={showHand (w.base.currentAvailable (w.hands w.base.active))} " ++
      s!"avN={showHand (w.base.currentAvailable (w.hands .N))} avE={showHand (w.base.currentAvailable (w.hands .E))} " ++
      s!"avS={showHand (w.base.currentAvailable (w.hands .S))} avW={showHand (w.base.currentAvailable (w.hands .W))}"
  | .obs o =>
    baseObs o.base ++ s!" me={showSeat o.me} hand={showHand o.hand} " ++
      s!"dh={match o.dummyHand with | none => "none" | some d => showHand d} " ++
      s!"av={showHand (o.base.currentAvailable o.hand)} " ++
      s!"avd={match o.dummyHand with | none => "ERR" | some d => showHand (o.base.currentAvailable d)}"

def mkContract (b : Option (Fin 35)) (d : Option Seat) : Contract := ⟨b, false, false, .none, d⟩

def playOps (st : Option PlayMode) (t : List String) : Option PlayMode × String :=
  match t with
  | ["P.base", b, d] =>
    match bidOpt? b, seatOpt? d with
    | some b, some d =>
      match PState.init (mkContract b d) with
      | some s => (some (.base s), "NEW " ++ baseObs s)
      | none => (none, "ERR")
    | _, _ => (st, "bad-op")
  | ["P.full", b, d, hn, he, hs, hw] =>
    match bidOpt? b, seatOpt? d, cards? hn, cards? he, cards? hs, cards? hw with
    | some b, some d, some hn, some he, some hs, some hw =>
      let hands : Seat → List Card := fun p => match p with | .N => hn | .E => he | .S => hs | .W => hw
      match WithHands.init (mkContract b d) hands with
      | some w => (some (.full w), "NEW " ++ modeObs (.full w))
      | none => (none, "ERR")
    | _, _, _, _, _, _ => (st, "bad-op")
  | ["P.obs", b, d, me, hand] =>
    match bidOpt? b, seatOpt? d, seat? me, cards? hand with
    | some b, some d, some me, some hand =>
      match Observed.init (mkContract b d) me hand with
      | some o => (some (.obs o), "NEW " ++ modeObs (.obs o))
      | none => (none, "ERR")
    | _, _, _, _ => (st, "bad-op")
  | ["P.dummy", cs] =>
    match st, cards? cs with
    | some (.obs o), some cs => let o' := o.setDummy cs; (some (.obs o'), "SET " ++ modeObs (.obs o'))
    | _, _ => (st, "bad-op")
  | ["P.card", c] =>
    match st, card? c with
    | some (.base s), some c => let s' := playCard s c; (some (.base s'), "OK " ++ baseObs s')
    | _, _ => (st, "bad-op")
  | ["P.play", p, c] =>
    match st, seat? p, card? c with
    | some (.base s), some p, some c =>
      match s.playBy c p with
      | .ok s' => (some (.base s'), "OK " ++ baseObs s')
      | .error _ => (st, "ERR " ++ baseObs s)
    | some (.full w), some p, some c =>
      match w.play c p with
      | .ok w' => (some (.full w'), "OK " ++ modeObs (.full w'))
      | .error _ => (st, "ERR " ++ modeObs (.full w))
    | some (.obs o), some p, some c =>
      match o.play c p with
      | .ok o' => (some (.obs o'), "OK " ++ modeObs (.obs o'))
      | .error _ => (st, "ERR " ++ modeObs (.obs o))
    | _, _, _ => (st, "bad-op")
  | ["P.avail", hand, first] =>
    match cards? hand, (if first = "-" then some none else (card? first).map some) with
    | some hand, some first => (st, showHand (availableCards hand first))
    | _, _ => (st, "bad-op")
  | ["P.rand", hand, trick] =>
    match cards? hand, cards? trick with
    | some hand, some trick => (st, showHand (availableCards hand trick.head?))
    | _, _ => (st, "bad-op")
  | ["P.highest", suit, cs] =>
    match suit? suit, cards? cs with
    | some su, some cs => (st, toString (calcHighest su cs))
    | _, _ => (st, "bad-op")
  | _ => (st, "bad-op")

end Bridge.Driver
