import BridgeVerif.Driver.Util
import BridgeVerif.Model.Auction
import BridgeVerif.Spec.Laws
/-! Driver ops `A.*` : the auction model, with a run-time cross-check of the spec values. -/
namespace Bridge.Driver

def showDblStatus (c : Contract) : String :=
  match c.dbl with | .none => "-" | .x => "X" | .xx => "XX"

def showContract : Option Contract → String
  | none => "-"
  | some c =>
    match c.finalBid with
    | none => s!"PO:{showVul c.vul}:{showSeatOpt c.declarer}"
    | some b => s!"{b.val}:{showDblStatus c}:{showVul c.vul}:{showSeatOpt c.declarer}"

def maskOf (f : Call → Bool) : String :=
  String.ofList (Call.all.map fun c => if f c then '1' else '0')

/-- model = spec cross-check (always true by the theorems of C01–C03) -/
def auctionSpecAgrees (s : AState) : Bool :=
  let h := s.history
  let d := s.dealer
  (if over h then s.active.isNone && (s.contract == some (specContract d s.vul h))
   else (s.active == some (turn d h)) && (Call.all.all fun c => s.avail c == legalLaw d h c) &&
        s.contract.isNone) &&
  (Seat.all.all fun p => s.perSeat p == share d h p)

def auctionObs (s : AState) : String :=
  let m := if s.active.isNone then "frozen" else maskOf s.avail
  s!"a={showSeatOpt s.active} h={showCalls s.history.reverse} m={m} " ++
  s!"pN={showCalls (s.perSeat .N).reverse} pE={showCalls (s.perSeat .E).reverse} " ++
  s!"pS={showCalls (s.perSeat .S).reverse} pW={showCalls (s.perSeat .W).reverse} " ++
  s!"d={showBool s.hasDone} c={showContract s.contract} dl={showSeat s.dealer} v={showVul s.vul} " ++
  s!"ms={showBool (auctionSpecAgrees s)}"

def auctionOps (st : Option AState) (t : List String) : Option AState × String :=
  match t with
  | ["A.new", d, v] =>
    match seat? d, vul? v with
    | some d, some v => let s := AState.init d v; (some s, "NEW " ++ auctionObs s)
    | _, _ => (st, "bad-op")
  | ["A.call", c] =>
    match st, call? c with
    | some s, some c =>
      match takeBid s c with
      | .error () => (some s, "ERR " ++ auctionObs s)
      | .ok (s', r) =>
        let rs := match r with | .illegal => "ILLEGAL" | .ongoing => "ONGOING" | .finished => "FINISHED"
        (some s', rs ++ " " ++ auctionObs s')
    | _, _ => (st, "bad-op")
  | _ => (st, "bad-op")

end Bridge.Driver
