import BridgeVerif.Driver.Util
import BridgeVerif.Model.Hands
/-! Driver ops `H.*` : deal encodings. -/
namespace Bridge.Driver

def cardsArg? (s : String) : Option (List Card) :=
  if s = "-" then some [] else (s.splitOn ",").mapM card?

def showHandsLine (h : Hands) : String :=
  let f (l : List Card) := let x := showCardSet l; if x = "" then "-" else x
  s!"N={f (h .N)} E={f (h .E)} S={f (h .S)} W={f (h .W)}"

def bitsArg? (s : String) : Option (List Nat) :=
  s.toList.mapM fun c => if '0' ≤ c ∧ c ≤ '9' then some (c.toNat - '0'.toNat) else none

def mkHands (a b c d : List Card) : Hands := fun p => match p with | .N => a | .E => b | .S => c | .W => d
def mkVecs (a b c d : List Nat) : Seat → List Nat := fun p => match p with | .N => a | .E => b | .S => c | .W => d

def handsOps (t : List String) : Option String :=
  match t with
  | ["H.pbn", f, a, b, c, d] => do
      let f ← seat? f; let a ← cardsArg? a; let b ← cardsArg? b; let c ← cardsArg? c; let d ← cardsArg? d
      pure (match toPbn? (mkHands a b c d) f with | some s => hexOf s | none => "ERR")
  | ["H.parse", x] => do
      let x ← unhex? x
      pure (match convertPbn? x with | some h => showHandsLine h | none => "ERR")
  | ["H.bin", a, b, c, d] => do
      let a ← cardsArg? a; let b ← cardsArg? b; let c ← cardsArg? c; let d ← cardsArg? d
      let h := mkHands a b c d
      let v (p : Seat) := String.ofList ((toBinary h p).map fun n => if n = 1 then '1' else '0')
      pure s!"{v .N} {v .E} {v .S} {v .W}"
  | ["H.unbin", a, b, c, d] => do
      let a ← bitsArg? a; let b ← bitsArg? b; let c ← bitsArg? c; let d ← bitsArg? d
      pure (showHandsLine (convertBinary (mkVecs a b c d)))
  | ["H.unnp", a, b, c, d] => do
      let a ← bitsArg? a; let b ← bitsArg? b; let c ← bitsArg? c; let d ← bitsArg? d
      pure (showHandsLine (convertNpBinary (mkVecs a b c d)))
  | ["H.json", a, b, c, d] => do
      let a ← cardsArg? a; let b ← cardsArg? b; let c ← cardsArg? c; let d ← cardsArg? d
      let h := mkHands a b c d
      let v (p : Seat) := let x := ",".intercalate ((dealToJson h p).map String.ofList); if x = "" then "-" else x
      pure s!"{v .N} {v .E} {v .S} {v .W}"
  | ["H.unjson", a, b, c, d] => do
      let f (s : String) : Option (Option (List Card)) := do
        let x ← unhex? s
        let items := if x = [] then [] else (String.ofList x).splitOn ","
        pure (handOfJson? (items.map String.toList))
      let a ← f a; let b ← f b; let c ← f c; let d ← f d
      pure (match a, b, c, d with
        | some a, some b, some c, some d => showHandsLine (mkHands a b c d)
        | _, _, _, _ => "ERR")
  | ["H.deal", perm] => do
      let idxs ← (perm.splitOn ",").mapM nat?
      let l ← idxs.mapM fun i => freshPack[i]?
      pure (showHandsLine (dealOfList l))
  | _ => none

end Bridge.Driver
