import BridgeVerif.Driver.Util
import BridgeVerif.Model.Admission
/-! Driver op `G.serve` : the accept loop over a request sequence (C20). -/
namespace Bridge.Driver

def showVerdict : Verdict → String
  | .seated => "seated" | .badVersion => "badVersion" | .seatTaken => "seatTaken" | .teamMismatch => "teamMismatch"

def request? (s : String) : Option Request :=
  match s.splitOn "," with
  | [team, seat, ver] => do
    let team ← unhex? team; let seat ← seat? seat; let ver ← nat? ver
    pure ⟨team, seat, ver⟩
  | _ => none

/-- replies of the served requests, each computed against the table at its turn -/
def repliesOf : Table → List Request → List (List Char)
  | _, [] => []
  | t, r :: rs =>
    if t.full then [] else
    let (t', v) := admitReq t r
    replyText r t v :: repliesOf t' rs

def admissionOps (t : List String) : Option String :=
  match t with
  | ["G.serve", reqs] => do
    let rs ← if reqs = "-" then some [] else (reqs.splitOn ";").mapM request?
    let (tf, vs) := serve Table.empty rs
    let cell (p : Seat) := match tf p with | some n => hexOf n | none => "none"
    pure (s!"v={",".intercalate (vs.map showVerdict)} table=N:{cell .N},E:{cell .E},S:{cell .S},W:{cell .W} " ++
          s!"full={showBool tf.full} teams={hexOf (teamsOfTable tf)} " ++
          s!"replies={",".intercalate ((repliesOf Table.empty rs).map hexOf)}")
  | _ => none

end Bridge.Driver

namespace Bridge.Driver
open Bridge.Admission in
def showAdmOp : Bridge.Admission.Op → String
  | .recv => "r" | .send t => "s:" ++ hexOf t | .close => "c" | .signal => "g"
def showMainOp : Bridge.Admission.MainOp → String
  | .accept => "accept" | .start => "start" | .waitVerdict => "wait" | .sleep => "sleep" | .isAlive => "alive"
  | .clearVerdict => "clear"

def connArg? (c : String) : Option (List Char × List Char) :=
  match c.splitOn ":" with
  | [a, b] => (unhex? a).bind fun a => (unhex? b).map fun b => (a, b)
  | _ => none

/-- `G.loop <req-text-hex>:<next-client-text-hex>;…` : the accept loop on the connection attempts in accept order -/
def admissionLoopOps (t : List String) : Option String :=
  match t with
  | ["G.loop", conns] => do
    let cs ← if conns = "-" then some [] else (conns.splitOn ";").mapM connArg?
    match Bridge.Admission.acceptLoopR Table.empty cs with
    | none => pure "RAISES"
    | some (opss, mops, tf) =>
      let cell (p : Seat) := match tf p with | some n => hexOf n | none => "none"
      pure (s!"threads={"|".intercalate (opss.map fun ops => ",".intercalate (ops.map showAdmOp))} " ++
            s!"main={",".intercalate (mops.map showMainOp)} table=N:{cell .N},E:{cell .E},S:{cell .S},W:{cell .W}")
  | _ => none
end Bridge.Driver
