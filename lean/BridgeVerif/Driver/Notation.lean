import BridgeVerif.Driver.Util
import BridgeVerif.Model.Notation
/-! Driver ops `N.*` : notation converters. Text in and out is hex-encoded. -/
namespace Bridge.Driver

def showDbl : Dbl → String | .none => "-" | .x => "X" | .xx => "XX"
def showContractN (c : Contract) : String :=
  match c.finalBid with
  | none => s!"PO:{showVul c.vul}:{showSeatOpt c.declarer}"
  | some b => s!"{b.val}:{showDbl c.dbl}:{showVul c.vul}:{showSeatOpt c.declarer}"
def showSuit (s : Suit) : String := String.ofList s.name
def optS (o : Option String) : String := o.getD "ERR"

def notationOps (t : List String) : Option String :=
  match t with
  | ["N.card.str", c] => (card? c).map fun c => hexOf (cardStr c)
  | ["N.card.parse", x] => (unhex? x).map fun x => optS ((strToCard? x).map fun c => toString c.idx)
  | ["N.card.int", c] => (card? c).map fun c => toString c.idx
  | ["N.card.ofint", n] => (int? n).map fun n => optS ((intToCard? n).map fun c => s!"{c.rank}{showSuit c.suit}")
  | ["N.card.lt", a, b] => do
      let a ← card? a; let b ← card? b
      pure s!"{showBool (Card.lt a b)}{showBool (decide (a.idx ≤ b.idx))}{showBool (Card.lt b a)}{showBool (decide (b.idx ≤ a.idx))}"
  | ["N.rank.str", r] => (nat? r).map fun r => optS ((rankChar? r).map fun c => hexOf [c])
  | ["N.rank.parse", x] => (unhex? x).map fun x =>
      match x with
      | [c] => optS ((rankOfChar? c).map toString)
      | _ => "MULTI"
  | ["N.bid.str", c] => (call? c).map fun c => hexOf (callStr c)
  | ["N.bid.parse", x] => (unhex? x).map fun x => optS ((strToCall? x).map fun c => toString c.idx)
  | ["N.bid.ofint", n] => (int? n).map fun n => optS ((intToCall? n).map fun c => toString c.idx)
  | ["N.bid.info", c] => (call? c).map fun c =>
      s!"{c.idx} {c.value} {match callLevel? c with | none => "-" | some l => toString l} " ++
      s!"{match callSuit? c with | none => "-" | some s => showSuit s}"
  | ["N.bid.ls", l, s] => do
      let l ← int? l; let s ← suit? s
      pure (optS ((levelSuitToCall? l s).map fun c => toString c.idx))
  | ["N.seat.info", p] => (seat? p).map fun p =>
      s!"{hexOf p.formal} {showSeat p.left} {showSeat p.partner} {showSeat p.right} " ++
      s!"{String.ofList (sideName p.side)} {String.ofList (sideName p.side.opp)} {p.value}"
  | ["N.seat.partner", a, b] => do
      let a ← seat? a; let b ← seat? b
      pure (showBool (a.isPartner b))
  | ["N.seat.parseformal", x] => (unhex? x).map fun x => optS ((seatOfFormal? x).map showSeat)
  | ["N.seat.parse", x] => (unhex? x).map fun x => optS ((seatOfName? x).map showSeat)
  | ["N.seat.vul", p, v] => do
      let p ← seat? p; let v ← vul? v
      pure (showBool (p.isVul v))
  | ["N.vul.str", v] => (vul? v).map fun v => s!"{hexOf (vulStr v)} {hexOf (vulPbn v)}"
  | ["N.vul.parse", x] => (unhex? x).map fun x => optS ((strToVul? x).map showVul)
  | ["N.suit.parse", x] => (unhex? x).map fun x => optS ((suitOfName? x).map showSuit)
  | ["N.suit.info", s] => (suit? s).map fun s => s!"{s.value} {showBool s.isMinor} {showBool s.isMajor}"
  | ["N.contract.str", b, x, xx] => do
      let b ← bidOpt? b; let x ← bool? x; let xx ← bool? xx
      pure (hexOf (contractStr ⟨b, x, xx, .none, none⟩))
  | ["N.contract.parse", x, v, d] => do
      let x ← unhex? x; let v ← vul? v; let d ← seatOpt? d
      pure (optS ((strToContract? x v d).map showContractN))
  | _ => none

end Bridge.Driver
