import BridgeVerif.Core
/-! Line-protocol helpers: tokens in, canonical text out. -/
namespace Bridge.Driver

def toks (line : String) : List String :=
  (line.trimAscii.toString.splitOn " ").filter (· ≠ "")

def nat? (s : String) : Option Nat := s.toNat?
def int? (s : String) : Option Int := s.toInt?
def bool? (s : String) : Option Bool :=
  if s = "1" then some true else if s = "0" then some false else none

def seat? (s : String) : Option Seat :=
  match s with
  | "N" => some .N | "E" => some .E | "S" => some .S | "W" => some .W | _ => none
def seatOpt? (s : String) : Option (Option Seat) :=
  if s = "-" then some none else (seat? s).map some
def vul? (s : String) : Option Vul :=
  match s with
  | "None" => some .none | "NS" => some .ns | "EW" => some .ew | "Both" => some .both | _ => none
def suit? (s : String) : Option Suit :=
  match s with
  | "C" => some .C | "D" => some .D | "H" => some .H | "S" => some .S | "NT" => some .NT | _ => none
def bidIdx? (s : String) : Option (Fin 35) :=
  match s.toNat? with
  | some n => if h : n < 35 then some ⟨n, h⟩ else none
  | none => none
def bidOpt? (s : String) : Option (Option (Fin 35)) :=
  if s = "-" || s = "P" then some none else (bidIdx? s).map some
def call? (s : String) : Option Call := (s.toNat?).bind Call.ofIdx?
def card? (s : String) : Option Card := (s.toNat?).bind Card.ofIdx?

def showSeat (p : Seat) : String := String.ofList p.name
def showSeatOpt : Option Seat → String | none => "-" | some p => showSeat p
def showVul : Vul → String | .none => "None" | .ns => "NS" | .ew => "EW" | .both => "Both"
def showBool (b : Bool) : String := if b then "1" else "0"
def showNats (l : List Nat) : String := ",".intercalate (l.map toString)
def showCalls (l : List Call) : String := showNats (l.map Call.idx)
def showCards (l : List Card) : String := showNats (l.map Card.idx)
def showOptInt : Option Int → String | none => "ERR" | some i => toString i

/-- insertion sort of naturals (canonical order for sets) -/
def insertNat (x : Nat) : List Nat → List Nat
  | [] => [x]
  | y :: ys => if x ≤ y then x :: y :: ys else y :: insertNat x ys
def sortNats (l : List Nat) : List Nat := l.foldr insertNat []
def showCardSet (l : List Card) : String := showNats (sortNats (l.map Card.idx))

end Bridge.Driver

namespace Bridge.Driver
/-! text arguments travel hex-encoded (UTF-8 bytes), `-` = empty string -/
def hexVal? (c : Char) : Option Nat :=
  if '0' ≤ c ∧ c ≤ '9' then some (c.toNat - '0'.toNat)
  else if 'a' ≤ c ∧ c ≤ 'f' then some (c.toNat - 'a'.toNat + 10) else none

def hexBytes? : List Char → Option (List UInt8)
  | [] => some []
  | a :: b :: r => do
    let x ← hexVal? a; let y ← hexVal? b; let t ← hexBytes? r
    pure (UInt8.ofNat (x * 16 + y) :: t)
  | _ => none

def unhex? (s : String) : Option (List Char) :=
  if s = "-" then some [] else
  match hexBytes? s.toList with
  | none => none
  | some bs => (String.fromUTF8? (ByteArray.mk bs.toArray)).map String.toList

def hexDigit (n : Nat) : Char := if n < 10 then Char.ofNat ('0'.toNat + n) else Char.ofNat ('a'.toNat + n - 10)
def hexOfBytes (bs : List UInt8) : String :=
  String.ofList (bs.flatMap fun b => [hexDigit (b.toNat / 16), hexDigit (b.toNat % 16)])
def hexOf (s : List Char) : String :=
  if s = [] then "-" else hexOfBytes (String.ofList s).toUTF8.toList

end Bridge.Driver
