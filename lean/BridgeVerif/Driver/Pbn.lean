import BridgeVerif.Driver.Util
import BridgeVerif.Driver.Hands
import BridgeVerif.Driver.Notation
import BridgeVerif.Driver.Json
import BridgeVerif.Spec.PbnLayout
/-! Driver ops `B.*` : the PBN reader and writer (C17, C18).  A layout (import file) or a list of results (export
file) is assembled line by line, then rendered / written and read back. -/
namespace Bridge.Driver

structure BState where
  file : FileL := ⟨[], [], [], ['\n']⟩          -- games newest first, items / seps newest first while building
  results : List PbnResult := []                 -- newest first

def BState.layout (b : BState) : FileL :=
  { b.file with
    header := b.file.header.reverse, leading := b.file.leading.reverse,
    games := b.file.games.reverse.map fun g => { items := g.items.reverse, seps := g.seps.reverse } }

def showGame (g : Game) : String :=
  if g.isEmpty then "{}" else ",".intercalate (g.map fun (k, v) => s!"{hexOf k}={hexOf v}")
def showGames (gs : List Game) : String :=
  if gs.isEmpty then "EMPTY" else " ## ".intercalate (gs.map showGame)

def linesOf (text : Str) (mode : String) : Option (List Str) :=
  if mode = "s" then some (pyLines text)
  else if mode = "f" then some (pyLines (universalNewlines text))
  else none

/-- Bool version of `FileL.Admissible` (generator sanity only) -/
def gamesAdmB : List GameL → Bool
  | [] => true
  | g :: r =>
    g.items.all PbnItem.ok && (match g.items with | .tag .. :: _ => true | _ => false) && g.seps.all isBlank &&
    (r.isEmpty || !g.seps.isEmpty) && gamesAdmB r
def admissibleB (f : FileL) : Bool :=
  (f.eol == ['\n'] || f.eol == ['\r', '\n']) &&
  f.header.all (fun h => h.head? == some '%' && h.all fun c => c != '\n' && c != '\r') &&
  f.leading.all isBlank && gamesAdmB f.games

def mapGame (b : BState) (f : GameL → GameL) : Option BState :=
  match b.file.games with
  | g :: r => some { b with file := { b.file with games := f g :: r } }
  | [] => none

def pbnOps (b : BState) (t : List String) : BState × String :=
  let bad := (b, "bad-op")
  match t with
  -- import-file layouts
  | ["B.fbegin", eol] =>
    if eol = "lf" then ({ b with file := ⟨[], [], [], ['\n']⟩ }, "ok")
    else if eol = "crlf" then ({ b with file := ⟨[], [], [], ['\r', '\n']⟩ }, "ok") else bad
  | ["B.fheader", h] =>
    match unhex? h with
    | some h => ({ b with file := { b.file with header := h :: b.file.header } }, "ok")
    | none => bad
  | ["B.flead", h] =>
    match unhex? h with
    | some h => ({ b with file := { b.file with leading := h :: b.file.leading } }, "ok")
    | none => bad
  | ["B.fgame"] => ({ b with file := { b.file with games := ⟨[], []⟩ :: b.file.games } }, "ok")
  | ["B.ftag", n, v, so, sc, tr] =>
    match unhex? n, unhex? v, bool? so, bool? sc, unhex? tr with
    | some n, some v, some so, some sc, some tr =>
      match mapGame b fun g => { g with items := .tag n v so sc tr :: g.items } with
      | some b' => (b', "ok")
      | none => bad
    | _, _, _, _, _ => bad
  | ["B.frow", r] =>
    match unhex? r with
    | some r =>
      match mapGame b fun g => { g with items := .row r :: g.items } with
      | some b' => (b', "ok")
      | none => bad
    | none => bad
  | ["B.fsep", s] =>
    match unhex? s with
    | some s =>
      match mapGame b fun g => { g with seps := s :: g.seps } with
      | some b' => (b', "ok")
      | none => bad
    | none => bad
  | ["B.ftext"] => (b, hexOf b.layout.text)
  | ["B.fadm"] => (b, showBool (admissibleB b.layout))
  | ["B.fparse", mode] =>
    match linesOf b.layout.text mode with
    | some ls => (b, showGames (parseStream ls))
    | none => bad
  | ["B.fsettings", mode] =>
    match linesOf b.layout.text mode with
    | some ls => (b, showMany showSetting (pbnBoardSettings? ls))
    | none => bad
  -- arbitrary texts
  | ["B.parse", x, mode] =>
    match unhex? x with
    | some x => match linesOf x mode with
      | some ls => (b, showGames (parseStream ls))
      | none => bad
    | none => bad
  | ["B.settings", x, mode] =>
    match unhex? x with
    | some x => match linesOf x mode with
      | some ls => (b, showMany showSetting (pbnBoardSettings? ls))
      | none => bad
    | none => bad
  -- export
  | ["B.wbegin"] => ({ b with results := [] }, "ok")
  | ["B.result", ev, site, y, m, d, num, w, n, e, s, dealer, hn, he, hs, hw, sc, bid, x, xx, vul, decl, tricks] =>
    let r : Option PbnResult := do
      let ev ← unhex? ev; let site ← unhex? site; let y ← nat? y; let m ← nat? m; let d ← nat? d; let num ← int? num
      let w ← unhex? w; let n ← unhex? n; let e ← unhex? e; let s ← unhex? s; let dealer ← seat? dealer
      let hn ← cardsArg? hn; let he ← cardsArg? he; let hs ← cardsArg? hs; let hw ← cardsArg? hw
      let sc ← scoring? sc; let bid ← bidOpt? bid; let x ← bool? x; let xx ← bool? xx; let vul ← vul? vul
      let decl ← seatOpt? decl; let tricks ← intOpt? tricks
      pure { event := ev, site := site, year := y, month := m, day := d, boardNum := num, west := w, north := n,
             east := e, south := s, dealer := dealer, deal := mkHands hn he hs hw, scoring := sc,
             contract := ⟨bid, x, xx, vul, decl⟩, tricks := tricks }
    match r with
    | some r => ({ b with results := r :: b.results }, "ok")
    | none => bad
  | ["B.wtext"] =>
    (b, match b.results.reverse.mapM writeBoardResult? with
        | some cs => hexOf cs.flatten.flatten
        | none => "ERR")
  | ["B.wmax"] =>
    (b, match b.results.reverse.mapM writeBoardResult? with
        | some cs =>
          let chunks := cs.flatten
          s!"max={chunks.foldl (fun m c => max m c.length) 0} nl={showBool (chunks.all fun c => c.getLast? == some '\n')}"
        | none => "ERR")
  | ["B.wread"] =>
    (b, match b.results.reverse.mapM writeBoardResult? with
        | some cs => showGames (parseStream (pyLines cs.flatten.flatten))
        | none => "ERR")
  | ["B.wsettings"] =>
    (b, match b.results.reverse.mapM writeBoardResult? with
        | some cs => showMany showSetting (pbnBoardSettings? (pyLines cs.flatten.flatten))
        | none => "ERR")
  | ["B.line", x] =>
    match unhex? x with
    | some x => (b, match writeLine? x with
        | some cs => ",".intercalate (cs.map hexOf)
        | none => "ERR")
    | none => bad
  | _ => bad

end Bridge.Driver
