import BridgeVerif.Driver.Util
import BridgeVerif.Driver.Hands
import BridgeVerif.Driver.Notation
import BridgeVerif.Model.JsonLog
import BridgeVerif.Generated.Schemas
/-! Driver ops `J.*` : the JSON log / board-settings writers, the parser and the schema validator (C12, C13, C17).
A document is assembled entry by entry, then its text, what the parser reads back and the schema verdict are
printed. -/
namespace Bridge.Driver

structure JState where
  logs : List LogEntry := []          -- newest first while building
  settings : List SettingEntry := []

def scoring? (s : String) : Option Scoring :=
  match s with
  | "MP" => some .MP | "MatchPoints" => some .MatchPoints | "IMP" => some .IMP | "Cavendish" => some .Cavendish
  | "Chicago" => some .Chicago | "Rubber" => some .Rubber | "BAM" => some .BAM | "Instant" => some .Instant
  | _ => none

def callsArg? (s : String) : Option (List Call) :=
  if s = "-" then some [] else (s.splitOn ",").mapM call?

def trickArg? (s : String) : Option Trick :=
  match s.splitOn ":" with
  | [l, cs] => do
    let l ← seat? l
    let cs ← cardsArg? cs
    pure ⟨l, cs⟩
  | _ => none

/-- `null` | `-` (empty list) | `N:1,2,3,4;E:…` -/
def playArg? (s : String) : Option (Option (List Trick)) :=
  if s = "null" then some none
  else if s = "-" then some (some [])
  else ((s.splitOn ";").mapM trickArg?).map some

/-- `-` | `N:C=3,D=4,…;E:…`  (rows and columns in the given order) -/
def ddaArg? (s : String) : Option (Option Dda) :=
  if s = "-" then some none else
  ((s.splitOn ";").mapM fun (row : String) =>
    match row.splitOn ":" with
    | [p, cols] => do
      let p ← seat? p
      let cols ← (cols.splitOn ",").mapM fun (kv : String) =>
        match kv.splitOn "=" with
        | [k, v] => do let k ← suit? k; let v ← int? v; pure (k, v)
        | _ => none
      pure (p, cols)
    | _ => none).map some

def intOpt? (s : String) : Option (Option Int) := if s = "null" then some none else (int? s).map some

def showDdaL (d : Option Dda) : String :=
  match d with
  | none => "-"
  | some rows => ";".intercalate (rows.map fun (p, cols) =>
      s!"{showSeat p}:" ++ ",".intercalate (cols.map fun (s, v) => s!"{showSuit s}={v}"))

def showHandsBar (h : Hands) : String :=
  let f (l : List Card) := let x := showCardSet l; if x = "" then "-" else x
  s!"{f (h .N)}|{f (h .E)}|{f (h .S)}|{f (h .W)}"

def showTrickJ (t : Trick) : String := s!"{showSeat t.leader}:{showCards t.cards}"

def showSetting (e : SettingEntry) : String :=
  s!"id={hexOf e.boardId} dealer={showSeat e.dealer} vul={showVul e.vul} deal={showHandsBar e.deal} dda={showDdaL e.dda}"

def showLogRead (r : LogRead) : String :=
  s!"id={hexOf r.boardId} dealer={showSeat r.dealer} vul={showVul r.vul} deal={showHandsBar r.hands} " ++
  s!"decl={showSeatOpt r.declarer} contract={showContractN r.contract} " ++
  s!"tricks={match r.tricks with | none => "null" | some n => toString n} " ++
  s!"players={match r.players with | none => "none" | some l => ",".intercalate (l.map fun (p, n) => s!"{showSeat p}:{hexOf n}")} " ++
  s!"bids={match r.bids with | none => "none" | some l => if l.isEmpty then "-" else showCalls l} " ++
  s!"play={match r.play with | none => "none" | some l => if l.isEmpty then "-" else ";".intercalate (l.map showTrickJ)} " ++
  s!"dda={showDdaL r.dda} stype={match r.scoreType with | none => "none" | some s => hexOf s} " ++
  s!"scores={match r.scores with | none => "none" | some l => ",".intercalate (l.map fun (kv : Side × Int) => s!"{String.ofList (sideName kv.1)}:{kv.2}")}"

def showMany {α : Type} (f : α → String) : Option (List α) → String
  | none => "ERR"
  | some l => if l.isEmpty then "EMPTY" else " ## ".intercalate (l.map f)

def JState.logEntries (j : JState) : List LogEntry := j.logs.reverse
def JState.settingEntries (j : JState) : List SettingEntry := j.settings.reverse

def validText (s : Schema) (text : Str) : String :=
  match jsonLoad text with
  | none => "NOJSON"
  | some d => showBool (validate s d)

def jsonOps (j : JState) (t : List String) : JState × String :=
  match t with
  | ["J.begin"] => ({}, "ok")
  | ["J.entry", id, n, e, s, w, dealer, hn, he, hs, hw, sc, calls, bid, x, xx, vul, decl, play, tricks, ns, ew, dda] =>
    let r : Option LogEntry := do
      let id ← unhex? id; let n ← unhex? n; let e ← unhex? e; let s ← unhex? s; let w ← unhex? w
      let dealer ← seat? dealer
      let hn ← cardsArg? hn; let he ← cardsArg? he; let hs ← cardsArg? hs; let hw ← cardsArg? hw
      let sc ← scoring? sc; let calls ← callsArg? calls
      let bid ← bidOpt? bid; let x ← bool? x; let xx ← bool? xx; let vul ← vul? vul; let decl ← seatOpt? decl
      let play ← playArg? play; let tricks ← intOpt? tricks; let ns ← int? ns; let ew ← int? ew
      let dda ← ddaArg? dda
      pure { boardId := id, north := n, east := e, south := s, west := w, dealer := dealer,
             deal := mkHands hn he hs hw, scoring := sc, bids := calls,
             contract := ⟨bid, x, xx, vul, decl⟩, play := play, tricks := tricks, scoreNS := ns, scoreEW := ew,
             dda := dda }
    match r with
    | some e => ({ j with logs := e :: j.logs }, "ok")
    | none => (j, "bad-op")
  | ["J.sentry", id, dealer, hn, he, hs, hw, vul, dda] =>
    let r : Option SettingEntry := do
      let id ← unhex? id; let dealer ← seat? dealer
      let hn ← cardsArg? hn; let he ← cardsArg? he; let hs ← cardsArg? hs; let hw ← cardsArg? hw
      let vul ← vul? vul; let dda ← ddaArg? dda
      pure { boardId := id, dealer := dealer, deal := mkHands hn he hs hw, vul := vul, dda := dda }
    match r with
    | some e => ({ j with settings := e :: j.settings }, "ok")
    | none => (j, "bad-op")
  -- log documents
  | ["J.text"] => (j, hexOf (logText j.logEntries))
  | ["J.read"] => (j, showMany showLogRead (parseBoardLogs? (logText j.logEntries)))
  | ["J.settings"] => (j, showMany showSetting (parseBoardSettings? (logText j.logEntries)))
  | ["J.valid"] => (j, validText Generated.logSchema (logText j.logEntries))
  -- the log left by an aborted session: `k` records written, not closed / closed
  | ["J.prefix", k, closed] =>
    match nat? k, bool? closed with
    | some k, some c =>
      (j, hexOf (jsonFrame (jkey "logs") ((j.logEntries.take k).map fun e => pyDumps (logJson e)) c))
    | _, _ => (j, "bad-op")
  -- board-settings documents
  | ["J.stext"] => (j, hexOf (settingsText j.settingEntries))
  | ["J.sread"] => (j, showMany showSetting (parseBoardSettings? (settingsText j.settingEntries)))
  | ["J.svalid"] => (j, validText Generated.settingSchema (settingsText j.settingEntries))
  -- the reader and the schema validator on an arbitrary text
  | ["J.loads", x] =>
    match unhex? x with
    | some x => (j, match jsonLoad x with | some d => hexOf (pyDumps d) | none => "ERR")
    | none => (j, "bad-op")
  | ["J.validlog", x] =>
    match unhex? x with
    | some x => (j, validText Generated.logSchema x)
    | none => (j, "bad-op")
  | ["J.validsetting", x] =>
    match unhex? x with
    | some x => (j, validText Generated.settingSchema x)
    | none => (j, "bad-op")
  | ["J.readtext", x] =>
    match unhex? x with
    | some x => (j, showMany showLogRead (parseBoardLogs? x))
    | none => (j, "bad-op")
  | ["J.sreadtext", x] =>
    match unhex? x with
    | some x => (j, showMany showSetting (parseBoardSettings? x))
    | none => (j, "bad-op")
  | _ => (j, "bad-op")

end Bridge.Driver
