import BridgeVerif.Driver.Util
import BridgeVerif.Driver.Hands
import BridgeVerif.Model.Msg
import BridgeVerif.Model.Framing
/-! Driver ops `M.*` (messages) and `F.*` (framing). Text is hex-encoded UTF-8. -/
namespace Bridge.Driver

def optH (o : Option (List Char)) : String := match o with | some s => hexOf s | none => "ERR"
def showCardsOpt : Option (List Card) → String
  | none => "ERR"
  | some l => let x := showCardSet l; if x = "" then "-" else x

def msgOps (t : List String) : Option String :=
  match t with
  | ["M.hand", cs] => (cardsArg? cs).map fun h => hexOf (handToStr h)
  | ["M.cards", n, cs] => do
      let n ← unhex? n; let h ← cardsArg? cs
      pure (hexOf (cardsMsg n h))
  | ["M.parsecards", c, n] => do
      let c ← unhex? c; let n ← unhex? n
      pure (optH (parseCards? c n))
  | ["M.parsehand", c] => (unhex? c).map fun c => showCardsOpt (parseHand? c)
  | ["M.bidmsg", c, n] => do
      let c ← call? c; let n ← unhex? n
      pure (hexOf (bidMsg c n))
  | ["M.parsebid", c, n] => do
      let c ← unhex? c; let n ← unhex? n
      pure (match parseBid? c n with | some k => toString k.idx | none => "ERR")
  | ["M.srvbid", c, n] => do
      let c ← unhex? c; let n ← unhex? n
      let m := preprocessBid c
      pure ((match parseBid? m n with | some k => toString k.idx | none => "ERR") ++ " " ++ hexOf m)
  | ["M.alert", c] => (unhex? c).map fun c => hexOf (removeAlert c)
  | ["M.cardstr", c] => (card? c).map fun c => hexOf (cardStrRS c)
  | ["M.playmsg", p, c, sf] => do
      let p ← seat? p; let c ← card? c; let sf ← bool? sf
      pure (hexOf (playMsg p c sf))
  | ["M.parsecard", c, p] => do
      let c ← unhex? c; let p ← seat? p
      pure (match parseCard? c p with | some k => toString k.idx | none => "ERR")
  | ["M.header", n, d, v] => do
      let n ← nat? n; let d ← seat? d; let v ← vul? v
      pure (hexOf (boardHeader n d v))
  | ["M.parseboard", c] => (unhex? c).map fun c =>
      match parseBoard? c with
      | some (n, d, v) => s!"{n} {showSeat d} {showVul v}"
      | none => "ERR"
  | ["M.teams", a, b] => do
      let a ← unhex? a; let b ← unhex? b
      pure (hexOf (teamsMsg a b))
  | ["M.parseteams", c] => (unhex? c).map fun c =>
      match parseTeamNames? c with
      | some (a, b) => s!"{hexOf a} {hexOf b}"
      | none => "ERR"
  | ["M.connect", tm, st, v] => do
      let tm ← unhex? tm; let st ← unhex? st; let v ← nat? v
      pure (hexOf (connectMsg tm st v))
  | ["M.parseconnect", c] => (unhex? c).map fun c =>
      match parseConnect? c with
      | some (tm, p, v) => s!"{hexOf tm} {showSeat p} {v}"
      | none => "ERR"
  | ["M.parseleader", c, d] => do
      let c ← unhex? c; let d ← seat? d
      pure (match parseLeader? c d with | some p => showSeat p | none => "ERR")
  | ["M.lead", w] => (if w = "-" then some none else (seat? w).map some).map fun w => hexOf (leadPrompt w)
  | ["M.check", e, r] => do
      let e ← unhex? e; let r ← unhex? r
      pure (showBool (checkMessage e r))
  | ["M.vul", v] => (vul? v).map fun v => hexOf (convertVul v)
  | ["F.encode", m] => do
      let bs ← if m = "-" then some [] else hexBytes? m.toList
      pure (hexOfBytes (encodeMsg bs))
  | "F.feed" :: m :: _ => do
      let bs ← if m = "-" then some [] else hexBytes? m.toList
      let msgs := recvAll (bs.length + 2) bs
      let shown := msgs.map fun x => if x = [] then "-" else hexOfBytes x
      pure (",".intercalate shown ++ " ERR")
  | _ => none

end Bridge.Driver
