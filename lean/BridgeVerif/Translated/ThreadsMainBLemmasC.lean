import BridgeVerif.Translated.ThreadsMainBLemmasB
import BridgeVerif.Lemmas.MiniPyFuel
/-! Translated `MainThread.playing_phase`: the model stepped, the hypotheses about `parse_card`, one card, the four cards
of a trick, one trick, thirteen tricks, the whole method at fuel `f + 79` -/
set_option maxRecDepth 4000
set_option linter.unusedSimpArgs false
namespace Bridge.Translated.MainB
open Bridge Bridge.Py Bridge.Generated.PyCore

/-! ## the model, stepped -/

/-- the model's `played` -/
def playedM (decl : Seat) (w : WithHands) : Seat := if w.base.active = decl.partner then decl else w.base.active

theorem mainTrickR_four (decl : Seat) (dm : Text) (first : Bool) (w : WithHands) (i : MainIn) :
    mainTrickR decl dm first 4 w i = some ([], w, i) := by
  rw [mainTrickR]

theorem mainTrickR_inv {decl : Seat} {dm : Text} {first : Bool} {idx : Nat} {w wf : WithHands} {i i_f : MainIn}
    {acts : MainActs} (h : idx < 4) (hr : mainTrickR decl dm first idx w i = some (acts, wf, i_f)) :
    ∃ message i1 card w1 rest, MainIn.get i (playedM decl w) = some (message, i1) ∧
      parseCard? message w.base.active = some card ∧ w.play card w.base.active = .ok w1 ∧
      mainTrickR decl dm first (idx+1) w1 i1 = some (rest, wf, i_f) ∧
      acts = [.recv (.t2m (playedM decl w))] ++ putAllBut (playedM decl w) message ++
        (if first ∧ idx = 0 then putAllBut decl.partner dm else []) ++ rest := by
  rw [mainTrickR] at hr
  · rw [if_neg (by omega)] at hr
    simp only [Option.bind_eq_bind, Option.pure_def] at hr
    change ((MainIn.get i (playedM decl w)).bind _) = _ at hr
    cases hg : MainIn.get i (playedM decl w) with
    | none => rw [hg] at hr; cases hr
    | some mi =>
      obtain ⟨message, i1⟩ := mi
      rw [hg] at hr
      simp only [Option.bind_some] at hr
      cases hp : parseCard? message w.base.active with
      | none => rw [hp] at hr; cases hr
      | some card =>
        rw [hp] at hr
        simp only [Option.bind_some] at hr
        cases hpl : w.play card w.base.active with
        | error e => rw [hpl] at hr; cases hr
        | ok w1 =>
          rw [hpl] at hr
          simp only at hr
          cases hrr : mainTrickR decl dm first (idx + 1) w1 i1 with
          | none => rw [hrr] at hr; cases hr
          | some res =>
            obtain ⟨rest, wf', i2⟩ := res
            rw [hrr] at hr
            simp only [Option.bind_some, Option.some.injEq, Prod.mk.injEq] at hr
            obtain ⟨rfl, rfl, rfl⟩ := hr
            exact ⟨message, i1, card, w1, rest, rfl, hp, hpl, hrr, rfl⟩
  · omega

/-! ## the hypotheses about `parse_card`, walking the streams like the model -/

/-- the translated `MessageInterface.parse_card(message, active)` returns `card` (at every fuel from 20 on) -/
def ParsesTo (message : Str) (active : Seat) (card : Card) : Prop :=
  ∀ f, 20 ≤ f → callFn P f m_MessageInterface_parse_card [.str message, encSeat active] = .ok (encCard card, .str message)

/-- one sufficient fuel is enough (`mkRec_mono`) -/
theorem parsesTo_of_one {message : Str} {active : Seat} {card : Card} (f0 : Nat) (h0 : f0 ≤ 20)
    (h : callFn P f0 m_MessageInterface_parse_card [.str message, encSeat active] = .ok (encCard card, .str message)) :
    ParsesTo message active card := fun f hf =>
  callFn_fuel_mono P (Nat.le_trans h0 hf) _ _ _ h (by intro e; cases e)

/-- every message the remaining `n` cards of a trick consume is parsed by the translated `parse_card` as by the model's
`parseCard?` (walks the streams like `mainTrickR`) -/
def TrickParses (decl : Seat) : Nat → WithHands → MainIn → Prop
  | 0, _, _ => True
  | n + 1, w, i =>
    match MainIn.get i (playedM decl w) with
    | none => True
    | some (message, i1) =>
      match parseCard? message w.base.active with
      | none => True
      | some card =>
        ParsesTo message w.base.active card ∧
        match w.play card w.base.active with
        | .error _ => True
        | .ok w1 => TrickParses decl n w1 i1

/-- … of `n` tricks from trick number `k` on (walks the streams like `mainPlayingR.tricks`) -/
def PlayParses (decl : Seat) (dm : Text) : Nat → Nat → WithHands → MainIn → Prop
  | 0, _, _, _ => True
  | n + 1, k, w, i =>
    TrickParses decl 4 w i ∧
    match mainTrickR decl dm (k = 1) 0 w i with
    | none => True
    | some (_, w', i') => PlayParses decl dm n (k + 1) w' i'

/-! ## rendering of the model's actions -/

theorem encMainActs_append (encRec : BoardRecord → Val) (a b : List (SAct Text LogOp)) (xa xb : List Val)
    (ha : encMainActs encRec a = some xa) (hb : encMainActs encRec b = some xb) :
    encMainActs encRec (a ++ b) = some (xa ++ xb) := by
  induction a generalizing xa with
  | nil => simp only [encMainActs, Option.some.injEq] at ha; subst ha; simpa using hb
  | cons x r ih =>
    simp only [encMainActs, Option.bind_eq_bind, Option.pure_def, List.cons_append] at ha ⊢
    cases hx : encMainAct encRec x with
    | none => simp [hx] at ha
    | some vx =>
      cases hr : encMainActs encRec r with
      | none => simp [hx, hr] at ha
      | some vr =>
        simp only [hx, hr, Option.bind_some, Option.some.injEq] at ha
        subst ha
        simp only [hx, ih vr hr, Option.bind_some, List.append_assoc]

theorem encMainActs_putAll (encRec : BoardRecord → Val) (m : Text) :
    encMainActs encRec (putAll m) = some (opsPutAll m) := rfl

theorem encMainActs_putAllBut (encRec : BoardRecord → Val) (x : Seat) (m : Text) :
    encMainActs encRec (putAllBut x m) = some (opsPutAllBut x m) := by
  cases x <;> rfl


/-! ## the invariant, and sequencing -/

/-- what `playing_phase` relies on: the trick history is in step with the trick number, and the object's `declarer` /
`dummy` are the model's -/
def MInv (decl : Seat) (w : WithHands) : Prop := WF w.base ∧ w.base.declarer = decl ∧ w.base.dummy = decl.partner

theorem playCard_declarer (s : PState) (c : Card) : (playCard s c).declarer = s.declarer ∧ (playCard s c).dummy = s.dummy := by
  unfold playCard
  simp only
  split
  · unfold addTaken; split <;> exact ⟨rfl, rfl⟩
  · exact ⟨rfl, rfl⟩

theorem wh_play_dummy {w w' : WithHands} {card : Card} {p : Seat} (hp : w.play card p = .ok w') :
    w'.base.declarer = w.base.declarer ∧ w'.base.dummy = w.base.dummy := by
  unfold WithHands.play at hp
  split at hp
  · cases hp
  · split at hp
    · cases hp
    · cases hp
      exact playCard_declarer _ _

theorem minv_play {decl : Seat} {w w' : WithHands} {card : Card} {p : Seat} (h : MInv decl w)
    (hp : w.play card p = .ok w') : MInv decl w' := by
  refine ⟨wf_with_hands_play w w' card p h.1 hp, ?_, ?_⟩
  · rw [(wh_play_dummy hp).1, h.2.1]
  · rw [(wh_play_dummy hp).2, h.2.2]

theorem playedBy_eq {decl : Seat} {w : WithHands} (h : MInv decl w) : playedBy w = playedM decl w := by
  simp only [playedBy, playedM, h.2.1, h.2.2]

theorem mb_execF_cons (r : Rec) (env env' : Env) (s : Stmt) (ss : List Stmt)
    (h : execStmtF r P env s = .ok (env', .next)) : execF r P env (s :: ss) = execF r P env' ss := by
  simp only [execF, h, bind_ok]

theorem mb_execF_append (r : Rec) (env env' : Env) (a b : List Stmt)
    (h : execF r P env a = .ok (env', .next)) : execF r P env (a ++ b) = execF r P env' b := by
  induction a generalizing env with
  | nil => simp only [execF, pure_eq, Except.ok.injEq, Prod.mk.injEq, and_true] at h; subst h; rfl
  | cons s ss ih =>
    simp only [execF, List.cons_append] at h ⊢
    cases hs : execStmtF r P env s with
    | error e => rw [hs] at h; cases h
    | ok x =>
      obtain ⟨e1, fl⟩ := x
      rw [hs] at h
      simp only [bind_ok] at h ⊢
      cases fl with
      | next => exact ih e1 h
      | ret v => simp only [pure_eq, Except.ok.injEq, Prod.mk.injEq, reduceCtorEq, and_false] at h
      | brk => simp only [pure_eq, Except.ok.injEq, Prod.mk.injEq, reduceCtorEq, and_false] at h
      | cont => simp only [pure_eq, Except.ok.injEq, Prod.mk.injEq, reduceCtorEq, and_false] at h

/-! ## one card -/

/-- the world operations of one card: the `get`, the relay to the three others, and after the opening lead dummy's cards -/
def cardOps (w : WithHands) (msg : Str) (first : Prop) [Decidable first] (dm : Str) : List Val :=
  opGet (playedBy w) :: opsPutAllBut (playedBy w) msg ++ (if first then opsPutAllBut w.base.dummy dm else [])

/-- the variables one card may write -/
def cardVars : List Id := [K.self, n_playing_env, n_played_player, n_message, n_card, n_player, n_dummy_hand_message]

theorem mb_card (f : Nat) (env : Env) (i i' : Seat → List Str) (out : List Val) (table : Val) (tables : List Val)
    (more : List (Val × Val)) (bs : Val) (c : Contract) (w w' : WithHands) (card : Card) (msg : Str) (tk ix : Int)
    (deal : Seat → List Card)
    (hself : lookup env K.self = some (encMainThread (encMainWorld i out table tables more) bs))
    (hpe : lookup env n_playing_env = some (encWithHands c w))
    (htk : lookup env n_trick_num = some (.int tk)) (hix : lookup env n_i = some (.int ix))
    (hcards : lookup env n_cards = some (.dict (handsKvs deal)))
    (hwf : WF w.base)
    (hget : MainIn.get i (playedBy w) = some (msg, i'))
    (hparse : ParsesTo msg w.base.active card)
    (hplay : w.play card w.base.active = .ok w')
    (hok : ∀ c ∈ deal w.base.dummy, 2 ≤ c.rank ∧ c.rank ≤ 14) :
    ∃ env', execF (mkRec P (f+70)) P env mbCardBody = .ok (env', .next) ∧
      lookup env' K.self = some (encMainThread (encMainWorld i'
        (out ++ cardOps w msg (tk = 1 ∧ ix = 0) (cardsMsg "Dummy".toList (deal w.base.dummy))) table tables more) bs) ∧
      lookup env' n_playing_env = some (encWithHands c w') ∧
      Frame cardVars env env' := by
  have hdum : w'.base.dummy = w.base.dummy := (wh_play_dummy hplay).2
  obtain ⟨e1, h1, hs1, hp1, hx1, hm1, hf1⟩ := mb_card_head f env i i' out table tables more bs c w w' card msg hself hpe hwf
    hget (fun g => hparse (g+21) (by omega)) hplay
  obtain ⟨e2, h2, hs2, hf2⟩ := mb_loop_relay (f+40) e1 i' (out ++ [opGet (playedBy w)]) table tables more bs _ _ hs1 hx1 hm1
  have h2' : execStmtF (mkRec P (f+70)) P e1 mbRelayLoop = .ok (e2, .next) := h2
  have hp2 : lookup e2 n_playing_env = some (encWithHands c w') := by rw [hf2 _ (by decide), hp1]
  have htk2 : lookup e2 n_trick_num = some (.int tk) := by rw [hf2 _ (by decide), hf1 _ (by decide), htk]
  have hix2 : lookup e2 n_i = some (.int ix) := by rw [hf2 _ (by decide), hf1 _ (by decide), hix]
  have hc2 : lookup e2 n_cards = some (.dict (handsKvs deal)) := by rw [hf2 _ (by decide), hf1 _ (by decide), hcards]
  have hf12 : Frame cardVars env e2 :=
    (hf1.mono (by decide)).trans (hf2.mono (by decide))
  by_cases hfirst : tk = 1 ∧ ix = 0
  · obtain ⟨rfl, rfl⟩ := hfirst
    obtain ⟨e3, h3, hs3, hf3⟩ := mb_dummy_ite_first f e2 i' _ table tables more bs c w' deal hs2 hp2 htk2 hix2 hc2
      (by rw [hdum]; exact hok)
    refine ⟨e3, ?_, ?_, ?_, hf12.trans (hf3.mono (by decide))⟩
    · rw [mbCardBody_eq, mb_execF_append _ _ _ _ _ h1, mb_execF_cons _ _ _ _ _ h2', mb_execF_cons _ _ _ _ _ h3]; rfl
    · rw [hs3, hdum]; simp [cardOps, List.append_assoc]
    · rw [hf3 _ (by decide), hp2]
  · have h3 := mb_dummy_ite_later f e2 tk ix hfirst htk2 hix2
    refine ⟨e2, ?_, ?_, hp2, hf12⟩
    · rw [mbCardBody_eq, mb_execF_append _ _ _ _ _ h1, mb_execF_cons _ _ _ _ _ h2', mb_execF_cons _ _ _ _ _ h3]; rfl
    · rw [hs2]; simp [cardOps, hfirst, List.append_assoc]

/-! ## the four cards of a trick -/

def mbCardLoop : Stmt := mbTrickBody.getD 3 .pass
theorem mbCardLoop_eq : mbCardLoop = .for [n_i] (.builtin .range [.const (.int 4)]) mbCardBody := rfl

/-- the items `k, k+1, …` (`n` of them) of a `range` -/
def natItems (k n : Nat) : List Val := (List.range' k n).map fun j => .int (Int.ofNat j)

theorem natItems_succ (k n : Nat) : natItems k (n + 1) = .int (Int.ofNat k) :: natItems (k + 1) n := by
  simp only [natItems, List.range'_succ, List.map_cons]

theorem mb_forF_cons (r : Rec) (x : Id) (body : List Stmt) (env env' : Env) (it : Val) (items : List Val)
    (h : r.exec (update env x it) body = .ok (env', .next)) :
    forF r [x] body env (it :: items) = forF r [x] body env' items := by
  simp only [forF, pure_eq, bind_ok, h]

theorem encMainActs_card (encRec : BoardRecord → Val) (x : Seat) (msg : Text) (b : Prop) [Decidable b] (d : Seat)
    (dm : Text) :
    encMainActs encRec ([.recv (.t2m x)] ++ putAllBut x msg ++ (if b then putAllBut d dm else []))
      = some (opGet x :: opsPutAllBut x msg ++ (if b then opsPutAllBut d dm else [])) := by
  have h1 : encMainActs encRec [.recv (.t2m x)] = some [opGet x] := rfl
  have h2 := encMainActs_append encRec _ _ _ _ h1 (encMainActs_putAllBut encRec x msg)
  by_cases hb : b
  · simp only [hb, if_true]
    exact encMainActs_append encRec _ _ _ _ h2 (encMainActs_putAllBut encRec d dm)
  · simp only [hb, if_false, List.append_nil]
    exact h2

theorem cardOps_eq {decl : Seat} {w : WithHands} (hinv : MInv decl w) (k idx : Nat) (dm msg : Str) :
    cardOps w msg (Int.ofNat k = 1 ∧ Int.ofNat idx = 0) dm
      = opGet (playedM decl w) :: opsPutAllBut (playedM decl w) msg ++
          (if (decide (k = 1) = true ∧ idx = 0) then opsPutAllBut decl.partner dm else []) := by
  have c1 : ((k : Int) = 1 ∧ (idx : Int) = 0) ↔ (decide (k = 1) = true ∧ idx = 0) := by
    simp only [decide_eq_true_eq]; omega
  unfold cardOps
  rw [playedBy_eq hinv, hinv.2.2]
  simp only [Int.ofNat_eq_natCast]
  by_cases hc : decide (k = 1) = true ∧ idx = 0
  · rw [if_pos hc, if_pos (c1.2 hc)]
  · rw [if_neg hc, if_neg (fun h => hc (c1.1 h))]

/-- the variables the four cards may write -/
def loopVars : List Id := n_i :: cardVars

theorem mb_cards_loop (encRec : BoardRecord → Val) (f : Nat) (decl : Seat) (c : Contract) (deal : Seat → List Card)
    (table : Val) (tables : List Val) (more : List (Val × Val)) (bs : Val) (k : Nat)
    (hok : ∀ c ∈ deal decl.partner, 2 ≤ c.rank ∧ c.rank ≤ 14) :
    ∀ (n idx : Nat), idx + n = 4 → ∀ (env : Env) (w : WithHands) (i : MainIn) (out : List Val) (acts : MainActs)
      (wf : WithHands) (i_f : MainIn),
      lookup env K.self = some (encMainThread (encMainWorld i out table tables more) bs) →
      lookup env n_playing_env = some (encWithHands c w) →
      lookup env n_trick_num = some (.int (Int.ofNat k)) →
      lookup env n_cards = some (.dict (handsKvs deal)) →
      MInv decl w →
      mainTrickR decl (cardsMsg "Dummy".toList (deal decl.partner)) (k = 1) idx w i = some (acts, wf, i_f) →
      TrickParses decl n w i →
      ∃ env' ops, forF (mkRec P (f+71)) [n_i] mbCardBody env (natItems idx n) = .ok (env', .next) ∧
        encMainActs encRec acts = some ops ∧
        lookup env' K.self = some (encMainThread (encMainWorld i_f (out ++ ops) table tables more) bs) ∧
        lookup env' n_playing_env = some (encWithHands c wf) ∧
        MInv decl wf ∧ Frame loopVars env env' := by
  intro n
  induction n with
  | zero =>
    intro idx hidx env w i out acts wf i_f hself hpe htk hcards hinv hr _
    have : idx = 4 := by omega
    subst this
    rw [mainTrickR_four] at hr
    simp only [Option.some.injEq, Prod.mk.injEq] at hr
    obtain ⟨rfl, rfl, rfl⟩ := hr
    exact ⟨env, [], rfl, rfl, by rw [hself, List.append_nil], hpe, hinv, Frame.refl _ _⟩
  | succ n ih =>
    intro idx hidx env w i out acts wf i_f hself hpe htk hcards hinv hr htp
    obtain ⟨message, i1, card, w1, rest, hget, hparse, hplay, hrest, rfl⟩ := mainTrickR_inv (by omega) hr
    simp only [TrickParses, hget, hparse, hplay] at htp
    obtain ⟨hpt, htp1⟩ := htp
    have hpb := playedBy_eq hinv
    have hne : ∀ y, n_i ≠ y → lookup (update env n_i (.int (Int.ofNat idx))) y = lookup env y :=
      fun y hy => lookup_update_ne _ _ _ _ hy
    obtain ⟨e1, h1, hs1, hp1, hf1⟩ := mb_card f (update env n_i (.int (Int.ofNat idx))) i i1 out table tables more bs c w w1
      card message (Int.ofNat k) (Int.ofNat idx) deal (by rw [hne _ (by decide), hself]) (by rw [hne _ (by decide), hpe])
      (by rw [hne _ (by decide), htk]) (lookup_update_same _ _ _) (by rw [hne _ (by decide), hcards]) hinv.1
      (by rw [hpb]; exact hget) hpt hplay (by rw [hinv.2.2]; exact hok)
    have hinv1 := minv_play hinv hplay
    obtain ⟨e2, ops, h2, hops, hs2, hp2, hinv2, hf2⟩ := ih (idx + 1) (by omega) e1 w1 i1 _ rest wf i_f hs1 hp1
      (by rw [hf1 _ (by decide), hne _ (by decide), htk]) (by rw [hf1 _ (by decide), hne _ (by decide), hcards])
      hinv1 hrest htp1
    refine ⟨e2, cardOps w message (Int.ofNat k = 1 ∧ Int.ofNat idx = 0) (cardsMsg "Dummy".toList (deal w.base.dummy)) ++ ops,
      ?_, ?_, ?_, hp2, hinv2, ?_⟩
    · rw [natItems_succ, mb_forF_cons _ _ _ _ e1 _ _ h1, h2]
    · refine encMainActs_append encRec _ _ _ _ ?_ hops
      rw [cardOps_eq hinv, hinv.2.2]
      exact encMainActs_card encRec _ _ _ _ _
    · rw [hs2, List.append_assoc]
    · have hf0 : Frame loopVars env (update env n_i (.int (Int.ofNat idx))) :=
        Frame.update (Frame.refl _ _) _ _ (by decide)
      exact (hf0.trans (hf1.mono (by decide))).trans hf2

/-! ## one trick -/

def mbTrickHead : List Stmt := mbTrickBody.take 2
theorem mbTrickBody_eq : mbTrickBody = mbTrickHead ++ [mbLeaderLoop, mbCardLoop] := rfl

theorem mb_cardLoop_stmt (f : Nat) (env : Env) :
    execStmtF (mkRec P (f+2)) P env mbCardLoop = forF (mkRec P (f+2)) [n_i] mbCardBody env (natItems 0 4) := rfl

theorem mb_trick_head (f : Nat) (env : Env) (i : Seat → List Str) (out : List Val) (table : Val) (tables : List Val)
    (more : List (Val × Val)) (bs : Val) (c : Contract) (w : WithHands)
    (hself : lookup env K.self = some (encMainThread (encMainWorld i out table tables more) bs))
    (hpe : lookup env n_playing_env = some (encWithHands c w)) :
    ∃ env', execF (mkRec P (f+30)) P env mbTrickHead = .ok (env', .next) ∧
      lookup env' K.self = some (encMainThread (encMainWorld i (out ++ [opSleep]) table tables more) bs) ∧
      lookup env' n_leader = some (encSeat w.base.leader) ∧
      Frame [K.self, n_leader] env env' := by
  simp only [encMainThread] at hself ⊢
  refine ⟨?_, ?_, ?_, ?_, ?_⟩
  rotate_left
  · simp only [mbTrickHead, mbTrickBody, m_MainThread_playing_phase, List.getD_cons_zero, List.getD_cons_succ, List.take]
    mbsimp [hself, hpe]
    try rfl
  · lk_tac
  · lk_tac
  · frame_tac

/-- the variables one trick may write -/
def trickVars : List Id := n_leader :: loopVars

theorem mb_trick (encRec : BoardRecord → Val) (f : Nat) (decl : Seat) (c : Contract) (deal : Seat → List Card)
    (table : Val) (tables : List Val) (more : List (Val × Val)) (bs : Val) (k : Nat)
    (hok : ∀ c ∈ deal decl.partner, 2 ≤ c.rank ∧ c.rank ≤ 14)
    (env : Env) (w : WithHands) (i : MainIn) (out : List Val) (t : MainActs) (w' : WithHands) (i' : MainIn)
    (hself : lookup env K.self = some (encMainThread (encMainWorld i out table tables more) bs))
    (hpe : lookup env n_playing_env = some (encWithHands c w))
    (htk : lookup env n_trick_num = some (.int (Int.ofNat k)))
    (hcards : lookup env n_cards = some (.dict (handsKvs deal)))
    (hinv : MInv decl w)
    (hr : mainTrickR decl (cardsMsg "Dummy".toList (deal decl.partner)) (k = 1) 0 w i = some (t, w', i'))
    (htp : TrickParses decl 4 w i) :
    ∃ env' tops, execF (mkRec P (f+72)) P env mbTrickBody = .ok (env', .next) ∧
      encMainActs encRec t = some tops ∧
      lookup env' K.self = some (encMainThread (encMainWorld i'
        (out ++ (opSleep :: opsPutAll w.base.leader.formal ++ tops)) table tables more) bs) ∧
      lookup env' n_playing_env = some (encWithHands c w') ∧
      MInv decl w' ∧ Frame trickVars env env' := by
  obtain ⟨e1, h1, hs1, hl1, hf1⟩ := mb_trick_head (f+42) env i out table tables more bs c w hself hpe
  have h1' : execF (mkRec P (f+72)) P env mbTrickHead = .ok (e1, .next) := h1
  obtain ⟨e2, h2, hs2, hf2⟩ := mb_loop_leader (f+42) e1 i _ table tables more bs _ hs1 hl1
  have h2' : execStmtF (mkRec P (f+72)) P e1 mbLeaderLoop = .ok (e2, .next) := h2
  obtain ⟨e3, tops, h3, hops, hs3, hp3, hinv3, hf3⟩ := mb_cards_loop encRec (f+1) decl c deal table tables more bs k hok
    4 0 rfl e2 w i _ t w' i' hs2 (by rw [hf2 _ (by decide), hf1 _ (by decide), hpe])
    (by rw [hf2 _ (by decide), hf1 _ (by decide), htk]) (by rw [hf2 _ (by decide), hf1 _ (by decide), hcards]) hinv hr htp
  have h3' : execStmtF (mkRec P (f+72)) P e2 mbCardLoop = .ok (e3, .next) := by
    rw [mb_cardLoop_stmt (f+70) e2]; exact h3
  refine ⟨e3, tops, ?_, hops, ?_, hp3, hinv3, ?_⟩
  · rw [mbTrickBody_eq, mb_execF_append _ _ _ _ _ h1', mb_execF_cons _ _ _ _ _ h2', mb_execF_cons _ _ _ _ _ h3']; rfl
  · rw [hs3]; simp only [List.append_assoc, List.cons_append, List.nil_append]
  · exact ((hf1.mono (by decide)).trans (hf2.mono (by decide))).trans (hf3.mono (by decide))

/-! ## thirteen tricks -/

def mbTricksLoop : Stmt := m_MainThread_playing_phase.body.getD 2 .pass

theorem mb_tricksLoop_stmt (f : Nat) (env : Env) :
    execStmtF (mkRec P (f+2)) P env mbTricksLoop
      = forF (mkRec P (f+2)) [n_trick_num] mbTrickBody env (natItems 1 13) := rfl

/-- THE EXPECTED OPERATIONS of `n` tricks from trick number `k` on: per trick the `sleep` of `time.sleep(1)`, the leader's
name to the four seats, then the rendering of the model's actions for the four cards -/
def tricksOpsS (encRec : BoardRecord → Val) (decl : Seat) (dm : Text) : Nat → Nat → WithHands → MainIn → Option (List Val)
  | 0, _, _, _ => some []
  | n + 1, k, w, i =>
    match mainTrickR decl dm (k = 1) 0 w i with
    | none => none
    | some (t, w', i') =>
      match encMainActs encRec t, tricksOpsS encRec decl dm n (k + 1) w' i' with
      | some tops, some rest => some (opSleep :: opsPutAll w.base.leader.formal ++ tops ++ rest)
      | _, _ => none

/-- … of the whole `playing_phase`: declarer's name to the four seats, then the thirteen tricks -/
def playingOpsS (encRec : BoardRecord → Val) (decl : Seat) (dm : Text) (w0 : WithHands) (i : MainIn) : Option (List Val) :=
  (tricksOpsS encRec decl dm 13 1 w0 i).map (opsPutAll decl.formal ++ ·)

/-- remove the `sleep` operations -/
def stripSleep (ops : List Val) : List Val := ops.filter fun v => !v.beq opSleep

theorem stripSleep_append (a b : List Val) : stripSleep (a ++ b) = stripSleep a ++ stripSleep b :=
  List.filter_append ..

theorem stripSleep_sleep (l : List Val) : stripSleep (opSleep :: l) = stripSleep l := by
  have : opSleep.beq opSleep = true := by simp [opSleep, vstr, Val.beq, beqL]
  simp only [stripSleep, List.filter_cons, this, Bool.not_true, Bool.false_eq_true, if_false]

theorem encMainAct_no_sleep (encRec : BoardRecord → Val) (a : SAct Text LogOp) (x : List Val)
    (h : encMainAct encRec a = some x) : stripSleep x = x := by
  cases a with
  | send ch m =>
    cases ch <;> simp only [encMainAct, Option.some.injEq, reduceCtorEq] at h
    subst h
    simp [stripSleep, opSleep, vstr, Val.beq, beqL]
  | recv ch =>
    cases ch <;> simp only [encMainAct, Option.some.injEq, reduceCtorEq] at h
    subst h
    simp [stripSleep, opSleep, vstr, Val.beq, beqL]
  | emit o =>
    cases o <;> simp only [encMainAct, Option.some.injEq] at h <;> subst h <;>
      simp [stripSleep, opSleep, vstr, Val.beq, beqL]
  | arrive =>
    simp only [encMainAct, Option.some.injEq] at h; subst h
    simp [stripSleep, opSleep, vstr, Val.beq, beqL]
  | depart =>
    simp only [encMainAct, Option.some.injEq] at h; subst h; rfl

theorem encMainActs_no_sleep (encRec : BoardRecord → Val) (acts : List (SAct Text LogOp)) (ops : List Val)
    (h : encMainActs encRec acts = some ops) : stripSleep ops = ops := by
  induction acts generalizing ops with
  | nil => simp only [encMainActs, Option.some.injEq] at h; subst h; rfl
  | cons a r ih =>
    simp only [encMainActs, Option.bind_eq_bind, Option.pure_def] at h
    cases hx : encMainAct encRec a with
    | none => simp [hx] at h
    | some vx =>
      cases hr : encMainActs encRec r with
      | none => simp [hx, hr] at h
      | some vr =>
        simp only [hx, hr, Option.bind_some, Option.some.injEq] at h
        subst h
        rw [stripSleep_append, encMainAct_no_sleep encRec a vx hx, ih vr hr]

theorem tricks_succ (decl : Seat) (dm : Text) (n k : Nat) (w : WithHands) (i : MainIn) :
    mainPlayingR.tricks decl dm (n + 1) k w i =
      match mainTrickR decl dm (k = 1) 0 w i with
      | none => none
      | some (t, w', i') =>
        match mainPlayingR.tricks decl dm n (k + 1) w' i' with
        | none => none
        | some (rest, wf, i_f) => some (putAll w.base.leader.formal ++ t ++ rest, wf, i_f) := by
  rw [mainPlayingR.tricks]
  cases mainTrickR decl dm (k = 1) 0 w i with
  | none => rfl
  | some x =>
    obtain ⟨t, w', i'⟩ := x
    simp only [Option.bind_eq_bind, Option.bind_some, Option.pure_def]
    cases mainPlayingR.tricks decl dm n (k + 1) w' i' with
    | none => rfl
    | some y => rfl

theorem mb_tricks_loop (encRec : BoardRecord → Val) (f : Nat) (decl : Seat) (c : Contract) (deal : Seat → List Card)
    (table : Val) (tables : List Val) (more : List (Val × Val)) (bs : Val)
    (hok : ∀ c ∈ deal decl.partner, 2 ≤ c.rank ∧ c.rank ≤ 14) :
    ∀ (n k : Nat) (env : Env) (w : WithHands) (i : MainIn) (out : List Val) (ts : MainActs)
      (wf : WithHands) (i_f : MainIn),
      lookup env K.self = some (encMainThread (encMainWorld i out table tables more) bs) →
      lookup env n_playing_env = some (encWithHands c w) →
      lookup env n_cards = some (.dict (handsKvs deal)) →
      MInv decl w →
      mainPlayingR.tricks decl (cardsMsg "Dummy".toList (deal decl.partner)) n k w i = some (ts, wf, i_f) →
      PlayParses decl (cardsMsg "Dummy".toList (deal decl.partner)) n k w i →
      ∃ env' opsS, forF (mkRec P (f+73)) [n_trick_num] mbTrickBody env (natItems k n) = .ok (env', .next) ∧
        tricksOpsS encRec decl (cardsMsg "Dummy".toList (deal decl.partner)) n k w i = some opsS ∧
        encMainActs encRec ts = some (stripSleep opsS) ∧
        lookup env' K.self = some (encMainThread (encMainWorld i_f (out ++ opsS) table tables more) bs) ∧
        lookup env' n_playing_env = some (encWithHands c wf) ∧
        Frame (n_trick_num :: trickVars) env env' := by
  intro n
  induction n with
  | zero =>
    intro k env w i out ts wf i_f hself hpe hcards hinv hr _
    simp only [mainPlayingR.tricks, Option.some.injEq, Prod.mk.injEq] at hr
    obtain ⟨rfl, rfl, rfl⟩ := hr
    exact ⟨env, [], rfl, rfl, rfl, by rw [hself, List.append_nil], hpe, Frame.refl _ _⟩
  | succ n ih =>
    intro k env w i out ts wf i_f hself hpe hcards hinv hr hpp
    rw [tricks_succ] at hr
    simp only [PlayParses] at hpp
    obtain ⟨htp, hpp1⟩ := hpp
    cases ht : mainTrickR decl (cardsMsg "Dummy".toList (deal decl.partner)) (k = 1) 0 w i with
    | none => rw [ht] at hr; cases hr
    | some x =>
      obtain ⟨t, w1, i1⟩ := x
      rw [ht] at hr hpp1
      simp only at hr hpp1
      cases hrs : mainPlayingR.tricks decl (cardsMsg "Dummy".toList (deal decl.partner)) n (k + 1) w1 i1 with
      | none => rw [hrs] at hr; cases hr
      | some y =>
        obtain ⟨rest, wf', i_f'⟩ := y
        rw [hrs] at hr
        simp only [Option.some.injEq, Prod.mk.injEq] at hr
        obtain ⟨rfl, rfl, rfl⟩ := hr
        have hne : ∀ y, n_trick_num ≠ y → lookup (update env n_trick_num (.int (Int.ofNat k))) y = lookup env y :=
          fun y hy => lookup_update_ne _ _ _ _ hy
        obtain ⟨e1, tops, h1, htops, hs1, hp1, hinv1, hf1⟩ := mb_trick encRec f decl c deal table tables more bs k hok
          (update env n_trick_num (.int (Int.ofNat k))) w i out t w1 i1 (by rw [hne _ (by decide), hself])
          (by rw [hne _ (by decide), hpe]) (lookup_update_same _ _ _) (by rw [hne _ (by decide), hcards]) hinv ht htp
        obtain ⟨e2, opsR, h2, hopsR, hstrip, hs2, hp2, hf2⟩ := ih (k + 1) e1 w1 i1 _ rest wf' i_f' hs1 hp1
          (by rw [hf1 _ (by decide), hne _ (by decide), hcards]) hinv1 hrs hpp1
        refine ⟨e2, opSleep :: opsPutAll w.base.leader.formal ++ tops ++ opsR, ?_, ?_, ?_, ?_, hp2, ?_⟩
        · rw [natItems_succ, mb_forF_cons _ _ _ _ e1 _ _ h1, h2]
        · simp only [tricksOpsS, ht, htops, hopsR]
        · have hl := encMainActs_putAll encRec w.base.leader.formal
          have h12 := encMainActs_append encRec _ _ _ _ (encMainActs_append encRec _ _ _ _ hl htops) hstrip
          rw [h12]
          have e : opSleep :: opsPutAll w.base.leader.formal ++ tops ++ opsR
              = opSleep :: (opsPutAll w.base.leader.formal ++ tops ++ opsR) := rfl
          rw [e, stripSleep_sleep, stripSleep_append, stripSleep_append, encMainActs_no_sleep encRec _ _ hl,
            encMainActs_no_sleep encRec _ _ htops]
        · rw [hs2]; simp only [List.append_assoc, List.cons_append, List.nil_append]
        · have hf0 : Frame (n_trick_num :: trickVars) env (update env n_trick_num (.int (Int.ofNat k))) :=
            Frame.update (Frame.refl _ _) _ _ (by decide)
          exact (hf0.trans (hf1.mono (by decide))).trans hf2

/-! ## the whole method -/

def mbNew : Stmt := m_MainThread_playing_phase.body.getD 0 .pass
def mbTail : List Stmt := m_MainThread_playing_phase.body.drop 3
theorem mbBody_eq : m_MainThread_playing_phase.body = mbNew :: mbDeclLoop :: mbTricksLoop :: mbTail := rfl

theorem mb_new (f : Nat) (env : Env) (c : Contract) (deal : Seat → List Card) (w0 : WithHands)
    (hc : lookup env n_contract = some (encContract c))
    (hcards : lookup env n_cards = some (.dict (handsKvs deal)))
    (hw0 : WithHands.init c deal = some w0) :
    execStmtF (mkRec P (f+60)) P env mbNew = .ok (update env n_playing_env (encWithHands c w0), .next) := by
  have hi := with_hands_init_call (f+8) c deal
  rw [show f + 8 + 50 = f + 58 from rfl] at hi
  simp only [WithHands.init, init_eq] at hw0
  cases hb : c.finalBid with
  | none => rw [hb] at hw0; cases hw0
  | some b =>
    cases hd : c.declarer with
    | none => rw [hb, hd] at hw0; cases hw0
    | some d =>
      rw [hb, hd] at hw0 hi
      simp only [Option.map_some, Option.some.injEq] at hw0 hi
      subst hw0
      simp only [mbNew, m_MainThread_playing_phase, List.getD_cons_zero]
      mbsimp [hc, hcards, mb_construct_wh, hi]

theorem minv_init (c : Contract) (deal : Seat → List Card) (w0 : WithHands) (decl : Seat)
    (hw0 : WithHands.init c deal = some w0) (hdecl : c.declarer = some decl) : MInv decl w0 := by
  refine ⟨wf_with_hands_init c deal w0 hw0, ?_, ?_⟩
  all_goals
    simp only [WithHands.init, init_eq, hdecl] at hw0
    cases hb : c.finalBid with
    | none => rw [hb] at hw0; cases hw0
    | some b =>
      rw [hb] at hw0
      simp only [Option.map_some, Option.some.injEq] at hw0
      subst hw0
      rfl

/-- the tricks of declarer's side, as `recordFrom` counts them -/
def declTricks (decl : Seat) (w : WithHands) : Nat :=
  match decl.side with | .NS => w.base.takenNS | .EW => w.base.takenEW

theorem mb_tail (f : Nat) (env : Env) (c : Contract) (w : WithHands) (decl : Seat)
    (hc : lookup env n_contract = some (encContract c))
    (hpe : lookup env n_playing_env = some (encWithHands c w))
    (hdecl : c.declarer = some decl) :
    execF (mkRec P (f+30)) P env mbTail
      = .ok (env, .ret (.tuple [encHistory c w.base.history, .int (declTricks decl w)])) := by
  simp only [mbTail, m_MainThread_playing_phase, List.drop]
  mbsimp [hc, hpe, getAttr_contract_declarer, hdecl, beq_encSeat_none, getAttr_pair, lookup_taken, declTricks]
  cases decl.side <;> rfl

theorem mainPlayingR_eq (decl : Seat) (dm : Text) (w0 : WithHands) (i : MainIn) :
    mainPlayingR decl dm w0 i =
      match mainPlayingR.tricks decl dm 13 1 w0 i with
      | none => none
      | some (ts, w, i') => some (putAll decl.formal ++ ts, w, i') := by
  rw [mainPlayingR]
  cases mainPlayingR.tricks decl dm 13 1 w0 i with
  | none => rfl
  | some x => rfl

theorem mb_playing_call (encRec : BoardRecord → Val) (f : Nat) (contract : Contract) (deal : Seat → List Card)
    (decl : Seat) (w0 w : WithHands) (i i' : MainIn) (acts : MainActs) (out : List Val) (table : Val)
    (tables : List Val) (more : List (Val × Val)) (bs : Val)
    (hw0 : WithHands.init contract deal = some w0)
    (hdecl : contract.declarer = some decl)
    (hr : mainPlayingR decl (cardsMsg "Dummy".toList (deal decl.partner)) w0 i = some (acts, w, i'))
    (hpp : PlayParses decl (cardsMsg "Dummy".toList (deal decl.partner)) 13 1 w0 i)
    (hok : ∀ c ∈ deal decl.partner, 2 ≤ c.rank ∧ c.rank ≤ 14) :
    ∃ opsS, playingOpsS encRec decl (cardsMsg "Dummy".toList (deal decl.partner)) w0 i = some opsS ∧
      encMainActs encRec acts = some (stripSleep opsS) ∧
      callF (mkRec P (f+79)) m_MainThread_playing_phase
          [encMainThread (encMainWorld i out table tables more) bs, encContract contract, .dict (handsKvs deal)]
        = .ok (.tuple [encHistory contract w.base.history, .int (declTricks decl w)],
               encMainThread (encMainWorld i' (out ++ opsS) table tables more) bs) := by
  rw [mainPlayingR_eq] at hr
  cases hts : mainPlayingR.tricks decl (cardsMsg "Dummy".toList (deal decl.partner)) 13 1 w0 i with
  | none => rw [hts] at hr; cases hr
  | some x =>
    obtain ⟨ts, wf, i_f⟩ := x
    rw [hts] at hr
    simp only [Option.some.injEq, Prod.mk.injEq] at hr
    obtain ⟨rfl, rfl, rfl⟩ := hr
    let env0 : Env := [(K.self, encMainThread (encMainWorld i out table tables more) bs), (n_contract, encContract contract),
      (n_cards, .dict (handsKvs deal))]
    have h0 := mb_new (f+18) env0 contract deal w0 rfl rfl hw0
    have h0' : execStmtF (mkRec P (f+78)) P env0 mbNew = .ok (update env0 n_playing_env (encWithHands contract w0), .next) := h0
    have hinv0 := minv_init contract deal w0 decl hw0 hdecl
    obtain ⟨e1, h1, hs1, hf1⟩ := mb_loop_decl (f+48) (update env0 n_playing_env (encWithHands contract w0)) i out table
      tables more bs contract w0 rfl rfl
    have h1' : execStmtF (mkRec P (f+78)) P (update env0 n_playing_env (encWithHands contract w0)) mbDeclLoop
        = .ok (e1, .next) := h1
    rw [hinv0.2.1] at hs1
    obtain ⟨e2, opsT, h2, hopsT, hstrip, hs2, hp2, hf2⟩ := mb_tricks_loop encRec (f+5) decl contract deal table tables more bs
      hok 13 1 e1 w0 i _ ts wf i_f hs1 (by rw [hf1 _ (by decide)]; rfl) (by rw [hf1 _ (by decide)]; rfl) hinv0 hts hpp
    have h2' : execStmtF (mkRec P (f+78)) P e1 mbTricksLoop = .ok (e2, .next) := by
      rw [mb_tricksLoop_stmt (f+76) e1]; exact h2
    have hc2 : lookup e2 n_contract = some (encContract contract) := by
      rw [hf2 _ (by decide), hf1 _ (by decide)]; rfl
    have h3 := mb_tail (f+48) e2 contract wf decl hc2 hp2 hdecl
    have h3' : execF (mkRec P (f+78)) P e2 mbTail
        = .ok (e2, .ret (.tuple [encHistory contract wf.base.history, .int (declTricks decl wf)])) := h3
    refine ⟨opsPutAll decl.formal ++ opsT, ?_, ?_, ?_⟩
    · simp only [playingOpsS, hopsT, Option.map_some]
    · have hl := encMainActs_putAll encRec decl.formal
      rw [encMainActs_append encRec _ _ _ _ hl hstrip, stripSleep_append, encMainActs_no_sleep encRec _ _ hl]
    · rw [callF_def]
      have hb : (mkRec P (f+79)).exec env0 m_MainThread_playing_phase.body
          = .ok (e2, .ret (.tuple [encHistory contract wf.base.history, .int (declTricks decl wf)])) := by
        rw [exec_succ, mbBody_eq, mb_execF_cons _ _ _ _ _ h0', mb_execF_cons _ _ _ _ _ h1', mb_execF_cons _ _ _ _ _ h2', h3']
      have hparams : bindParams m_MainThread_playing_phase.params m_MainThread_playing_phase.defaults
          [encMainThread (encMainWorld i out table tables more) bs, encContract contract, .dict (handsKvs deal)]
          = some env0 := rfl
      rw [hparams]
      simp only [hb, bind_ok]
      have hp : m_MainThread_playing_phase.params = [K.self, n_contract, n_cards] := rfl
      rw [hp]
      simp only [hs2, Option.getD_some, List.append_assoc]

end Bridge.Translated.MainB
