import BridgeVerif.Translated.ThreadsEnc
import BridgeVerif.Translated.PlayLemmasB
import BridgeVerif.Lemmas.MiniPyFuel
/-!
# The framing methods AS TRANSLATED (class `Framing` of Generated/PyCoreThreads.lean)

`Framing.send_message` / `Framing.receive_message` are `MessageInterface.send_message` / `receive_message` of
`socket_interface.py` after the desugaring pass: the socket is the world object `self._w` (`w_sendall` appends
`("sendall", text)` to `out`; `w_recv1` takes the next CHARACTER of the stream under the key "bytes", returns `''` when
the stream is empty and `eof` is set, raises `Blocked` when it is empty and `eof` is not set).  Everything below is about
the generated `FuncDef`s `m_Framing_*` / `m__World_*` run by the MiniPy interpreter on `P`, for EVERY fuel from an explicit
bound on (`m.length + 12` for a receive that reads the CR-free text `m`; 6 for a send):

* (1) `framing_send_translated`      — `send_message(msg)` appends `("sendall", msg ++ "\r\n")` to `out`, returns `None`
* (2) `framing_recv_translated`      — on `m ++ "\r\n" ++ rest` (`m` CR-free) returns `m`, leaves `rest`
* (3) `framing_recv_bad_terminator`  — on `m ++ "\r" ++ c :: rest`, `c ≠ '\n'`: `Exception`
* (4) `framing_recv_eof`             — closed stream: `m` ↦ `ConnectionError`, `m ++ "\r"` ↦ `Exception`
* (5) `framing_recv_blocked`         — open stream that is empty for now: `m` and `m ++ "\r"` ↦ `Blocked`
* (6) `framing_stream_translated`    — `msgs.length` successive calls (`recvN`) return `msgs` and leave `rest`
* (7) `framing_recv_model`           — for ASCII text and a closed stream the translated reader IS `Bridge.recvOne (.body [])`
  of Model/Framing.lean on the bytes
* `framing_send_runMethod`, `framing_recv_runMethod` — the same through `Program.runMethod` (fuel `topFuel`)

Method: the world methods and ONE turn of the `while True` loop by symbolic execution (`ppsimp`) at the fuel `f + const`;
the loop by induction over the CR-free prefix (one level of fuel per turn, `tf_loop_prefix`); the statements "for every
fuel ≥ bound" by writing the fuel as `bound + k` (`tf_fuel_split`) — no appeal to monotonicity is needed.
-/
set_option maxRecDepth 4000
namespace Bridge.Translated
open Bridge Bridge.Py Bridge.Generated.PyCore

/-- the characters still to arrive, as the world holds them -/
def tfChars (cs : Str) : List Val := cs.map fun c => .str [c]

theorem tf_encByteWorld (cs : Str) (out : List Val) (eof : Bool) :
    encByteWorld cs out eof = .obj n__World [(n_ins, .dict [(.str ['b','y','t','e','s'], .tuple (tfChars cs))]),
      (n_out, .tuple out), (n_table, .dict []), (n_tables, .tuple []), (n_eof, .bool eof)] := rfl

theorem tf_mth_recv1 : P.method? classDepth n__World n_w_recv1 = some (n__World, m__World_w_recv1) := rfl
theorem tf_mth_sendall : P.method? classDepth n__World n_w_sendall = some (n__World, m__World_w_sendall) := rfl

theorem tf_len_tuple (r : Rec) (xs : List Val) : builtinF r P .len [.tuple xs] = .ok (.int (Int.ofNat xs.length)) := rfl

theorem tf_len_beq_zero (n : Nat) : (Val.int (Int.ofNat (n+1))).beq (.int 0) = false := by
  simp only [Val.beq]
  rw [Bool.eq_iff_iff]; simp only [beq_iff_eq, Int.ofNat_eq_natCast, Bool.false_eq_true, iff_false]; omega
theorem tf_len0_beq_zero : (Val.int (Int.ofNat 0)).beq (.int 0) = true := by simp [Val.beq]
theorem tf_beq_bytes : (Val.str ['b','y','t','e','s']).beq (.str ['b','y','t','e','s']) = true := by simp [Val.beq]
theorem tf_index0 (r : Rec) (x : Val) (xs : List Val) : indexF r P (.tuple (x :: xs)) (.int 0) = .ok x := rfl
theorem tf_slice1 {α} (x : α) (xs : List α) : sliceList (x :: xs) (some 1) none = xs := by
  simp only [sliceList, clampIndex, List.length_cons]
  have : (0:Int) ≤ 1 := by decide
  simp only [this, if_true]
  rw [show (1 : Int).toNat = 1 from rfl, Nat.min_eq_left (by omega)]
  simp only [List.drop_succ_cons, List.drop_zero, Nat.add_sub_cancel]
  exact List.take_of_length_le (Nat.le_refl _)

theorem tf_recv1_cons (f : Nat) (c : Char) (cs : Str) (out : List Val) (eof : Bool) :
    callF (mkRec P (f+6)) m__World_w_recv1 [encByteWorld (c :: cs) out eof]
      = .ok (.str [c], encByteWorld cs out eof) := by
  rw [callF_def]
  simp only [tf_encByteWorld, m__World_w_recv1, bindParams, Option.map, tfChars, List.map_cons]
  ppsimp [tf_len_tuple, lookupD, updateD, tf_beq_bytes, tf_len_beq_zero, tf_index0, tf_slice1]

theorem tf_recv1_nil_eof (f : Nat) (out : List Val) :
    callF (mkRec P (f+6)) m__World_w_recv1 [encByteWorld [] out true]
      = .ok (.str [], encByteWorld [] out true) := by
  rw [callF_def]
  simp only [tf_encByteWorld, m__World_w_recv1, bindParams, Option.map, tfChars, List.map_nil]
  ppsimp [tf_len_tuple, lookupD, updateD, tf_beq_bytes, tf_len0_beq_zero]

theorem tf_recv1_nil_blocked (f : Nat) (out : List Val) :
    callF (mkRec P (f+6)) m__World_w_recv1 [encByteWorld [] out false] = .error (.exc n_Blocked) := by
  rw [callF_def]
  simp only [tf_encByteWorld, m__World_w_recv1, bindParams, Option.map, tfChars, List.map_nil]
  ppsimp [tf_len_tuple, lookupD, updateD, tf_beq_bytes, tf_len0_beq_zero]

theorem tf_meth_recv1_cons (f : Nat) (c : Char) (cs : Str) (out : List Val) (eof : Bool) :
    methF (mkRec P (f+7)) P (encByteWorld (c :: cs) out eof) n_w_recv1 []
      = .ok (.str [c], encByteWorld cs out eof) := tf_recv1_cons f c cs out eof
theorem tf_meth_recv1_nil_eof (f : Nat) (out : List Val) :
    methF (mkRec P (f+7)) P (encByteWorld [] out true) n_w_recv1 []
      = .ok (.str [], encByteWorld [] out true) := tf_recv1_nil_eof f out
theorem tf_meth_recv1_nil_blocked (f : Nat) (out : List Val) :
    methF (mkRec P (f+7)) P (encByteWorld [] out false) n_w_recv1 [] = .error (.exc n_Blocked) :=
  tf_recv1_nil_blocked f out

/-! ## `send_message` -/
theorem tf_sendall_call (f : Nat) (cs : Str) (out : List Val) (eof : Bool) (t : Val) :
    callF (mkRec P (f+3)) m__World_w_sendall [encByteWorld cs out eof, t]
      = .ok (.none, encByteWorld cs (out ++ [.tuple [vstr "sendall", t]]) eof) := by
  rw [callF_def]
  simp only [tf_encByteWorld, m__World_w_sendall, bindParams, Option.map]
  ppsimp []
  rfl

theorem tf_meth_sendall (f : Nat) (cs : Str) (out : List Val) (eof : Bool) (t : Val) :
    methF (mkRec P (f+4)) P (encByteWorld cs out eof) n_w_sendall [t]
      = .ok (.none, encByteWorld cs (out ++ [.tuple [vstr "sendall", t]]) eof) := tf_sendall_call f cs out eof t

theorem tf_send_call (f : Nat) (cs : Str) (out : List Val) (eof : Bool) (msg : Str) :
    callF (mkRec P (f+5)) m_Framing_send_message [encFraming (encByteWorld cs out eof), .str msg]
      = .ok (.none, encFraming (encByteWorld cs (out ++ [.tuple [vstr "sendall", .str (msg ++ ['\r', '\n'])]]) eof)) := by
  rw [callF_def]
  simp only [m_Framing_send_message, bindParams, Option.map, encFraming]
  ppsimp [strOfF, tf_meth_sendall, List.flatten_cons, List.flatten_nil, List.append_nil]

/-! ## `receive_message`: the body of the `while True` loop -/
def tfCond : Expr := match m_Framing_receive_message.body.getD 1 .pass with
  | .while c _ => c
  | _ => default
def tfBody : List Stmt := match m_Framing_receive_message.body.getD 1 .pass with
  | .while _ b => b
  | _ => []

/-- the environment inside the loop -/
def tfEnv (cs : Str) (out : List Val) (eof : Bool) (acc : Str) (tail : Env) : Env :=
  (K.self, encFraming (encByteWorld cs out eof)) :: (n_byte_message, .str acc) :: tail

theorem tf_beq_str1_nil (c : Char) : (Val.str [c]).beq (.str []) = false := by simp [Val.beq]
theorem tf_beq_nil_nil : (Val.str []).beq (.str []) = true := by simp [Val.beq]
theorem tf_beq_nil_str1 (c : Char) : (Val.str []).beq (.str [c]) = false := by simp [Val.beq]
theorem tf_beq_str1 (c d : Char) : (Val.str [c]).beq (.str [d]) = decide (c = d) := by
  simp only [Val.beq]
  rw [Bool.eq_iff_iff]; simp

theorem tf_turn_char (f : Nat) (c : Char) (hc : c ≠ '\r') (cs : Str) (out : List Val) (eof : Bool) (acc : Str) (tail : Env) :
    execF (mkRec P (f+8)) P (tfEnv (c :: cs) out eof acc tail) tfBody
      = .ok (tfEnv cs out eof (acc ++ [c]) (update tail n_c (.str [c])), .next) := by
  simp only [tfBody, tfEnv, m_Framing_receive_message, List.getD_cons_succ, List.getD_cons_zero, encFraming]
  ppsimp [tf_meth_recv1_cons, tf_beq_str1_nil, tf_beq_str1, hc]

theorem tf_turn_crlf (f : Nat) (rest : Str) (out : List Val) (eof : Bool) (acc : Str) (tail : Env) :
    execF (mkRec P (f+8)) P (tfEnv ('\r' :: '\n' :: rest) out eof acc tail) tfBody
      = .ok (tfEnv rest out eof acc (update (update tail n_c (.str ['\r'])) n_s (.str ['\n'])), .brk) := by
  simp only [tfBody, tfEnv, m_Framing_receive_message, List.getD_cons_succ, List.getD_cons_zero, encFraming]
  ppsimp [tf_meth_recv1_cons, tf_beq_str1_nil, tf_beq_str1]

theorem tf_turn_cr_bad (f : Nat) (c : Char) (hc : c ≠ '\n') (rest : Str) (out : List Val) (eof : Bool) (acc : Str)
    (tail : Env) :
    execF (mkRec P (f+8)) P (tfEnv ('\r' :: c :: rest) out eof acc tail) tfBody = .error (.exc K.Exception) := by
  simp only [tfBody, tfEnv, m_Framing_receive_message, List.getD_cons_succ, List.getD_cons_zero, encFraming]
  ppsimp [tf_meth_recv1_cons, tf_beq_str1_nil, tf_beq_str1, hc]

theorem tf_turn_cr_eof (f : Nat) (out : List Val) (acc : Str) (tail : Env) :
    execF (mkRec P (f+8)) P (tfEnv ['\r'] out true acc tail) tfBody = .error (.exc K.Exception) := by
  simp only [tfBody, tfEnv, m_Framing_receive_message, List.getD_cons_succ, List.getD_cons_zero, encFraming]
  ppsimp [tf_meth_recv1_cons, tf_meth_recv1_nil_eof, tf_beq_str1_nil, tf_beq_str1, tf_beq_nil_str1]

theorem tf_turn_cr_blocked (f : Nat) (out : List Val) (acc : Str) (tail : Env) :
    execF (mkRec P (f+8)) P (tfEnv ['\r'] out false acc tail) tfBody = .error (.exc n_Blocked) := by
  simp only [tfBody, tfEnv, m_Framing_receive_message, List.getD_cons_succ, List.getD_cons_zero, encFraming]
  ppsimp [tf_meth_recv1_cons, tf_meth_recv1_nil_blocked, tf_beq_str1_nil, tf_beq_str1]

theorem tf_turn_eof (f : Nat) (out : List Val) (acc : Str) (tail : Env) :
    execF (mkRec P (f+8)) P (tfEnv [] out true acc tail) tfBody = .error (.exc n_ConnectionError) := by
  simp only [tfBody, tfEnv, m_Framing_receive_message, List.getD_cons_succ, List.getD_cons_zero, encFraming]
  ppsimp [tf_meth_recv1_nil_eof, tf_beq_nil_nil]

theorem tf_turn_blocked (f : Nat) (out : List Val) (acc : Str) (tail : Env) :
    execF (mkRec P (f+8)) P (tfEnv [] out false acc tail) tfBody = .error (.exc n_Blocked) := by
  simp only [tfBody, tfEnv, m_Framing_receive_message, List.getD_cons_succ, List.getD_cons_zero, encFraming]
  ppsimp [tf_meth_recv1_nil_blocked]

/-! ## the loop -/
theorem tf_cond_eq : tfCond = .const (.bool true) := rfl

/-- one turn of `while True` -/
theorem tf_loop_step (n : Nat) (env : Env) :
    loopF (mkRec P (n+1)) env tfCond tfBody = (execF (mkRec P n) P env tfBody >>= fun x =>
      match x.2 with
      | .brk => .ok (x.1, .next)
      | .ret v => .ok (x.1, .ret v)
      | _ => loopF (mkRec P n) x.1 tfCond tfBody) := by
  rw [loopF, tf_cond_eq]
  simp only [eval_succ, exec_succ, loop_succ, evalF, pure_eq, bind_ok, pp_truthy_bool, if_true]
  cases execF (mkRec P n) P env tfBody with
  | error e => rfl
  | ok x => obtain ⟨e, fl⟩ := x; cases fl <;> rfl

/-- the CR-free prefix `m` of the stream is consumed in `m.length` turns and appended to `byte_message` -/
theorem tf_loop_prefix (k : Nat) (out : List Val) (eof : Bool) : ∀ (m : Str), '\r' ∉ m → ∀ (suffix acc : Str) (tail : Env),
    ∃ tail', loopF (mkRec P (m.length + k + 9)) (tfEnv (m ++ suffix) out eof acc tail) tfCond tfBody
      = loopF (mkRec P (k + 9)) (tfEnv suffix out eof (acc ++ m) tail') tfCond tfBody
  | [], _, suffix, acc, tail => ⟨tail, by simp only [List.length_nil, Nat.zero_add, List.nil_append, List.append_nil]⟩
  | c :: m, h, suffix, acc, tail => by
    have hc : c ≠ '\r' := fun e => h (e ▸ List.mem_cons_self ..)
    have hm : '\r' ∉ m := fun hm => h (List.mem_cons_of_mem _ hm)
    obtain ⟨tail', ih⟩ := tf_loop_prefix k out eof m hm suffix (acc ++ [c]) (update tail n_c (.str [c]))
    refine ⟨tail', ?_⟩
    have e : (c :: m).length + k + 9 = (m.length + k + 9) + 1 := by simp only [List.length_cons]; omega
    rw [e, tf_loop_step, List.cons_append, tf_turn_char _ c hc, bind_ok]
    simp only
    rw [ih, List.append_assoc, List.singleton_append]

/-! ## the call, from the outcome of the loop -/
theorem tf_call_error (n : Nat) (w : Val) (e : Err)
    (h : loopF (mkRec P n) [(K.self, encFraming w), (n_byte_message, .str [])] tfCond tfBody = .error e) :
    callF (mkRec P (n+2)) m_Framing_receive_message [encFraming w] = .error e := by
  rw [callF_def]
  simp only [tfCond, tfBody, m_Framing_receive_message, List.getD_cons_succ, List.getD_cons_zero] at h
  simp only [m_Framing_receive_message, bindParams, Option.map]
  ppsimp [loop_succ, h]

theorem tf_call_ok (n : Nat) (w w' : Val) (m : Str) (tail : Env)
    (h : loopF (mkRec P n) [(K.self, encFraming w), (n_byte_message, .str [])] tfCond tfBody
      = .ok ((K.self, encFraming w') :: (n_byte_message, .str m) :: tail, .next)) :
    callF (mkRec P (n+2)) m_Framing_receive_message [encFraming w] = .ok (.str m, encFraming w') := by
  rw [callF_def]
  simp only [tfCond, tfBody, m_Framing_receive_message, List.getD_cons_succ, List.getD_cons_zero] at h
  simp only [m_Framing_receive_message, bindParams, Option.map]
  ppsimp [loop_succ, h]

/-! ## `receive_message` at the fuel `m.length + k + 11` (`k` arbitrary) -/
theorem tf_recv_call (k : Nat) (m rest : Str) (hm : '\r' ∉ m) (out : List Val) (eof : Bool) :
    callF (mkRec P (m.length + k + 11)) m_Framing_receive_message
        [encFraming (encByteWorld (m ++ '\r' :: '\n' :: rest) out eof)]
      = .ok (.str m, encFraming (encByteWorld rest out eof)) := by
  obtain ⟨tail', hl⟩ := tf_loop_prefix k out eof m hm ('\r' :: '\n' :: rest) [] []
  have h2 := tf_loop_step (k + 8) (tfEnv ('\r' :: '\n' :: rest) out eof ([] ++ m) tail')
  rw [tf_turn_crlf, bind_ok] at h2
  exact tf_call_ok (m.length + k + 9) _ _ m _ (hl.trans h2)

theorem tf_recv_call_bad (k : Nat) (m rest : Str) (hm : '\r' ∉ m) (c : Char) (hc : c ≠ '\n') (out : List Val) (eof : Bool) :
    callF (mkRec P (m.length + k + 11)) m_Framing_receive_message
        [encFraming (encByteWorld (m ++ '\r' :: c :: rest) out eof)]
      = .error (.exc K.Exception) := by
  obtain ⟨tail', hl⟩ := tf_loop_prefix k out eof m hm ('\r' :: c :: rest) [] []
  have h2 := tf_loop_step (k + 8) (tfEnv ('\r' :: c :: rest) out eof ([] ++ m) tail')
  rw [tf_turn_cr_bad _ c hc, bind_err] at h2
  exact tf_call_error (m.length + k + 9) _ _ (hl.trans h2)

theorem tf_recv_call_eof (k : Nat) (m : Str) (hm : '\r' ∉ m) (out : List Val) :
    callF (mkRec P (m.length + k + 11)) m_Framing_receive_message [encFraming (encByteWorld m out true)]
      = .error (.exc n_ConnectionError) := by
  obtain ⟨tail', hl⟩ := tf_loop_prefix k out true m hm [] [] []
  have h2 := tf_loop_step (k + 8) (tfEnv [] out true ([] ++ m) tail')
  rw [tf_turn_eof, bind_err] at h2
  rw [List.append_nil] at hl
  exact tf_call_error (m.length + k + 9) _ _ (hl.trans h2)

theorem tf_recv_call_cr_eof (k : Nat) (m : Str) (hm : '\r' ∉ m) (out : List Val) :
    callF (mkRec P (m.length + k + 11)) m_Framing_receive_message [encFraming (encByteWorld (m ++ ['\r']) out true)]
      = .error (.exc K.Exception) := by
  obtain ⟨tail', hl⟩ := tf_loop_prefix k out true m hm ['\r'] [] []
  have h2 := tf_loop_step (k + 8) (tfEnv ['\r'] out true ([] ++ m) tail')
  rw [tf_turn_cr_eof, bind_err] at h2
  exact tf_call_error (m.length + k + 9) _ _ (hl.trans h2)

theorem tf_recv_call_blocked (k : Nat) (m : Str) (hm : '\r' ∉ m) (out : List Val) :
    callF (mkRec P (m.length + k + 11)) m_Framing_receive_message [encFraming (encByteWorld m out false)]
      = .error (.exc n_Blocked) := by
  obtain ⟨tail', hl⟩ := tf_loop_prefix k out false m hm [] [] []
  have h2 := tf_loop_step (k + 8) (tfEnv [] out false ([] ++ m) tail')
  rw [tf_turn_blocked, bind_err] at h2
  rw [List.append_nil] at hl
  exact tf_call_error (m.length + k + 9) _ _ (hl.trans h2)

theorem tf_recv_call_cr_blocked (k : Nat) (m : Str) (hm : '\r' ∉ m) (out : List Val) :
    callF (mkRec P (m.length + k + 11)) m_Framing_receive_message [encFraming (encByteWorld (m ++ ['\r']) out false)]
      = .error (.exc n_Blocked) := by
  obtain ⟨tail', hl⟩ := tf_loop_prefix k out false m hm ['\r'] [] []
  have h2 := tf_loop_step (k + 8) (tfEnv ['\r'] out false ([] ++ m) tail')
  rw [tf_turn_cr_blocked, bind_err] at h2
  exact tf_call_error (m.length + k + 9) _ _ (hl.trans h2)

/-- every fuel from `n + 1` on is `n + k + 1` -/
theorem tf_fuel_split {n f : Nat} (hf : n + 1 ≤ f) : ∃ k, f = n + k + 1 := ⟨f - (n + 1), by omega⟩

/-! ## THE THEOREMS -/

/-- (1) `send_message(msg)` appends exactly the operation `("sendall", msg + "\r\n")` to `out`, returns `None`, and leaves
the input stream and the end-of-stream flag untouched — for every fuel from 6 on (nothing depends on the length) -/
theorem framing_send_translated (msg cs : Str) (out : List Val) (eof : Bool) (f : Nat) (hf : 6 ≤ f) :
    callFn P f m_Framing_send_message [encFraming (encByteWorld cs out eof), .str msg]
      = .ok (.none, encFraming (encByteWorld cs (out ++ [.tuple [vstr "sendall", .str (msg ++ ['\r', '\n'])]]) eof)) := by
  obtain ⟨k, rfl⟩ := tf_fuel_split (n := 5) hf
  rw [show 5 + k + 1 = (k + 5) + 1 by omega]
  exact tf_send_call k cs out eof msg

example : callFn P 6 m_Framing_send_message [encFraming (encByteWorld "xy".toList [vstr "old"] false), .str "PASS".toList]
    = .ok (.none, encFraming (encByteWorld "xy".toList [vstr "old", .tuple [vstr "sendall", .str "PASS\r\n".toList]] false)) :=
  framing_send_translated "PASS".toList "xy".toList [vstr "old"] false 6 (Nat.le_refl _)

/-- (1'), the same for ANY world (`encWorld`, e.g. a seat thread's): only `out` grows -/
theorem framing_send_translated_world (msg : Str) (ins : List (Val × Val)) (out : List Val) (table : Val)
    (tables : List Val) (eof : Bool) (f : Nat) (hf : 6 ≤ f) :
    callFn P f m_Framing_send_message [encFraming (encWorld ins out table tables eof), .str msg]
      = .ok (.none, encFraming (encWorld ins (out ++ [.tuple [vstr "sendall", .str (msg ++ ['\r', '\n'])]]) table tables eof)) := by
  obtain ⟨k, rfl⟩ := tf_fuel_split (n := 5) hf
  rw [show 5 + k + 1 = (k + 5) + 1 by omega]
  unfold callFn
  rw [call_succ, callF_def]
  simp only [m_Framing_send_message, bindParams, Option.map, encFraming, encWorld]
  ppsimp [strOfF, tf_mth_sendall, callF_def, m__World_w_sendall, List.flatten_cons, List.flatten_nil, List.append_nil]
  rfl

/-- (2) a CR-free message followed by CR LF is returned, and exactly its characters and the terminator are consumed -/
theorem framing_recv_translated (m rest : Str) (out : List Val) (eof : Bool) (hm : '\r' ∉ m)
    (f : Nat) (hf : m.length + 12 ≤ f) :
    callFn P f m_Framing_receive_message [encFraming (encByteWorld (m ++ '\r' :: '\n' :: rest) out eof)]
      = .ok (.str m, encFraming (encByteWorld rest out eof)) := by
  obtain ⟨k, rfl⟩ := tf_fuel_split (n := m.length + 11) hf
  rw [show m.length + 11 + k + 1 = (m.length + k + 11) + 1 by omega]
  exact tf_recv_call k m rest hm out eof

example : callFn P 16 m_Framing_receive_message [encFraming (encByteWorld "PASS\r\nxy".toList [vstr "old"] false)]
    = .ok (.str "PASS".toList, encFraming (encByteWorld "xy".toList [vstr "old"] false)) :=
  framing_recv_translated "PASS".toList "xy".toList [vstr "old"] false (by decide) 16 (by decide)

/-- (3) CR followed by anything but LF: `Exception` -/
theorem framing_recv_bad_terminator (m rest : Str) (c : Char) (out : List Val) (eof : Bool) (hm : '\r' ∉ m) (hc : c ≠ '\n')
    (f : Nat) (hf : m.length + 12 ≤ f) :
    callFn P f m_Framing_receive_message [encFraming (encByteWorld (m ++ '\r' :: c :: rest) out eof)]
      = .error (.exc K.Exception) := by
  obtain ⟨k, rfl⟩ := tf_fuel_split (n := m.length + 11) hf
  rw [show m.length + 11 + k + 1 = (m.length + k + 11) + 1 by omega]
  exact tf_recv_call_bad k m rest hm c hc out eof

example : callFn P 16 m_Framing_receive_message [encFraming (encByteWorld "PASS\rxy".toList [] false)]
    = .error (.exc K.Exception) :=
  framing_recv_bad_terminator "PASS".toList "y".toList 'x' [] false (by decide) (by decide) 16 (by decide)

/-- (4) the peer has closed the connection (`recv(1)` returns `b''`): `ConnectionError` inside a message, `Exception` after
a CR (`b'' != b'\n'`) -/
theorem framing_recv_eof (m : Str) (out : List Val) (hm : '\r' ∉ m) (f : Nat) (hf : m.length + 12 ≤ f) :
    callFn P f m_Framing_receive_message [encFraming (encByteWorld m out true)] = .error (.exc n_ConnectionError) ∧
    callFn P f m_Framing_receive_message [encFraming (encByteWorld (m ++ ['\r']) out true)] = .error (.exc K.Exception) := by
  obtain ⟨k, rfl⟩ := tf_fuel_split (n := m.length + 11) hf
  rw [show m.length + 11 + k + 1 = (m.length + k + 11) + 1 by omega]
  exact ⟨tf_recv_call_eof k m hm out, tf_recv_call_cr_eof k m hm out⟩

example : callFn P 16 m_Framing_receive_message [encFraming (encByteWorld "PASS".toList [] true)]
      = .error (.exc n_ConnectionError) ∧
    callFn P 16 m_Framing_receive_message [encFraming (encByteWorld "PASS\r".toList [] true)]
      = .error (.exc K.Exception) :=
  framing_recv_eof "PASS".toList [] (by decide) 16 (by decide)

/-- (5) the stream is empty for now but not closed: the call blocks (`Blocked`), inside a message as well as after a CR -/
theorem framing_recv_blocked (m : Str) (out : List Val) (hm : '\r' ∉ m) (f : Nat) (hf : m.length + 12 ≤ f) :
    callFn P f m_Framing_receive_message [encFraming (encByteWorld m out false)] = .error (.exc n_Blocked) ∧
    callFn P f m_Framing_receive_message [encFraming (encByteWorld (m ++ ['\r']) out false)] = .error (.exc n_Blocked) := by
  obtain ⟨k, rfl⟩ := tf_fuel_split (n := m.length + 11) hf
  rw [show m.length + 11 + k + 1 = (m.length + k + 11) + 1 by omega]
  exact ⟨tf_recv_call_blocked k m hm out, tf_recv_call_cr_blocked k m hm out⟩

example : callFn P 16 m_Framing_receive_message [encFraming (encByteWorld "PASS".toList [] false)]
      = .error (.exc n_Blocked) ∧
    callFn P 16 m_Framing_receive_message [encFraming (encByteWorld "PASS\r".toList [] false)]
      = .error (.exc n_Blocked) :=
  framing_recv_blocked "PASS".toList [] (by decide) 16 (by decide)

/-! ## (6) a stream of messages -/

/-- `n` successive calls of `receive_message` (each with fuel `f`) on the object `self`: the texts returned, in order, and
the object after the last call; the first exception (or a result that is not a text) ends the iteration -/
def recvN (f : Nat) : Nat → Val → R (List Str × Val)
  | 0, self => .ok ([], self)
  | n + 1, self =>
    match callFn P f m_Framing_receive_message [self] with
    | .ok (.str m, self') =>
      (match recvN f n self' with
       | .ok (ms, self'') => .ok (m :: ms, self'')
       | .error e => .error e)
    | .ok _ => .error (.stuck 0)
    | .error e => .error e

/-- (6) from the stream `msgs.flatMap (· ++ "\r\n") ++ rest` (every message CR-free) `msgs.length` successive calls return
exactly `msgs`, in order, and leave `rest`; `out` and the end-of-stream flag are untouched.  Fuel PER CALL: the longest
message + 12. -/
theorem framing_stream_translated (rest : Str) (out : List Val) (eof : Bool) (f : Nat) :
    ∀ (msgs : List Str), (∀ m ∈ msgs, '\r' ∉ m) → (∀ m ∈ msgs, m.length + 12 ≤ f) →
    recvN f msgs.length (encFraming (encByteWorld (msgs.flatMap (· ++ ['\r', '\n']) ++ rest) out eof))
      = .ok (msgs, encFraming (encByteWorld rest out eof))
  | [], _, _ => rfl
  | m :: msgs, hcr, hf => by
    have ih := framing_stream_translated rest out eof f msgs (fun x hx => hcr x (List.mem_cons_of_mem _ hx))
      (fun x hx => hf x (List.mem_cons_of_mem _ hx))
    have h1 := framing_recv_translated m (msgs.flatMap (· ++ ['\r', '\n']) ++ rest) out eof
      (hcr m (List.mem_cons_self ..)) f (hf m (List.mem_cons_self ..))
    have e : (m :: msgs).flatMap (· ++ ['\r', '\n']) ++ rest
        = m ++ '\r' :: '\n' :: (msgs.flatMap (· ++ ['\r', '\n']) ++ rest) := by
      simp only [List.flatMap_cons, List.append_assoc, List.cons_append, List.nil_append]
    rw [e, List.length_cons, recvN, h1]
    simp only [ih]

/-- a bound in the total length of the stream suffices -/
theorem framing_stream_translated_total (msgs : List Str) (rest : Str) (out : List Val) (eof : Bool)
    (hcr : ∀ m ∈ msgs, '\r' ∉ m) (f : Nat) (hf : (msgs.flatMap (· ++ ['\r', '\n'])).length + 12 ≤ f) :
    recvN f msgs.length (encFraming (encByteWorld (msgs.flatMap (· ++ ['\r', '\n']) ++ rest) out eof))
      = .ok (msgs, encFraming (encByteWorld rest out eof)) := by
  refine framing_stream_translated rest out eof f msgs hcr fun m hm => ?_
  have : m.length ≤ (msgs.flatMap (· ++ ['\r', '\n'])).length := by
    clear hf hcr
    induction msgs with
    | nil => cases hm
    | cons a msgs ih =>
      simp only [List.flatMap_cons, List.length_append]
      rcases List.mem_cons.1 hm with h | h
      · subst h; omega
      · have := ih h; omega
  omega

example : recvN 26 3 (encFraming (encByteWorld "PASS\r\n\r\nNorth bids 1NT\r\nxy".toList [] false))
    = .ok (["PASS".toList, [], "North bids 1NT".toList], encFraming (encByteWorld "xy".toList [] false)) :=
  framing_stream_translated "xy".toList [] false 26 ["PASS".toList, [], "North bids 1NT".toList] (by decide) (by decide)

/-! ## (7) the byte-level model `Bridge.recvOne` (Model/Framing.lean), for ASCII text -/

/-- the UTF-8 encoding of an ASCII character is the one byte with its code -/
def tfByte (c : Char) : Byte := c.toNat.toUInt8
def tfBytes (cs : Str) : List Byte := cs.map fun c => c.toNat.toUInt8

theorem tf_byte_eq (c d : Char) (hc : c.toNat < 128) (hd : d.toNat < 128) : tfByte c = tfByte d ↔ c = d := by
  constructor
  · intro h
    have h' := congrArg UInt8.toNat h
    simp only [tfByte, Nat.toUInt8, UInt8.toNat_ofNat'] at h'
    have e : c.toNat = d.toNat := by omega
    rw [← Char.ofNat_toNat c, ← Char.ofNat_toNat d, e]
  · intro h; rw [h]

theorem tf_byte_cr (c : Char) (hc : c.toNat < 128) : tfByte c = CR ↔ c = '\r' :=
  tf_byte_eq c '\r' hc (by decide)
theorem tf_byte_lf (c : Char) (hc : c.toNat < 128) : tfByte c = LF ↔ c = '\n' :=
  tf_byte_eq c '\n' hc (by decide)

/-- a text without CR is nothing but a CR-free prefix; otherwise it splits at its first CR -/
theorem tf_split_cr : ∀ (cs : Str), '\r' ∉ cs ∨ ∃ m tl, cs = m ++ '\r' :: tl ∧ '\r' ∉ m
  | [] => .inl (by simp)
  | c :: cs => by
    by_cases hc : c = '\r'
    · exact .inr ⟨[], cs, by rw [hc]; rfl, by simp⟩
    · rcases tf_split_cr cs with h | ⟨m, tl, e, hm⟩
      · refine .inl fun hmem => ?_
        rcases List.mem_cons.1 hmem with h' | h'
        · exact hc h'.symm
        · exact h h'
      · refine .inr ⟨c :: m, tl, by rw [e]; rfl, fun hmem => ?_⟩
        rcases List.mem_cons.1 hmem with h' | h'
        · exact hc h'.symm
        · exact hm h'

/-- the model reader runs through a CR-free ASCII prefix, collecting its bytes -/
theorem tf_recvOne_prefix : ∀ (m : Str), (∀ c ∈ m, c.toNat < 128) → '\r' ∉ m → ∀ (acc bs : List Byte),
    recvOne (.body acc) (tfBytes m ++ bs) = recvOne (.body (acc ++ tfBytes m)) bs
  | [], _, _, acc, bs => by simp only [tfBytes, List.map_nil, List.nil_append, List.append_nil]
  | c :: m, ha, hm, acc, bs => by
    have hc : tfByte c ≠ CR := fun e =>
      hm (((tf_byte_cr c (ha c (List.mem_cons_self ..))).1 e) ▸ List.mem_cons_self ..)
    have ih := tf_recvOne_prefix m (fun x hx => ha x (List.mem_cons_of_mem _ hx))
      (fun h => hm (List.mem_cons_of_mem _ h)) (acc ++ [tfByte c]) bs
    show recvOne (.body acc) (tfByte c :: (tfBytes m ++ bs)) = recvOne (.body (acc ++ tfByte c :: tfBytes m)) bs
    rw [recvOne]
    simp only [rstep, hc, if_false]
    rw [ih, List.append_assoc, List.singleton_append]

theorem tf_mem_append_ascii {m tl : Str} (h : ∀ c ∈ m ++ tl, c.toNat < 128) :
    (∀ c ∈ m, c.toNat < 128) ∧ (∀ c ∈ tl, c.toNat < 128) :=
  ⟨fun c hc => h c (List.mem_append_left _ hc), fun c hc => h c (List.mem_append_right _ hc)⟩

/-- (7) for ASCII text `cs` (whose UTF-8 bytes are its character codes) and a closed stream (`eof = true`), the translated
`receive_message` and the byte-level model `recvOne (.body [])` of Model/Framing.lean agree: the model returns `.msg mb rb`
exactly when the translated call returns a text `m` and leaves `rest`, with `mb`, `rb` the bytes of `m`, `rest` (and then
`cs = m ++ "\r\n" ++ rest`); the model returns `.error _` exactly when the translated call raises — `ConnectionError` when
there is no CR in `cs` at all, `Exception` otherwise. -/
theorem framing_recv_model (cs : Str) (hascii : ∀ c ∈ cs, c.toNat < 128) (out : List Val)
    (f : Nat) (hf : cs.length + 12 ≤ f) :
    match recvOne (.body []) (cs.map fun c => c.toNat.toUInt8) with
    | .msg mb rb => ∃ m rest, cs = m ++ '\r' :: '\n' :: rest ∧ '\r' ∉ m ∧
        mb = m.map (fun c => c.toNat.toUInt8) ∧ rb = rest.map (fun c => c.toNat.toUInt8) ∧
        callFn P f m_Framing_receive_message [encFraming (encByteWorld cs out true)]
          = .ok (.str m, encFraming (encByteWorld rest out true))
    | .error _ =>
        callFn P f m_Framing_receive_message [encFraming (encByteWorld cs out true)]
          = .error (.exc (if '\r' ∈ cs then K.Exception else n_ConnectionError)) := by
  show match recvOne (.body []) (tfBytes cs) with
    | .msg mb rb => ∃ m rest, cs = m ++ '\r' :: '\n' :: rest ∧ '\r' ∉ m ∧ mb = tfBytes m ∧ rb = tfBytes rest ∧
        callFn P f m_Framing_receive_message [encFraming (encByteWorld cs out true)]
          = .ok (.str m, encFraming (encByteWorld rest out true))
    | .error _ =>
        callFn P f m_Framing_receive_message [encFraming (encByteWorld cs out true)]
          = .error (.exc (if '\r' ∈ cs then K.Exception else n_ConnectionError))
  rcases tf_split_cr cs with h | ⟨m, tl, e, hm⟩
  · have hr : recvOne (.body []) (tfBytes cs) = .error [] := by
      have := tf_recvOne_prefix cs hascii h [] []
      rw [List.append_nil] at this
      rw [this]; rfl
    rw [hr]
    simp only [h, if_false]
    exact (framing_recv_eof cs out h f hf).1
  · subst e
    obtain ⟨ham, hatl⟩ := tf_mem_append_ascii hascii
    have hlen : m.length + 12 ≤ f := by
      simp only [List.length_append, List.length_cons] at hf; omega
    have hmem : '\r' ∈ m ++ '\r' :: tl := List.mem_append_right _ (List.mem_cons_self ..)
    have hb : tfBytes (m ++ '\r' :: tl) = tfBytes m ++ CR :: tfBytes tl := by
      simp only [tfBytes, List.map_append, List.map_cons]; rfl
    rw [hb, tf_recvOne_prefix m ham hm, List.nil_append]
    cases tl with
    | nil =>
      have hr : recvOne (.body (tfBytes m)) (CR :: tfBytes []) = .error [] := rfl
      rw [hr]
      simp only [hmem, if_true]
      exact (framing_recv_eof m out hm f hlen).2
    | cons c rest =>
      have hac : c.toNat < 128 := hatl c (List.mem_cons_of_mem _ (List.mem_cons_self ..))
      by_cases hc : c = '\n'
      · subst hc
        have hr : recvOne (.body (tfBytes m)) (CR :: tfBytes ('\n' :: rest)) = .msg (tfBytes m) (tfBytes rest) := rfl
        rw [hr]
        exact ⟨m, rest, rfl, hm, rfl, rfl, framing_recv_translated m rest out true hm f hlen⟩
      · have hb : tfByte c ≠ LF := fun e => hc ((tf_byte_lf c hac).1 e)
        have hr : recvOne (.body (tfBytes m)) (CR :: tfBytes (c :: rest)) = .error (tfBytes rest) := by
          show recvOne (.body (tfBytes m)) (CR :: tfByte c :: tfBytes rest) = _
          rw [recvOne]
          simp only [rstep, if_true]
          rw [recvOne]
          simp only [rstep, hb, if_false]
        rw [hr]
        simp only [hmem, if_true]
        exact framing_recv_bad_terminator m rest c out true hm hc f hlen

example : ∃ m rest, "PASS\r\nxy".toList = m ++ '\r' :: '\n' :: rest ∧ '\r' ∉ m ∧
    [80, 65, 83, 83] = m.map (fun c => c.toNat.toUInt8) ∧ [120, 121] = rest.map (fun c => c.toNat.toUInt8) ∧
    callFn P 30 m_Framing_receive_message [encFraming (encByteWorld "PASS\r\nxy".toList [] true)]
      = .ok (.str m, encFraming (encByteWorld rest [] true)) :=
  framing_recv_model "PASS\r\nxy".toList (by decide) [] 30 (by decide)

/-- the model's error branch, both ways: no CR at all (`ConnectionError`), a CR not followed by LF (`Exception`) -/
example : callFn P 30 m_Framing_receive_message [encFraming (encByteWorld "PASS".toList [] true)]
    = .error (.exc n_ConnectionError) :=
  framing_recv_model "PASS".toList (by decide) [] 30 (by decide)
example : callFn P 30 m_Framing_receive_message [encFraming (encByteWorld "PASS\rxy".toList [] true)]
    = .error (.exc K.Exception) :=
  framing_recv_model "PASS\rxy".toList (by decide) [] 30 (by decide)

/-! ## the same at the top-level fuel (`Program.runMethod`, fuel `topFuel = 1000`) -/
theorem tf_mth_send : P.method? classDepth n_Framing n_send_message = some (n_Framing, m_Framing_send_message) := rfl
theorem tf_mth_receive :
    P.method? classDepth n_Framing n_receive_message = some (n_Framing, m_Framing_receive_message) := rfl

theorem framing_send_runMethod (msg cs : Str) (out : List Val) (eof : Bool) :
    P.runMethod n_Framing n_send_message [encFraming (encByteWorld cs out eof), .str msg]
      = .ok (.none, encFraming (encByteWorld cs (out ++ [.tuple [vstr "sendall", .str (msg ++ ['\r', '\n'])]]) eof)) := by
  unfold Program.runMethod
  rw [tf_mth_send]
  exact framing_send_translated msg cs out eof topFuel (by decide)

theorem framing_recv_runMethod (m rest : Str) (out : List Val) (eof : Bool) (hm : '\r' ∉ m) (hlen : m.length ≤ 988) :
    P.runMethod n_Framing n_receive_message [encFraming (encByteWorld (m ++ '\r' :: '\n' :: rest) out eof)]
      = .ok (.str m, encFraming (encByteWorld rest out eof)) := by
  unfold Program.runMethod
  rw [tf_mth_receive]
  exact framing_recv_translated m rest out eof hm topFuel (by show m.length + 12 ≤ 1000; omega)

/-! ## the fuel bounds are the least ones (on the examples above) -/
def tfIsFuel (x : R (Val × Val)) : Bool := match x with
  | .error .fuel => true
  | _ => false

/-- `m.length + 12` is sharp: with one level less the interpreter runs out of fuel (message of 4 characters: 16 suffices,
15 does not) -/
example : tfIsFuel (callFn P 15 m_Framing_receive_message [encFraming (encByteWorld "PASS\r\nxy".toList [] false)]) = true := by
  decide +kernel
/-- `send_message`: 6 suffices, 5 does not -/
example : tfIsFuel (callFn P 5 m_Framing_send_message
    [encFraming (encByteWorld "xy".toList [vstr "old"] false), .str "PASS".toList]) = true := by
  decide +kernel

end Bridge.Translated
