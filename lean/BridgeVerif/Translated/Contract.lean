import BridgeVerif.Translated.ContractV0
import BridgeVerif.Translated.ContractV1
import BridgeVerif.Translated.ContractV2
import BridgeVerif.Translated.ContractV3
/-!
# contract.py AS TRANSLATED is the model of it, on EVERY contract  (C15, C07, C03)

36 final bids (35 + passed out) × doubled × redoubled flags × 4 vulnerabilities × 5 declarers (4 + none): `is_passed_out`,
`level`, `trump`, `necessary_tricks`, `is_vul`, `__str__`, `str_to_contract` of the printed text, and the constructor.
One file per vulnerability (built in parallel), each a kernel evaluation of the translated program.
-/
namespace Bridge.Translated

theorem contract_translated_is_model (c : Contract) (hb : c.finalBid ∈ bidOpts) (hd : c.declarer ∈ seatOpts) :
    contractAgrees c = true := by
  obtain ⟨b, x, xx, v, d⟩ := c
  cases v
  · exact contract_methods_v0 b hb x xx d hd
  · exact contract_methods_v1 b hb x xx d hd
  · exact contract_methods_v2 b hb x xx d hd
  · exact contract_methods_v3 b hb x xx d hd

theorem bidOpts_complete (b : Option (Fin 35)) : b ∈ bidOpts := by
  cases b with
  | none => simp [bidOpts]
  | some i => simp [bidOpts]

theorem seatOpts_complete (d : Option Seat) : d ∈ seatOpts := by
  cases d with
  | none => simp [seatOpts]
  | some p => cases p <;> simp [seatOpts]

/-- for EVERY contract value -/
theorem contract_class_translated (c : Contract) : contractAgrees c = true :=
  contract_translated_is_model c (bidOpts_complete _) (seatOpts_complete _)

end Bridge.Translated
