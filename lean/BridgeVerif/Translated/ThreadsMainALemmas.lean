import BridgeVerif.Translated.ThreadsEnc
import BridgeVerif.Translated.NetHelpers
import BridgeVerif.Translated.Hands
import BridgeVerif.Translated.PbnWriterLemmasB
/-! Translated `MainThread` (`_sync_event`, `deal`, `bidding_phase`): the world object's methods on the encoded world,
small evaluation lemmas -/
namespace Bridge.Translated.MainA
open Bridge Bridge.Py Bridge.Generated.PyCore

/-! ## method tables -/
theorem mt_mth_w_put : P.method? classDepth n__World n_w_put = some (n__World, m__World_w_put) := rfl
theorem mt_mth_w_get : P.method? classDepth n__World n_w_get = some (n__World, m__World_w_get) := rfl
theorem mt_mth_w_sync : P.method? classDepth n__World n_w_sync = some (n__World, m__World_w_sync) := rfl
theorem mt_mth_w_advance : P.method? classDepth n__World n_w_advance = some (n__World, m__World_w_advance) := rfl
theorem mt_mth_sync_event : P.method? classDepth n_MainThread n__sync_event = some (n_MainThread, m_MainThread__sync_event) := rfl

/-- `w_put` appends one operation -/
theorem mt_w_put_call (f : Nat) (ins : List (Val × Val)) (out : List Val) (table : Val) (tables : List Val) (eof : Bool)
    (q k m : Val) :
    callF (mkRec P (f+8)) m__World_w_put [encWorld ins out table tables eof, q, k, m]
      = .ok (.none, encWorld ins (out ++ [.tuple [vstr "put", q, k, m]]) table tables eof) := by
  rw [callF_def]
  simp only [m__World_w_put, bindParams, Option.map, encWorld]
  ppsimp [vstr]
  rfl

/-- what `w_advance` does to the seat table and its later snapshots -/
def advTable (table : Val) (tables : List Val) : Val × List Val :=
  match tables with
  | [] => (table, [])
  | t :: r => (t, r)

theorem mt_index_cons0 (r : Rec) (x : Val) (xs : List Val) : indexF r P (.tuple (x :: xs)) (.int 0) = .ok x := by
  simp [indexF, asInt?, normIndex]; rfl
theorem mt_slice_tail {α} (x : α) (xs : List α) : sliceList (x :: xs) (some 1) none = xs := by
  simp [sliceList, clampIndex]
theorem mt_len_cons_beq0 (n : Nat) : (Val.int (Int.ofNat (n + 1))).beq (.int 0) = false := by
  rw [nh_ofNat_beq_zero]; simp
theorem mt_len_nil_beq0 : (Val.int (Int.ofNat 0)).beq (.int 0) = true := by
  rw [nh_ofNat_beq_zero]; simp

theorem mt_w_advance_call (f : Nat) (ins : List (Val × Val)) (out : List Val) (table : Val) (tables : List Val) (eof : Bool) :
    callF (mkRec P (f+8)) m__World_w_advance [encWorld ins out table tables eof]
      = .ok (.none, encWorld ins out (advTable table tables).1 (advTable table tables).2 eof) := by
  rw [callF_def]
  simp only [m__World_w_advance, bindParams, Option.map, encWorld]
  cases tables with
  | nil => ppsimp [nh_len_tuple, mt_len_nil_beq0, advTable]
  | cons t r =>
    ppsimp [nh_len_tuple, mt_len_cons_beq0, advTable, mt_index_cons0, mt_slice_tail]

/-- `w_sync`: one `sync` operation, then the table advances -/
theorem mt_w_sync_call (f : Nat) (ins : List (Val × Val)) (out : List Val) (table : Val) (tables : List Val) (eof : Bool) :
    callF (mkRec P (f+12)) m__World_w_sync [encWorld ins out table tables eof]
      = .ok (.none, encWorld ins (out ++ [.tuple [vstr "sync"]]) (advTable table tables).1 (advTable table tables).2 eof) := by
  rw [callF_def]
  simp only [m__World_w_sync, bindParams, Option.map]
  have h := fun g o => mt_w_advance_call g ins o table tables eof
  simp only [encWorld] at h ⊢
  ppsimp [mt_mth_w_advance, h, vstr]
  rfl

/-- `w_get` on a non-empty stream: its first element; the stream loses it; one `get` operation -/
theorem mt_w_get_call (f : Nat) (ins : List (Val × Val)) (out : List Val) (table : Val) (tables : List Val) (eof : Bool)
    (q k m : Val) (rest : List Val) (h : lookupD ins (.tuple [q, k]) = some (.tuple (m :: rest))) :
    callF (mkRec P (f+12)) m__World_w_get [encWorld ins out table tables eof, q, k]
      = .ok (m, encWorld (updateD ins (.tuple [q, k]) (.tuple rest)) (out ++ [.tuple [vstr "get", q, k]]) table tables eof) := by
  rw [callF_def]
  simp only [m__World_w_get, bindParams, Option.map, encWorld]
  ppsimp [h, nh_len_tuple, mt_len_cons_beq0, mt_index_cons0, mt_slice_tail, vstr]
  rfl

/-- `w_get` on an empty stream raises `Blocked` -/
theorem mt_w_get_call_empty (f : Nat) (ins : List (Val × Val)) (out : List Val) (table : Val) (tables : List Val) (eof : Bool)
    (q k : Val) (h : lookupD ins (.tuple [q, k]) = some (.tuple [])) :
    callF (mkRec P (f+12)) m__World_w_get [encWorld ins out table tables eof, q, k] = .error (.exc n_Blocked) := by
  rw [callF_def]
  simp only [m__World_w_get, bindParams, Option.map, encWorld]
  ppsimp [h, nh_len_tuple, mt_len_nil_beq0]

/-! ## main's world -/
def mainIns (i : Seat → List Str) (more : List (Val × Val)) : List (Val × Val) :=
  [(qkey "t2m" .N, vtexts (i .N)), (qkey "t2m" .E, vtexts (i .E)), (qkey "t2m" .S, vtexts (i .S)),
   (qkey "t2m" .W, vtexts (i .W))] ++ more

theorem encMainWorld_eq (i : Seat → List Str) (out : List Val) (table : Val) (tables : List Val) (more : List (Val × Val)) :
    encMainWorld i out table tables more = encWorld (mainIns i more) out table tables false := rfl

theorem mt_lookup_mainIns (i : Seat → List Str) (more : List (Val × Val)) (a : Seat) :
    lookupD (mainIns i more) (.tuple [vstr "t2m", encSeat a]) = some (vtexts (i a)) := by
  cases a <;> simp [lookupD, mainIns, qkey, vstr, encSeat, Val.beq, beqL, Seat.value]

theorem mt_update_mainIns (i : Seat → List Str) (more : List (Val × Val)) (a : Seat) (r : List Str) :
    updateD (mainIns i more) (.tuple [vstr "t2m", encSeat a]) (vtexts r)
      = mainIns (fun q => if q = a then r else i q) more := by
  cases a <;> simp [updateD, mainIns, qkey, vstr, encSeat, Val.beq, beqL, Seat.value]

/-! ## `MainThread._sync_event` -/
theorem mt_sync_event_call (f : Nat) (ins : List (Val × Val)) (out : List Val) (table : Val) (tables : List Val) (eof : Bool)
    (bs pe ev : Val) :
    callF (mkRec P (f+20)) m_MainThread__sync_event [encMainThread (encWorld ins out table tables eof) bs, pe, ev]
      = .ok (.none, encMainThread (encWorld ins (out ++ [.tuple [vstr "sync"]]) (advTable table tables).1
                (advTable table tables).2 eof) bs) := by
  rw [callF_def]
  simp only [m_MainThread__sync_event, bindParams, Option.map, encMainThread]
  have h := fun g o => mt_w_sync_call g ins o table tables eof
  simp only [encWorld] at h ⊢
  ppsimp [mt_mth_w_sync, h]

/-! ## small evaluation lemmas -/
theorem mt_iter_player : iterItems P (.cls n_Player) = some [encSeat .N, encSeat .E, encSeat .S, encSeat .W] := rfl
theorem mt_beq_str (a b : List Char) : (Val.str a).beq (.str b) = (a == b) := by simp only [Val.beq]
theorem mt_getAttr_name (r : Rec) (p : Seat) : getAttrF r P (encSeat p) K.name = .ok (.str p.name) := by
  cases p <;> rfl
theorem mt_mth_formal_name : P.method? classDepth n_Player n_formal_name = some (n_Player, m_Player_formal_name) := rfl
theorem mt_formal_name_call (f : Nat) (p : Seat) :
    callF (mkRec P (f+12)) m_Player_formal_name [encSeat p] = .ok (.str p.formal, encSeat p) := by
  rw [callF_def]
  simp only [m_Player_formal_name, bindParams, Option.map]
  cases p <;> ppsimp [mt_getAttr_name, mt_beq_str] <;> rfl
/-- the property `Player.formal_name` -/
theorem mt_getAttr_formal (f : Nat) (p : Seat) :
    getAttrF (mkRec P (f+13)) P (encSeat p) n_formal_name = .ok (.str p.formal) := by
  have e : getAttrF (mkRec P (f+13)) P (encSeat p) n_formal_name
      = (callF (mkRec P (f+12)) m_Player_formal_name [encSeat p] >>= fun x => pure x.1) := rfl
  rw [e, mt_formal_name_call]; rfl

theorem mt_beq_encVul (v : Vul) (k : Nat) : (encVul v).beq (.enum n_Vul (k : Int)) = decide (v.value = k) := by
  simp only [encVul, Val.beq, beq_self_eq_true, Bool.true_and]
  rw [Bool.eq_iff_iff]; simp only [beq_iff_eq, decide_eq_true_eq, Int.natCast_inj]
theorem mt_beq_encVul1 (v : Vul) : (encVul v).beq (.enum n_Vul 1) = decide (v = .none) := by
  rw [show (1 : Int) = ((1 : Nat) : Int) from rfl, mt_beq_encVul]; cases v <;> rfl
theorem mt_beq_encVul2 (v : Vul) : (encVul v).beq (.enum n_Vul 2) = decide (v = .ns) := by
  rw [show (2 : Int) = ((2 : Nat) : Int) from rfl, mt_beq_encVul]; cases v <;> rfl
theorem mt_beq_encVul3 (v : Vul) : (encVul v).beq (.enum n_Vul 3) = decide (v = .ew) := by
  rw [show (3 : Int) = ((3 : Nat) : Int) from rfl, mt_beq_encVul]; cases v <;> rfl
theorem mt_beq_encVul4 (v : Vul) : (encVul v).beq (.enum n_Vul 4) = decide (v = .both) := by
  rw [show (4 : Int) = ((4 : Nat) : Int) from rfl, mt_beq_encVul]; cases v <;> rfl
theorem mt_mth_convert_vul : P.method? classDepth n_Server n_convert_vul = some (n_Server, m_Server_convert_vul) := rfl
/-- `Server.convert_vul` on the four values -/
theorem mt_convert_vul_call (f : Nat) (v : Vul) :
    callF (mkRec P (f+12)) m_Server_convert_vul [encVul v] = .ok (.str (convertVul v), encVul v) := by
  rw [callF_def]
  simp only [m_Server_convert_vul, bindParams, Option.map]
  cases v <;> ppsimp [mt_beq_encVul1, mt_beq_encVul2, mt_beq_encVul3, mt_beq_encVul4] <;> rfl
theorem mt_strOf_str (r : Rec) (s : List Char) : strOfF r P (.str s) = .ok s := rfl
theorem mt_strOf_int (r : Rec) (n : Int) : strOfF r P (.int n) = .ok (intStr n) := rfl

theorem mt_natDigitsAux_eq (g n : Nat) (acc : List Char) : natDigitsAux g n acc = _root_.Bridge.natDigits g n acc := by
  induction g generalizing n acc with
  | zero => rfl
  | succ g ih => simp only [natDigitsAux, _root_.Bridge.natDigits, ih]

/-- `str(k)` of the interpreter is the model's `natStr k` -/
theorem mt_intStr_nat (k : Nat) : intStr (k : Int) = natStr k := by
  rw [pw_intStr_eq]
  show natRepr k = natStr k
  rw [natRepr, natStr, mt_natDigitsAux_eq]

/-- the f-string of the board header -/
theorem mt_header_eq (k : Nat) (d : Seat) (v : Vul) :
    [['B', 'o', 'a', 'r', 'd', ' ', 'n', 'u', 'm', 'b', 'e', 'r', ' '],
      intStr ↑k, ['.', ' ', 'D', 'e', 'a', 'l', 'e', 'r', ' '], d.formal, ['.', ' '], convertVul v,
      [' ', 'v', 'u', 'l', 'n', 'e', 'r', 'a', 'b', 'l', 'e', '.']].flatten = boardHeader k d v := by
  rw [mt_intStr_nat]
  unfold boardHeader
  simp only [List.flatten_cons, List.flatten_nil, List.append_nil, List.append_assoc]
  rfl
/-- the f-string of the cards message -/
theorem mt_cards_eq (n : List Char) (h : List Card) :
    [n, ['\'', 's', ' ', 'c', 'a', 'r', 'd', 's', ' ', ':', ' '], handToStr h].flatten = cardsMsg n h := by
  unfold cardsMsg
  simp only [List.flatten_cons, List.flatten_nil, List.append_nil, List.append_assoc]
  rfl

end Bridge.Translated.MainA
