import BridgeVerif.Translated.JsonWriter
import BridgeVerif.Translated.JsonParser
import BridgeVerif.Props.C17
/-!
# The JSON round trips INSIDE the translated code  (C12, C17)

`JsonLogWriter(file); open(); write(e)…; close()` / `JsonBoardSettingWriter …` as translated (Translated/JsonWriter.lean,
`runLogDocument`, `runSettingsDocument`) leave a file object holding chunks; the text of the file is their concatenation;
the translated `JsonParser.parse_board_logs` / `parse_board_settings` (Translated/JsonParser.lean) are given the file
object `fileOf text` of that text (the file re-opened for reading: `json.load(fp)` reads it in one piece).

* `jr_log_round_trip_translated` — the text the translated log writer produces is read by the translated
  `parse_board_logs` as EXACTLY `(es.map LogEntry.readBack).map encLogRead` (the `_partial` form of the parser theorem —
  the strongest: syntactic equality of the returned list).  `LogEntry.readBack` (Spec/JsonLog.lean) is the entry written
  up to the normalisation of `C12.read_back_is_what_was_written`: every hand listed ascending (`sortAsc`: a `set` of cards
  is written `sorted`), the contract `Contract.norm` (doubling flags reduced to the doubling status; a passed-out
  contract has no doubling and no declarer), `declarer = None` when passed out; all other fields as written.
* `jr_settings_round_trip_translated` — `JsonBoardSettingWriter` → `parse_board_settings`:
  `(es.map SettingEntry.readBack).map encSetting` (`readBack`: hands ascending; `C17.settings_round_trip`).
* `jr_log_as_settings_translated` — the log document read by `parse_board_settings`:
  `(es.map LogEntry.setting).map encSetting` (`C12.log_as_settings`).
* `jr_example` — `[C12.exEntry]` by instantiation.

The ONLY hypothesis: `∀ e ∈ es, e.WF` (`LogEntry.WF` / `SettingEntry.WF`, Spec/JsonLog.lean — the hypothesis of
C12 / C17: duplicate-free hands of valid cards, duplicate-free double-dummy keys, declarer present exactly when the
contract is not passed out, valid cards in the recorded tricks).  The writer's hypotheses `LogWF` / `SettingWF` (ranks
2..14, `DdaWF`) follow from it (`jr_logWF`, `jr_settingWF`); the parser's side conditions of the `_partial` theorems are
DERIVED for written documents: the hands are listed without repetition (`jr_handsInOrder`), and a passed-out contract is
written `"Passed_out"` (`jr_contractText`).
-/
namespace Bridge.Translated
open Bridge Bridge.Py Bridge.Generated.PyCore

theorem jr_ok_rank (c : Card) (hc : c.ok = true) : 2 ≤ c.rank ∧ c.rank ≤ 14 := by
  simp only [Card.ok, Bool.and_eq_true, decide_eq_true_eq] at hc
  exact hc.1

theorem jr_logWF (e : LogEntry) (h : e.WF) : LogWF e :=
  jw_logWF_of_ok e (fun p c hc => (h.hands p).2 c hc) h.play h.dda

theorem jr_settingWF (e : SettingEntry) (h : e.WF) : SettingWF e :=
  ⟨fun p c hc => jr_ok_rank c ((h.hands p).2 c hc), h.dda⟩

/-! ## written documents satisfy the side conditions of the parser theorems -/
theorem jr_rawCards_deal (h : Hands) (hw : HandsWF h) (p : Seat) :
    rawCards (((dealJson h).get? p.name).getD .null) = sortAsc (h p) := by
  have hp := sortAsc_perm (h p)
  have hg : ((dealJson h).get? p.name).getD .null = .arr ((dealToJson h p).map jstr) := by cases p <;> rfl
  have h1 : ((dealToJson h p).map jstr).mapM Json.str? = some (dealToJson h p) :=
    mapM_map_some_json jstr Json.str? _ fun _ _ => rfl
  rw [hg]
  simp only [rawCards, h1, Option.bind_some]
  rw [dealToJson, mapM_strToCard _ fun c hc => (hw p).2 c (hp.mem_iff.1 hc)]
  rfl

theorem jr_handsInOrder (h : Hands) (hw : HandsWF h) : HandsInOrder (dealJson h) :=
  jp_handsInOrder_of_nodup _ fun p => by
    rw [jr_rawCards_deal h hw p]; exact (sortAsc_perm (h p)).nodup_iff.2 (hw p).1

theorem jr_dealOf_log (e : LogEntry) : dealOf (logJson e) = dealJson e.deal := rfl
theorem jr_dealOf_setting (e : SettingEntry) : dealOf (settingJson e) = dealJson e.deal := rfl
theorem jr_contractText (e : LogEntry) : contractText (logJson e) = contractStr e.contract := rfl

theorem jr_logEntries (es : List LogEntry) (h : ∀ e ∈ es, e.WF) : logEntries (logText es) = es.map logJson := by
  simp [logEntries, C12.framed_output_is_json es h, logDoc, Json.get?, Json.arr?]

theorem jr_settingEntries_log (es : List LogEntry) (h : ∀ e ∈ es, e.WF) :
    settingEntries (logText es) = es.map logJson := by
  simp [settingEntries, C12.framed_output_is_json es h, logDoc, Json.get?, Json.arr?]

theorem jr_settingEntries (es : List SettingEntry) (h : ∀ e ∈ es, e.WF) :
    settingEntries (settingsText es) = es.map settingJson := by
  have hno : (settingsDoc es).get? (jkey "logs") = none := by simp [settingsDoc, Json.get?, jkey]
  simp only [settingEntries, C17.settings_document_is_json es h, Option.bind_some, hno]
  simp [settingsDoc, Json.get?, Json.arr?]

/-! ## (1) logs -/
theorem jr_log_round_trip_translated (es : List LogEntry) (h : ∀ e ∈ es, e.WF) :
    ∃ chunks : List Str,
      runLogDocument [] es = .ok (encWriter n_JsonLogWriter chunks false es.isEmpty) ∧
      chunks.flatten = logText es ∧
      P.runMethod n_JsonParser n_parse_board_logs [.obj n_JsonParser [], fileOf chunks.flatten]
        = .ok (.tuple ((es.map LogEntry.readBack).map encLogRead), .obj n_JsonParser []) := by
  obtain ⟨chunks, hrun, htext⟩ := jw_log_document_translated es fun e he => jr_logWF e (h e he)
  refine ⟨chunks, hrun, htext, ?_⟩
  rw [htext]
  refine jp_parse_board_logs_translated_partial (logText es) _ (C12.log_read_back es h) ?_ ?_
  · intro j hj
    rw [jr_logEntries es h] at hj
    obtain ⟨e, he, rfl⟩ := List.mem_map.1 hj
    rw [jr_dealOf_log]; exact jr_handsInOrder e.deal (h e he).hands
  · intro j hj r hr hfb
    rw [jr_logEntries es h] at hj
    obtain ⟨e, he, rfl⟩ := List.mem_map.1 hj
    rw [C12.record_read_back e (h e he)] at hr
    cases hr
    rw [jr_contractText]
    have : e.contract.finalBid = none := by
      have hh : e.readBack.contract.finalBid = e.contract.finalBid := by
        show e.contract.norm.finalBid = _
        unfold Contract.norm; cases e.contract.finalBid <;> rfl
      rw [← hh]; exact hfb
    unfold contractStr; rw [this]

/-! ## (2) board settings -/
theorem jr_settings_round_trip_translated (es : List SettingEntry) (h : ∀ e ∈ es, e.WF) :
    ∃ chunks : List Str,
      runSettingsDocument [] es = .ok (encWriter n_JsonBoardSettingWriter chunks false es.isEmpty) ∧
      chunks.flatten = settingsText es ∧
      P.runMethod n_JsonParser n_parse_board_settings [.obj n_JsonParser [], fileOf chunks.flatten]
        = .ok (.tuple ((es.map SettingEntry.readBack).map encSetting), .obj n_JsonParser []) := by
  obtain ⟨chunks, hrun, htext⟩ := jw_settings_document_translated es fun e he => jr_settingWF e (h e he)
  refine ⟨chunks, hrun, htext, ?_⟩
  rw [htext]
  refine jp_parse_board_settings_translated_partial (settingsText es) _ (C17.settings_round_trip es h).1 ?_
  intro j hj
  rw [jr_settingEntries es h] at hj
  obtain ⟨e, he, rfl⟩ := List.mem_map.1 hj
  rw [jr_dealOf_setting]; exact jr_handsInOrder e.deal (h e he).hands

/-! ## (3) a log read as board settings -/
theorem jr_log_as_settings_translated (es : List LogEntry) (h : ∀ e ∈ es, e.WF) :
    ∃ chunks : List Str,
      runLogDocument [] es = .ok (encWriter n_JsonLogWriter chunks false es.isEmpty) ∧
      chunks.flatten = logText es ∧
      P.runMethod n_JsonParser n_parse_board_settings [.obj n_JsonParser [], fileOf chunks.flatten]
        = .ok (.tuple ((es.map LogEntry.setting).map encSetting), .obj n_JsonParser []) := by
  obtain ⟨chunks, hrun, htext⟩ := jw_log_document_translated es fun e he => jr_logWF e (h e he)
  refine ⟨chunks, hrun, htext, ?_⟩
  rw [htext]
  refine jp_parse_board_settings_translated_partial (logText es) _ (C12.log_as_settings es h) ?_
  intro j hj
  rw [jr_settingEntries_log es h] at hj
  obtain ⟨e, he, rfl⟩ := List.mem_map.1 hj
  rw [jr_dealOf_log]; exact jr_handsInOrder e.deal (h e he).hands

/-! ## (4) non-vacuity -/
/-- the played board of Props/C12.lean (double-dummy table, awkward strings): written by the translated writer, read
back by the translated parser, also as a board setting -/
theorem jr_example :
    ∃ chunks : List Str,
      runLogDocument [] [C12.exEntry] = .ok (encWriter n_JsonLogWriter chunks false false) ∧
      P.runMethod n_JsonParser n_parse_board_logs [.obj n_JsonParser [], fileOf chunks.flatten]
        = .ok (.tuple [encLogRead C12.exEntry.readBack], .obj n_JsonParser []) ∧
      P.runMethod n_JsonParser n_parse_board_settings [.obj n_JsonParser [], fileOf chunks.flatten]
        = .ok (.tuple [encSetting C12.exEntry.setting], .obj n_JsonParser []) := by
  have hwf : ∀ e ∈ [C12.exEntry], e.WF := by simpa using C12.exEntry_wf
  obtain ⟨chunks, hrun, htext, hread⟩ := jr_log_round_trip_translated [C12.exEntry] hwf
  obtain ⟨chunks', hrun', htext', hread'⟩ := jr_log_as_settings_translated [C12.exEntry] hwf
  rw [htext'] at hread'
  refine ⟨chunks, hrun, hread, ?_⟩
  rw [htext]; exact hread'

end Bridge.Translated
