import BridgeVerif.Translated.AuctionLemmasC
/-! Translated `BiddingPhase` = model: `take_bid`, the regular-bid branch -/
namespace Bridge.Translated
open Bridge Bridge.Py Bridge.Generated.PyCore

theorem tb_kind_bid (f : Nat) (s : AState) (p : Seat) (i : Fin 35) (h : s.active = some p) :
    execStmtF (mkRec P (f+30)) P (envOf s (.bid i)) tbKind = .ok (envOf (bidState s p i) (.bid i), .next) := by
  obtain ⟨dealer, vul, active, lastBidder, lastBid, calledX, calledXX, history, perSeat, declCheck, avail⟩ := s
  simp only at h; subst h
  simp only [tbKind, m_BiddingPhase_take_bid, List.getD_cons_succ, List.getD_cons_zero, envOf, encState, bidState]
  cases hd : declCheck p.side (bidDenom i) with
  | none =>
    pysimp [beq_encBid_pass, beq_encBid_dbl, beq_encBid_rdbl, encCall_bid, getAttr_suit, getAttr_idx_bid, beq_encSuit_none,
      getAttr_pair, lookup_declKvs, lookup_declRow, update_declRow, update_declKvs, hd, beq_encSeat_none, fillSlice_avail]
    have key : (fun sd su => if sd = p.side ∧ su = bidDenom i ∧ declCheck sd su = none then some p else declCheck sd su)
        = (fun sd' => if sd' = p.side then fun su' => if su' = bidDenom i then some p else declCheck p.side su'
            else declCheck sd') := by
      funext sd su
      by_cases h1 : sd = p.side
      · subst h1
        by_cases h2 : su = bidDenom i
        · subst h2; simp [hd]
        · simp [h2]
      · simp [h1]
    rw [key]; rfl
  | some q =>
    pysimp [beq_encBid_pass, beq_encBid_dbl, beq_encBid_rdbl, encCall_bid, getAttr_suit, getAttr_idx_bid, beq_encSuit_none,
      getAttr_pair, lookup_declKvs, lookup_declRow, update_declRow, update_declKvs, hd, beq_encSeat_none, fillSlice_avail]
    have key : (fun sd su => if sd = p.side ∧ su = bidDenom i ∧ declCheck sd su = none then some p else declCheck sd su)
        = declCheck := by
      funext sd su
      by_cases h1 : sd = p.side
      · subst h1
        by_cases h2 : su = bidDenom i
        · subst h2; simp [hd]
        · simp [h2]
      · simp [h1]
    rw [key]; rfl
end Bridge.Translated
