import BridgeVerif.Translated.Enc
import BridgeVerif.Spec.Scoring
/-! `calc_bid_score` run inside the WHOLE translated program `P` -/
namespace Bridge.Translated.MainC
open Bridge.Py Bridge.Generated.PyCore Bridge.Translated

/-- `calc_bid_score` run inside `P` -/
def cbsP (f : Nat) (args : List Val) : R Val := (callFn P f f_calc_bid_score args).map (·.1)

end Bridge.Translated.MainC
