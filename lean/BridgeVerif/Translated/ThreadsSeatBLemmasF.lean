import BridgeVerif.Translated.ThreadsSeatBLemmasC
/-! `_playing_phase`: the reactive model `seatTrickR` cut into the pieces the code is made of (one card = main part +
rotation / opening of dummy), the hypothesis "every `ready` message consumed passes its check", the rendering of actions -/
namespace Bridge.Translated.SeatB
open Bridge Bridge.Py Bridge.Generated.PyCore

/-! ## one card of `seatTrickR` -/

/-- the first half of the loop body: who plays / relays the card -/
def cardMainR (p declarer : Seat) (idx : Nat) (active : Seat) (i : SeatIn) : Option (SeatActs × SeatIn) :=
  if p = active ∧ p ≠ declarer.partner then do
    let (card, i) ← i.getC
    pure ((if idx = 0 then [Act.send (.s2c p) (p.formal ++ " to lead".toList)] else []) ++
          [.recv (.c2s p), .send (.t2m p) card], i)
  else if p = declarer ∧ active = declarer.partner then do
    let (card, i) ← i.getC
    pure ((if idx = 0 then [Act.send (.s2c p) "Dummy to lead".toList] else []) ++
          [.recv (.c2s p), .send (.t2m p) card], i)
  else do
    let (_, i) ← i.getC
    let (relay, i) ← i.getQ
    pure ([.recv (.c2s p), .recv (.m2t p), .send (.s2c p) relay], i)

/-- the second half: dummy's hand is opened after the first card of the first trick -/
def cardOpenR (p declarer : Seat) (first : Bool) (idx : Nat) (i : SeatIn) : Option (SeatActs × SeatIn) :=
  if first ∧ idx = 0 ∧ p ≠ declarer.partner then do
    let (_, i) ← i.getC
    let (dh, i) ← i.getQ
    pure ([Act.recv (.c2s p), .recv (.m2t p), .send (.s2c p) dh], i)
  else pure ([], i)

theorem seatTrickR_four (p d : Seat) (first : Bool) (a : Seat) (i : SeatIn) : seatTrickR p d first 4 a i = some ([], i) := by
  rw [seatTrickR]

theorem seatTrickR_lt (p d : Seat) (first : Bool) (idx : Nat) (h : idx < 4) (a : Seat) (i : SeatIn) :
    seatTrickR p d first idx a i = (do
      let (x, i) ← cardMainR p d idx a i
      let (y, i) ← cardOpenR p d first idx i
      let (rest, i) ← seatTrickR p d first (idx + 1) a.left i
      pure (x ++ y ++ rest, i)) := by
  have h4 : ¬ idx > 4 := by omega
  rw [seatTrickR.eq_def]
  split
  · omega
  · obtain ⟨q, c⟩ := i
    simp only [h4, if_false, cardMainR, cardOpenR]
    by_cases hA : p = a ∧ p ≠ d.partner <;> by_cases hB : p = d ∧ a = d.partner <;>
      by_cases hO : first = true ∧ idx = 0 ∧ p ≠ d.partner <;>
      (try simp only [if_pos hA]) <;> (try simp only [if_neg hA]) <;>
      (try simp only [if_pos hB]) <;> (try simp only [if_neg hB]) <;>
      (try simp only [if_pos hO]) <;> (try simp only [if_neg hO]) <;>
      rcases c with _ | ⟨m1, _ | ⟨m2, c⟩⟩ <;> rcases q with _ | ⟨x1, _ | ⟨x2, q⟩⟩ <;>
      simp only [SeatIn.getC, SeatIn.getQ, bind, Option.bind, pure, List.append_assoc]

/-! ## the hypothesis: every `ready` message consumed passes `_check_message` -/

/-- the `ready` text awaited while another seat's card is relayed: `<p> ready for <x>'s card to trick <k>` -/
def readyCardText (p declarer active : Seat) (k : Nat) : Str :=
  p.formal ++ " ready for ".toList ++ (if active ≠ declarer.partner then active.formal else "dummy".toList) ++
    "'s card to trick ".toList ++ natStr k
theorem sb_readyCardText (p declarer active : Seat) (k : Nat) : readyCardText p declarer active k =
  p.formal ++ " ready for ".toList ++ (if active ≠ declarer.partner then active.formal else "dummy".toList) ++
    "'s card to trick ".toList ++ natStr k := rfl

/-- `<p> ready for dummy` -/
def readyDummyText (p : Seat) : Str := p.formal ++ " ready for dummy".toList
theorem sb_readyDummyText (p : Seat) : readyDummyText p = p.formal ++ " ready for dummy".toList := rfl

/-- the check of the first half of a card: nothing is checked when the thread's own client plays -/
def mainCheck (p declarer active : Seat) (k : Nat) (i : SeatIn) : Prop :=
  (p = active ∧ p ≠ declarer.partner) ∨ (p = declarer ∧ active = declarer.partner) ∨
  ∀ m r, i.c = m :: r → passesCheck (readyCardText p declarer active k) m

def openCheck (p declarer : Seat) (k idx : Nat) (i : SeatIn) : Prop :=
  k = 1 ∧ idx = 0 ∧ p ≠ declarer.partner → ∀ m r, i.c = m :: r → passesCheck (readyDummyText p) m

/-- every `ready` message consumed by the `n` cards from position `idx` of trick `k` passes `_check_message`
(walks the streams like `seatTrickR`) -/
def trickChecks (p declarer : Seat) (k : Nat) : Nat → Nat → Seat → SeatIn → Prop
  | 0, _, _, _ => True
  | n + 1, idx, active, i =>
    mainCheck p declarer active k i ∧
    ∀ x i1, cardMainR p declarer idx active i = some (x, i1) →
      openCheck p declarer k idx i1 ∧
      ∀ y i2, cardOpenR p declarer (decide (k = 1)) idx i1 = some (y, i2) →
        trickChecks p declarer k n (idx + 1) active.left i2

/-- … by the tricks `k, k+1, …` (`n` of them), like `seatPlayingR.tricks` -/
def tricksChecks (p declarer : Seat) : Nat → Nat → SeatIn → Prop
  | 0, _, _ => True
  | n + 1, k, i => ∀ ln i1 leader, i.getQ = some (ln, i1) → seatOfFormal? ln = some leader →
      trickChecks p declarer k 4 0 leader i1 ∧
      ∀ t i2, seatTrickR p declarer (decide (k = 1)) 0 leader i1 = some (t, i2) → tricksChecks p declarer n (k + 1) i2

/-- … by the whole `_playing_phase`, like `seatPlayingR` -/
def playingChecks (p : Seat) (i : SeatIn) : Prop :=
  ∀ dn i1 declarer, i.getQ = some (dn, i1) → seatOfFormal? dn = some declarer → tricksChecks p declarer 13 1 i1

/-! ## rendering of actions -/
theorem encSeatActs_append (p : Seat) (a b : SeatActs) (x y : List Val)
    (ha : encSeatActs p a = some x) (hb : encSeatActs p b = some y) : encSeatActs p (a ++ b) = some (x ++ y) := by
  induction a generalizing x with
  | nil => cases ha; simpa using hb
  | cons c r ih =>
    simp only [encSeatActs, Option.bind_eq_bind, Option.pure_def] at ha
    cases hc : encSeatAct p c with
    | none => rw [hc] at ha; cases ha
    | some u =>
      rw [hc] at ha
      cases hr : encSeatActs p r with
      | none => rw [hr] at ha; cases ha
      | some v =>
        rw [hr] at ha
        cases ha
        simp only [List.cons_append, encSeatActs, hc, ih v hr, Option.bind_eq_bind, Option.pure_def, Option.bind_some,
          List.append_assoc]

end Bridge.Translated.SeatB
