import BridgeVerif.Translated.ScoreL0
import BridgeVerif.Translated.ScoreL1
import BridgeVerif.Translated.ScoreL2
import BridgeVerif.Translated.ScoreL3
import BridgeVerif.Translated.ScoreL4
import BridgeVerif.Translated.ScoreL5
import BridgeVerif.Translated.ScoreL6
import BridgeVerif.Model.Score
import BridgeVerif.Lemmas.MiniPyFuel
/-!
# score.py AS TRANSLATED satisfies the duplicate scoring law  (C07)

These theorems are about `Generated/PyCore.lean` — the functions of `bridge_env/score.py` (and of `bid.py`, `suit.py`,
`contract.py`, `player.py`, `pair.py` that they call) re-written from the source on every run — executed by the MiniPy
interpreter.  The domain is finite, so the law is proved by kernel evaluation of the translated program on the whole
domain (one file per level, built in parallel): nothing is assumed about the shape of the code, and a harmless rewrite
of `calc_bid_score` keeps the theorem true.
-/
namespace Bridge.Translated
open Bridge.Py Bridge.Generated.PyCore

def status (x xx : Bool) : Dbl := if xx then .xx else if x then .x else .none

/-- with 80 levels of fuel, on the whole domain -/
theorem calc_bid_score_at_80 (b : Fin 35) (x xx vul : Bool) (t : Nat) (ht : t ≤ 13) :
    (cbsAt 80 [encBid b, .bool x, .bool xx, .bool vul, .int t]).int?
      = some (dupScore (bidLevel b) (bidDenom b) (status x xx) vul t) := by
  have key : ∀ l' : Fin 7, ∀ k' : Fin 5, ∀ t' : Fin 14,
      (cbsAt 80 [encBid ⟨5 * l'.val + k'.val, by omega⟩, .bool x, .bool xx, .bool vul, .int t'.val]).int?
      = some (dupScore (bidLevel ⟨5 * l'.val + k'.val, by omega⟩) (bidDenom ⟨5 * l'.val + k'.val, by omega⟩)
          (status x xx) vul t'.val) := by
    intro l' k' t'
    match l' with
    | ⟨0, _⟩ => exact calc_bid_score_level0 k' x xx vul t'
    | ⟨1, _⟩ => exact calc_bid_score_level1 k' x xx vul t'
    | ⟨2, _⟩ => exact calc_bid_score_level2 k' x xx vul t'
    | ⟨3, _⟩ => exact calc_bid_score_level3 k' x xx vul t'
    | ⟨4, _⟩ => exact calc_bid_score_level4 k' x xx vul t'
    | ⟨5, _⟩ => exact calc_bid_score_level5 k' x xx vul t'
    | ⟨6, _⟩ => exact calc_bid_score_level6 k' x xx vul t'
  have h := key ⟨b.val / 5, by omega⟩ ⟨b.val % 5, by omega⟩ ⟨t, by omega⟩
  have hb : (⟨5 * (b.val / 5) + b.val % 5, by omega⟩ : Fin 35) = b := by ext; simp only []; omega
  simp only [hb] at h
  exact h

/-- … hence with ANY fuel from 80 up the call returns the law's value (`mkRec_mono`): this is the form used where
`calc_bid_score` is called from inside another translated function -/
theorem calc_bid_score_any_fuel (b : Fin 35) (x xx vul : Bool) (t : Nat) (ht : t ≤ 13) (f : Nat) (hf : 80 ≤ f) :
    ∃ self', callFn PB f f_calc_bid_score [encBid b, .bool x, .bool xx, .bool vul, .int t]
      = .ok (.int (dupScore (bidLevel b) (bidDenom b) (status x xx) vul t), self') := by
  have h := calc_bid_score_at_80 b x xx vul t ht
  unfold cbsAt at h
  cases hr : callFn PB 80 f_calc_bid_score [encBid b, .bool x, .bool xx, .bool vul, .int t] with
  | error e => rw [hr] at h; simp [Except.map, R.int?] at h
  | ok p =>
    obtain ⟨v, s'⟩ := p
    rw [hr] at h
    cases v <;> simp [Except.map, R.int?] at h
    subst h
    exact ⟨s', callFn_fuel_mono PB hf _ _ _ hr (by simp)⟩

/-- THE TRANSLATED `calc_bid_score` is the duplicate scoring law on its whole domain
(35 bids × doubled / redoubled flags × vulnerability × 0..13 tricks) -/
theorem calc_bid_score_translated_is_law (b : Fin 35) (x xx vul : Bool) (t : Nat) (ht : t ≤ 13) :
    (fn n_calc_bid_score [encBid b, .bool x, .bool xx, .bool vul, .int t]).int?
      = some (dupScore (bidLevel b) (bidDenom b) (status x xx) vul t) := by
  obtain ⟨s', h⟩ := calc_bid_score_any_fuel b x xx vul t ht topFuel (by decide)
  have hf : findFunc PB.funcs n_calc_bid_score = some f_calc_bid_score := rfl
  simp only [fn, Program.runFn, hf, h, Except.map, R.int?]

/-- the translated function and the hand-written model of it agree on the whole domain -/
theorem calc_bid_score_translated_is_model (b : Fin 35) (x xx vul : Bool) (t : Nat) (ht : t ≤ 13) :
    (fn n_calc_bid_score [encBid b, .bool x, .bool xx, .bool vul, .int t]).int? = some (calcBidScore b x xx vul t) := by
  rw [calc_bid_score_translated_is_law b x xx vul t ht]
  have : ∀ b : Fin 35, ∀ x xx vul : Bool, ∀ t : Fin 14,
      dupScore (bidLevel b) (bidDenom b) (status x xx) vul t.val = calcBidScore b x xx vul t.val := by decide +kernel
  exact congrArg some (this b x xx vul ⟨t, by omega⟩)

/-- Pass, X and XX are refused with `ValueError`, whatever the other arguments -/
theorem calc_bid_score_translated_rejects_non_bids : ∀ v : Fin 3, ∀ x xx vul : Bool, ∀ t : Fin 14,
    (fn n_calc_bid_score [.enum n_Bid (36 + v.val), .bool x, .bool xx, .bool vul, .int t.val]).exc? = some K.ValueError := by
  decide +kernel

/-! sanity: 4♠ vulnerable making 10 = 620; 7NT XX vul made = 2980 -/
example : (fn n_calc_bid_score [encBid ⟨18, by omega⟩, .bool false, .bool false, .bool true, .int 10]).int? = some 620 := by
  decide +kernel
example : (fn n_calc_bid_score [encBid ⟨34, by omega⟩, .bool true, .bool true, .bool true, .int 13]).int? = some 2980 := by
  decide +kernel

end Bridge.Translated
