import BridgeVerif.Translated.ThreadsSeatCLemmasB
/-! the hypothesis "every `ready` message consumed passes its check" for the board loop; the phases' theorems made
uniform in `out` / the tables; ONE board of the generated loop is `seatBoardR` -/
set_option maxRecDepth 4000
namespace Bridge.Translated.SeatC
open Bridge Bridge.Py Bridge.Generated.PyCore
open Bridge.Translated.SeatB (playingChecks seat_playing_translated encSeatActs_append sb_execF_append)

/-! ## the checks -/

/-- every client `ready …` message ONE board consumes passes `_check_message` (walks the streams like `seatBoardR`):
`dealChecks`, then `bidChecks` on what `_deal` leaves, then — when the second message is `nothing happens` —
`playingChecks` on what the auction leaves -/
def boardChecks (p : Seat) (i : SeatIn) : Prop :=
  dealChecks p i.c ∧
  ∀ d i1, seatDealR p i = some (d, i1) →
    bidChecks p (i1.q.length + 1) i1 ∧
    ∀ b i2 i3, seatBiddingR p (i1.q.length + 1) i1 = some (b, i2) → i2.getQ = some (MSG_NULL, i3) →
      playingChecks p i3

/-- … by the boards of `seatBoardsR p n` (walks like `seatBoardsR`) -/
def boardsChecks (p : Seat) : Nat → SeatIn → Prop
  | 0, _ => True
  | n + 1, i => boardChecks p i ∧ ∀ pre i1, seatBoardR p i = some (pre, MSG_NEXT, i1) → boardsChecks p n i1

/-- the seat table and its later snapshots after the boards of `seatBoardsR p n`: `_deal` waits twice at the barrier per
board (`w_sync` → `w_advance`, i.e. `advanceTables`) -/
def boardsTables (p : Seat) : Nat → SeatIn → Val × List Val → Val × List Val
  | 0, _, tt => tt
  | n + 1, i, tt =>
    match seatBoardR p i with
    | some (_, status, i1) => if status = MSG_NEXT then boardsTables p n i1 (adv2 tt) else adv2 tt
    | none => tt

/-! ## the phases, uniformly in `out` and the tables -/

theorem sc_deal_uniform (p : Seat) (q c q' c' : List Str) (acts : SeatActs) (extra : List (Id × Val))
    (h : seatDealR p ⟨q, c⟩ = some (acts, ⟨q', c'⟩)) (hck : dealChecks p c) :
    ∃ ops, encSeatActs p acts = some ops ∧ ∀ (out : List Val) (table : Val) (tables : List Val) (f : Nat), 71 ≤ f →
      callFn P f m_SeatThread__deal [encSeatThread p (encSeatWorld p q c out table tables) extra]
        = .ok (.bool true, encSeatThread p (encSeatWorld p q' c' (out ++ ops)
            (adv2 (table, tables)).1 (adv2 (table, tables)).2) extra) := by
  obtain ⟨ops, ho, _⟩ := seat_deal_translated p q c q' c' acts [] .none [] extra h hck
  refine ⟨ops, ho, fun out table tables f hf => ?_⟩
  obtain ⟨ops', ho', h'⟩ := seat_deal_translated p q c q' c' acts out table tables extra h hck
  have e : ops' = ops := by rw [ho] at ho'; exact (Option.some.inj ho').symm
  subst e
  exact h' f hf

theorem sc_bidding_uniform (p : Seat) (fuel : Nat) (q c q' c' : List Str) (acts : SeatActs) (extra : List (Id × Val))
    (h : seatBiddingR p fuel ⟨q, c⟩ = some (acts, ⟨q', c'⟩)) (hck : bidChecks p fuel ⟨q, c⟩) :
    ∃ ops, encSeatActs p acts = some ops ∧ ∀ (out : List Val) (table : Val) (tables : List Val) (f : Nat),
      q.length + 66 ≤ f →
      callFn P f m_SeatThread__bidding_phase [encSeatThread p (encSeatWorld p q c out table tables) extra]
        = .ok (.bool true, encSeatThread p (encSeatWorld p q' c' (out ++ ops) table tables) extra) := by
  obtain ⟨ops, ho, _⟩ := seat_bidding_translated p fuel q c q' c' acts [] .none [] extra h hck
  refine ⟨ops, ho, fun out table tables f hf => ?_⟩
  obtain ⟨ops', ho', h'⟩ := seat_bidding_translated p fuel q c q' c' acts out table tables extra h hck
  have e : ops' = ops := by rw [ho] at ho'; exact (Option.some.inj ho').symm
  subst e
  exact h' f hf

theorem sc_playing_uniform (p : Seat) (q c q' c' : List Str) (acts : SeatActs) (extra : List (Id × Val))
    (h : seatPlayingR p ⟨q, c⟩ = some (acts, ⟨q', c'⟩)) (hck : playingChecks p ⟨q, c⟩) :
    ∃ ops, encSeatActs p acts = some ops ∧ ∀ (out : List Val) (table : Val) (tables : List Val) (f : Nat), 28 ≤ f →
      callFn P f m_SeatThread__playing_phase [encSeatThread p (encSeatWorld p q c out table tables) extra]
        = .ok (.bool true, encSeatThread p (encSeatWorld p q' c' (out ++ ops) table tables) extra) := by
  obtain ⟨ops, ho, _⟩ := seat_playing_translated 28 (Nat.le_refl _) p q c q' c' acts [] .none [] extra h hck
  refine ⟨ops, ho, fun out table tables f hf => ?_⟩
  obtain ⟨ops', ho', h'⟩ := seat_playing_translated f hf p q c q' c' acts out table tables extra h hck
  have e : ops' = ops := by rw [ho] at ho'; exact (Option.some.inj ho').symm
  subst e
  exact h'

theorem seatDealR_len (p : Seat) (i i' : SeatIn) (acts : SeatActs) (h : seatDealR p i = some (acts, i')) :
    i'.q.length + 2 = i.q.length := by
  simp only [seatDealR, Option.bind_eq_bind] at h
  obtain ⟨⟨m1, i1⟩, h1, h⟩ := bind_some_inv h
  obtain ⟨⟨m2, i2⟩, h2, h⟩ := bind_some_inv h
  obtain ⟨⟨m3, i3⟩, h3, h⟩ := bind_some_inv h
  obtain ⟨⟨m4, i4⟩, h4, h⟩ := bind_some_inv h
  simp only [Option.pure_def, Option.some.injEq, Prod.mk.injEq] at h
  obtain ⟨_, rfl⟩ := h
  have l1 := getC_len h1
  have l2 := (getQ_len h2).1
  have l3 := getC_len h3
  have l4 := (getQ_len h4).1
  try dsimp only at l1 l2 l3 l4 ⊢
  rw [l3] at l4
  rw [l1] at l2
  omega

theorem getQ_eq {i i' : SeatIn} {m : Text} (h : i.getQ = some (m, i')) : i = ⟨m :: i'.q, i'.c⟩ := by
  obtain ⟨q, c⟩ := i
  cases q with
  | nil => simp [SeatIn.getQ] at h
  | cons x r =>
    simp only [SeatIn.getQ, Option.some.injEq, Prod.mk.injEq] at h
    obtain ⟨rfl, rfl⟩ := h
    rfl

theorem sc_enc_get (p : Seat) : encSeatActs p [.recv (.m2t p)] = some [.tuple [vstr "get", vstr "m2t", encSeat p]] := by
  simp [encSeatActs, encSeatAct]

/-! ## one board of the generated loop -/

/-- the front part of the loop body on the streams `q`, `c` performs `send "Start of board"` and then the actions of
`seatBoardR` up to (not including) the receipt of the status message, which is left at the head of the queue -/
theorem sc_board_front (g : Nat) (p : Seat) (q c q1 c1 : List Str) (pre : SeatActs) (status : Str)
    (extra : List (Id × Val))
    (h : seatBoardR p ⟨q, c⟩ = some (pre, status, ⟨q1, c1⟩)) (hck : boardChecks p ⟨q, c⟩) (hg : q.length + 70 ≤ g) :
    ∃ pops, encSeatActs p pre = some pops ∧ q1.length + 3 ≤ q.length ∧
      ∀ (out : List Val) (table : Val) (tables : List Val) (rest : Env),
      ∃ rest', execF (mkRec P (g+30)) P
          ((K.self, encSeatThread p (encSeatWorld p q c out table tables) extra) :: rest) runFront
        = .ok ((K.self, encSeatThread p (encSeatWorld p (status :: q1) c1
            (out ++ [.tuple [vstr "send", .str MSG_START]] ++ pops)
            (adv2 (table, tables)).1 (adv2 (table, tables)).2) extra) :: rest', .next) := by
  simp only [seatBoardR, Option.bind_eq_bind] at h
  obtain ⟨⟨d, ⟨qd, cd⟩⟩, h1, hA⟩ := bind_some_inv h
  obtain ⟨⟨b, i2⟩, h2, hB⟩ := bind_some_inv hA
  obtain ⟨⟨second, ⟨qb, cb⟩⟩, h3, hC⟩ := bind_some_inv hB
  clear h hA hB
  dsimp only at h2 h3 hC
  have e2 := getQ_eq h3
  dsimp only at e2
  subst e2
  obtain ⟨hck1, hck2⟩ := hck
  obtain ⟨hck2, hck3⟩ := hck2 d ⟨qd, cd⟩ h1
  have ld := seatDealR_len _ _ _ _ h1
  have lb := seatBiddingR_len _ _ _ _ _ h2
  dsimp only [List.length_cons] at ld lb
  obtain ⟨dops, hdo, hd⟩ := sc_deal_uniform p q c qd cd d extra h1 hck1
  obtain ⟨bops, hbo, hb⟩ := sc_bidding_uniform p _ qd cd _ cb b extra h2 hck2
  have hd' : ∀ k out table tables, callF (mkRec P (g+k)) m_SeatThread__deal
        [encSeatThread p (encSeatWorld p q c out table tables) extra]
      = .ok (.bool true, encSeatThread p (encSeatWorld p qd cd (out ++ dops)
          (adv2 (table, tables)).1 (adv2 (table, tables)).2) extra) :=
    fun k out table tables => hd out table tables (g+k+1) (by omega)
  by_cases s1 : second = MSG_PASSED_OUT
  · simp only [if_pos s1, Option.pure_def, Option.bind_some] at hC
    subst s1
    obtain ⟨⟨st, i5⟩, h5, hC⟩ := bind_some_inv hC
    simp only [Option.some.injEq, Prod.mk.injEq] at hC
    obtain ⟨rfl, rfl, rfl⟩ := hC
    have e5 := getQ_eq h5
    dsimp only at e5
    injection e5 with e5q e5c
    subst e5q
    subst e5c
    have hb' : ∀ k out table tables, callF (mkRec P (g+k)) m_SeatThread__bidding_phase
        [encSeatThread p (encSeatWorld p qd cd out table tables) extra]
      = .ok (.bool true, encSeatThread p (encSeatWorld p (MSG_PASSED_OUT :: _ :: q1) _ (out ++ bops) table tables)
          extra) :=
      fun k out table tables => hb out table tables (g+k+1) (by omega)
    refine ⟨dops ++ bops ++ [.tuple [vstr "get", vstr "m2t", encSeat p]] ++ [], ?_, ?_, fun out table tables rest => ?_⟩
    · exact encSeatActs_append p _ _ _ _ (encSeatActs_append p _ _ _ _ (encSeatActs_append p _ _ _ _ hdo hbo)
        (sc_enc_get p)) rfl
    · simp only [List.length_cons] at lb; omega
    · obtain ⟨rest', hx⟩ := sc_front_passed g p q c qd cd _ _ dops bops extra out table tables rest hd' hb'
      refine ⟨rest', ?_⟩
      rw [hx]
      simp only [List.append_assoc, List.append_nil]
  · simp only [if_neg s1] at hC
    by_cases s2 : second = MSG_NULL
    · simp only [if_pos s2] at hC
      subst s2
      obtain ⟨⟨pl, ⟨qp, cp⟩⟩, h4, hC⟩ := bind_some_inv hC
      obtain ⟨⟨st, i5⟩, h5, hC⟩ := bind_some_inv hC
      simp only [Option.pure_def, Option.some.injEq, Prod.mk.injEq] at hC
      obtain ⟨rfl, rfl, rfl⟩ := hC
      have e5 := getQ_eq h5
      dsimp only at e5
      injection e5 with e5q e5c
      subst e5q
      subst e5c
      have lp := seatPlayingR_len _ _ _ _ h4
      have hck4 := hck3 b _ _ h2 h3
      obtain ⟨pops, hpo, hp⟩ := sc_playing_uniform p qb cb _ _ pl extra h4 hck4
      have hb' : ∀ k out table tables, callF (mkRec P (g+k)) m_SeatThread__bidding_phase
          [encSeatThread p (encSeatWorld p qd cd out table tables) extra]
        = .ok (.bool true, encSeatThread p (encSeatWorld p (MSG_NULL :: qb) cb (out ++ bops) table tables) extra) :=
        fun k out table tables => hb out table tables (g+k+1) (by omega)
      have hp' : ∀ k out table tables, callF (mkRec P (g+k)) m_SeatThread__playing_phase
          [encSeatThread p (encSeatWorld p qb cb out table tables) extra]
        = .ok (.bool true, encSeatThread p (encSeatWorld p (_ :: q1) _ (out ++ pops) table tables) extra) :=
        fun k out table tables => hp out table tables (g+k+1) (by omega)
      refine ⟨dops ++ bops ++ [.tuple [vstr "get", vstr "m2t", encSeat p]] ++ pops, ?_, ?_,
        fun out table tables rest => ?_⟩
      · exact encSeatActs_append p _ _ _ _ (encSeatActs_append p _ _ _ _ (encSeatActs_append p _ _ _ _ hdo hbo)
          (sc_enc_get p)) hpo
      · simp only [List.length_cons] at lb lp; omega
      · obtain ⟨rest', hx⟩ := sc_front_played g p q c qd cd qb cb _ _ dops bops pops extra out table tables rest hd' hb' hp'
        refine ⟨rest', ?_⟩
        rw [hx]
        simp only [List.append_assoc]
    · simp only [if_neg s2] at hC
      cases hC

end Bridge.Translated.SeatC
