import BridgeVerif.Translated.PlayLemmasC
/-! Translated playing phases = model: the helpers of `play_card` — `PlayingHistory.record`, `_record`,
`_set_next_leader` (with its `for _ in range(highest_idx)` loop) -/
namespace Bridge.Translated
open Bridge Bridge.Py Bridge.Generated.PyCore

/-- the well-formedness `play_card` needs: the trick being played is the next one of the history
(`PlayingHistory.record` raises `ValueError` otherwise) -/
def WF (s : PState) : Prop := s.history.length + 1 = s.trickNum

theorem wf_init (c : Contract) (s : PState) (h : PState.init c = some s) : WF s := by
  unfold PState.init at h
  split at h
  · cases h; rfl
  · cases h

theorem wf_playCard (s : PState) (card : Card) (h : WF s) : WF (playCard s card) := by
  unfold WF at *
  unfold playCard
  simp only
  split
  · unfold addTaken
    split <;> simp only [List.length_cons] <;> omega
  · exact h

/-! ## `PlayingHistory.record` -/
theorem mth_record : P.method? classDepth n_PlayingHistory n_record = some (n_PlayingHistory, m_PlayingHistory_record) := rfl
theorem meth_encHistory (r : Rec) (c : Contract) (h : List Trick) (m : Id) (args : List Val) :
    methF r P (encHistory c h) m args = callMethod r P n_PlayingHistory m (encHistory c h :: args) (.exc K.AttributeError) :=
  rfl

theorem record_call (f : Nat) (c : Contract) (h : List Trick) (tn : Nat) (t : Trick) (hwf : h.length + 1 = tn) :
    callF (mkRec P (f+10)) m_PlayingHistory_record [encHistory c h, .int tn, encTrick t]
      = .ok (.none, encHistory c (t :: h)) := by
  rw [callF_def]
  simp only [m_PlayingHistory_record, bindParams, Option.map, encHistory]
  have e : ((h.reverse.map encTrick).length : Int) = (tn : Int) - 1 := by
    simp only [List.length_map, List.length_reverse]; omega
  ppsimp [len_tuple, beq_int, e, List.reverse_cons, List.map_append, List.map_cons, List.map_nil, beq_self_eq_true,
    Bool.true_eq_false]

theorem record_call' (f : Nat) (c : Contract) (h : List Trick) (tn : Nat) (l : Seat) (cs : List Card)
    (hwf : h.length + 1 = tn) :
    callF (mkRec P (f+10)) m_PlayingHistory_record
        [encHistory c h, .int tn, .obj n_TrickHistory [(n_leader, encSeat l), (n_cards, .tuple (cs.map encCard))]]
      = .ok (.none, encHistory c (⟨l, cs⟩ :: h)) := record_call f c h tn ⟨l, cs⟩ hwf

theorem record_call_bad (f : Nat) (c : Contract) (h : List Trick) (tn : Nat) (l : Seat) (cs : List Card)
    (hwf : ¬ h.length + 1 = tn) :
    callF (mkRec P (f+10)) m_PlayingHistory_record
        [encHistory c h, .int tn, .obj n_TrickHistory [(n_leader, encSeat l), (n_cards, .tuple (cs.map encCard))]]
      = .error (.exc K.ValueError) := by
  rw [callF_def]
  simp only [m_PlayingHistory_record, bindParams, Option.map, encHistory]
  have e : ¬ ((h.reverse.map encTrick).length : Int) = (tn : Int) - 1 := by
    simp only [List.length_map, List.length_reverse]; omega
  ppsimp [len_tuple, beq_int, beq_eq_false_iff_ne, ne_eq, e]

/-! ## `_record` -/
theorem construct_trick (r : Rec) (l cs : Val) :
    constructF r P n_TrickHistory [l, cs] = .ok (.obj n_TrickHistory [(n_leader, l), (n_cards, cs)]) := rfl
theorem builtin_tuple_tuple (r : Rec) (xs : List Val) : builtinF r P .tuple [.tuple xs] = .ok (.tuple xs) := rfl

theorem record_self_call (f : Nat) (k : Id) (ex : List (Id × Val)) (c : Contract) (s : PState) (hwf : WF s) :
    callF (mkRec P (f+20)) m_PlayingPhase__record [ppObj k c s ex]
      = .ok (.none, ppObj k c { s with history := ⟨s.leader, s.trick⟩ :: s.history } ex) := by
  rw [callF_def]
  simp only [m_PlayingPhase__record, bindParams, Option.map, ppObj, baseFields]
  ppsimp [encCards, construct_trick, builtin_tuple_tuple, meth_encHistory, mth_record, record_call' _ _ _ _ _ _ hwf]

theorem record_self_call_bad (f : Nat) (k : Id) (ex : List (Id × Val)) (c : Contract) (s : PState) (hwf : ¬ WF s) :
    callF (mkRec P (f+20)) m_PlayingPhase__record [ppObj k c s ex] = .error (.exc K.ValueError) := by
  rw [callF_def]
  simp only [m_PlayingPhase__record, bindParams, Option.map, ppObj, baseFields]
  ppsimp [encCards, construct_trick, builtin_tuple_tuple, meth_encHistory, mth_record, record_call_bad _ _ _ _ _ _ hwf]

/-! ## `_set_next_leader` -/
def snlBody : List Stmt := match m_PlayingPhase__set_next_leader.body.getD 3 .pass with
  | .for _ _ b => b
  | _ => []

/-- `for _ in items: self.leader = self.leader.next_player` -/
theorem leader_loop (f : Nat) (k : Id) (ex : List (Id × Val)) (c : Contract) :
    ∀ (items : List Val) (s : PState) (tail : Env),
      forF (mkRec P (f+20)) [n__] snlBody ((K.self, ppObj k c s ex) :: tail) items
        = .ok ((K.self, ppObj k c { s with leader := s.leader.rot items.length } ex)
                 :: items.foldl (fun t it => update t n__ it) tail, .next) := by
  intro items
  induction items with
  | nil => intro s tail; rfl
  | cons it items ih =>
    intro s tail
    simp only [forF, snlBody, m_PlayingPhase__set_next_leader, List.getD_cons_succ, List.getD_cons_zero, ppObj, baseFields]
    ppsimp [getAttr_next]
    have := ih { s with leader := s.leader.left } (update tail n__ it)
    simp only [snlBody, m_PlayingPhase__set_next_leader, List.getD_cons_succ, List.getD_cons_zero, ppObj, baseFields,
      List.cons_append, List.nil_append] at this
    rw [this]
    simp only [rot_succ']

theorem calc_highest_call' (f : Nat) (su : Suit) (cs : List Card) :
    callF (mkRec P (f+12)) m_PlayingPhase_calc_highest [encSuit su, .tuple (cs.map encCard)]
      = .ok (.int (calcHighest su cs), encSuit su) := calc_highest_call f su cs
theorem builtin_range (r : Rec) (n : Int) :
    builtinF r P .range [.int n] = .ok (.tuple ((List.range n.toNat).map fun i => .int (Int.ofNat i))) := rfl
theorem index_cards_zero (r : Rec) (c0 : Card) (rest : List Card) :
    indexF r P (.tuple ((c0 :: rest).map encCard)) (.int 0) = .ok (encCard c0) := by
  simp only [index_tuple, pp_asInt_int, List.length_map, List.length_cons, normIndex_zero_succ, List.map_cons,
    List.getD_cons_zero]

theorem set_next_leader_call (f : Nat) (k : Id) (ex : List (Id × Val)) (c : Contract) (s : PState)
    (h4 : s.trick.length = 4) :
    callF (mkRec P (f+40)) m_PlayingPhase__set_next_leader [ppObj k c s ex]
      = .ok (.none, ppObj k c { s with leader := s.leader.rot (highestIdx s.trump s.trick).toNat } ex) := by
  rw [callF_def]
  simp only [m_PlayingPhase__set_next_leader, bindParams, Option.map, ppObj, baseFields]
  obtain ⟨trump, declarer, dummy, leader, active, trick, trickNum, history, used, takenNS, takenEW⟩ := s
  simp only at h4 ⊢
  match trick, h4 with
  | c0 :: rest, h4 =>
    have e4 : ((rest.length + 1 : Nat) : Int) = 4 := by simp only [List.length_cons] at h4; rw [h4]; rfl
    by_cases hneg : calcHighest trump (c0 :: rest) < 0
    · ppsimp [encCards, len_tuple, List.length_map, e4, beq_int, beq_self_eq_true, Bool.true_eq_false, mth_calc_highest,
        calc_highest_call', hneg, index_cards_zero, builtin_range, iterItems_tuple]
      have hl := leader_loop (f+19) k ex c
        (List.map (fun i => Val.int (Int.ofNat i)) (List.range (calcHighest c0.suit (c0 :: rest)).toNat))
        ⟨trump, declarer, dummy, leader, active, c0 :: rest, trickNum, history, used, takenNS, takenEW⟩
        [(n_highest_idx, Val.int (calcHighest c0.suit (c0 :: rest)))]
      simp only [snlBody, m_PlayingPhase__set_next_leader, List.getD_cons_succ, List.getD_cons_zero, ppObj, baseFields,
        List.cons_append, List.nil_append, encCards, List.length_map, List.length_range] at hl
      rw [hl]
      ppsimp [highestIdx, hneg]
    · ppsimp [encCards, len_tuple, List.length_map, e4, beq_int, beq_self_eq_true, Bool.true_eq_false, mth_calc_highest,
        calc_highest_call', hneg, index_cards_zero, builtin_range, iterItems_tuple]
      have hl := leader_loop (f+19) k ex c
        (List.map (fun i => Val.int (Int.ofNat i)) (List.range (calcHighest trump (c0 :: rest)).toNat))
        ⟨trump, declarer, dummy, leader, active, c0 :: rest, trickNum, history, used, takenNS, takenEW⟩
        [(n_highest_idx, Val.int (calcHighest trump (c0 :: rest)))]
      simp only [snlBody, m_PlayingPhase__set_next_leader, List.getD_cons_succ, List.getD_cons_zero, ppObj, baseFields,
        List.cons_append, List.nil_append, encCards, List.length_map, List.length_range] at hl
      rw [hl]
      ppsimp [highestIdx, hneg]

end Bridge.Translated
