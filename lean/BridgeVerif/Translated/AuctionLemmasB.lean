import BridgeVerif.Translated.AuctionLemmasA
/-! Translated `BiddingPhase` = model: reading / writing the encoded containers (38-slot vector, histories, dictionaries),
and Python `==` / `is` on encoded values -/
namespace Bridge.Translated
open Bridge Bridge.Py Bridge.Generated.PyCore

/-! ## `Val.beq` on encoded values -/

theorem beq_encOptSeat_none (o : Option Seat) : (encOpt encSeat o).beq .none = o.isNone := by
  cases o <;> simp [encOpt, encSeat, Val.beq]
theorem beq_encOptBid_none (o : Option (Fin 35)) : (encOpt encBid o).beq .none = o.isNone := by
  cases o <;> simp [encOpt, encBid, Val.beq]
theorem beq_none_none : Val.none.beq .none = true := by simp [Val.beq]
theorem beq_int_1_0 : (Val.int 1).beq (.int 0) = false := by simp [Val.beq]
theorem beq_int_0_0 : (Val.int 0).beq (.int 0) = true := by simp [Val.beq]
theorem beq_encSuit_none (s : Suit) : (encSuit s).beq .none = false := by simp [encSuit, Val.beq]
theorem beq_encSeat_none (s : Seat) : (encSeat s).beq .none = false := by simp [encSeat, Val.beq]

theorem beq_encCall_pass (c : Call) : (encCall c).beq (.enum n_Bid 36) = decide (c = .pass) := by
  cases c <;> simp [encCall, Val.beq, Call.value, Call.idx] <;> omega
theorem beq_encCall_dbl (c : Call) : (encCall c).beq (.enum n_Bid 37) = decide (c = .dbl) := by
  cases c <;> simp [encCall, Val.beq, Call.value, Call.idx] <;> omega
theorem beq_encCall_rdbl (c : Call) : (encCall c).beq (.enum n_Bid 38) = decide (c = .rdbl) := by
  cases c <;> simp [encCall, Val.beq, Call.value, Call.idx] <;> omega
theorem beq_encBid_pass (i : Fin 35) : (encBid i).beq (.enum n_Bid 36) = false := by
  simp [encBid, Val.beq]; omega
theorem beq_encBid_dbl (i : Fin 35) : (encBid i).beq (.enum n_Bid 37) = false := by
  simp [encBid, Val.beq]; omega
theorem beq_encBid_rdbl (i : Fin 35) : (encBid i).beq (.enum n_Bid 38) = false := by
  simp [encBid, Val.beq]; omega
theorem beq_slot_zero (b : Bool) : (Val.int (if b then 1 else 0)).beq (.int 0) = !b := by
  cases b <;> simp [Val.beq]

/-! ## the 38-slot vector -/

theorem callOfIdx_idx (c : Call) : callOfIdx c.idx = c := by
  cases c with
  | bid i => simp [callOfIdx, Call.idx]
  | pass => rfl
  | dbl => rfl
  | rdbl => rfl

theorem idx_lt (c : Call) : c.idx < 38 := by
  cases c with
  | bid i => have := i.isLt; simp [Call.idx]; omega
  | pass => decide
  | dbl => decide
  | rdbl => decide

theorem availList_length (a : Call → Bool) : (availList a).length = 38 := by simp [availList]

theorem availList_congr {a b : Call → Bool} (h : ∀ c, a c = b c) : availList a = availList b := by
  have : a = b := funext h
  rw [this]

theorem index_avail (r : Rec) (a : Call → Bool) (c : Call) :
    indexF r P (.tuple (availList a)) (.int c.idx) = .ok (.int (if a c then 1 else 0)) := by
  have h := idx_lt c
  simp [indexF, asInt?, normIndex, availList_length]
  simp [availList, h, callOfIdx_idx]
  rfl

theorem replaceAt_eq_set (xs : List Val) (n : Nat) (v : Val) : replaceAt xs n v = xs.set n v := by
  induction xs generalizing n with
  | nil => rfl
  | cons x r ih => cases n with
    | zero => rfl
    | succ n => simp [replaceAt, ih]

theorem replaceAt_avail (a : Call → Bool) (c : Call) (b : Bool) :
    replaceAt (availList a) c.idx (.int (if b then 1 else 0)) = availList (fun k => if k = c then b else a k) := by
  rw [replaceAt_eq_set]
  apply List.ext_getElem
  · simp [availList]
  · intro n h1 h2
    have hn : n < 38 := by simpa [availList] using h2
    simp only [availList, List.getElem_set, List.getElem_map, List.getElem_range]
    by_cases hc : c.idx = n
    · subst hc; simp [callOfIdx_idx]
    · have : callOfIdx n ≠ c := by
        intro hh; apply hc; rw [← hh]
        unfold callOfIdx
        split
        · rfl
        · split
          · simp [Call.idx, *]
          · split
            · simp [Call.idx, *]
            · simp [Call.idx]; omega
      simp [hc, this]

theorem fillSlice_avail (a : Call → Bool) (i : Fin 35) :
    fillSlice (availList a) none (some ((i.val : Int) + 1)) (.int 0)
      = availList (fun k => match k with | .bid j => if j ≤ i then false else a k | k => a k) := by
  have hi := i.isLt
  have hc : clampIndex 38 ((i.val : Int) + 1) = i.val + 1 := by
    unfold clampIndex
    have : (0 : Int) ≤ (i.val : Int) + 1 := by omega
    simp only [this, if_true]
    omega
  unfold fillSlice
  simp only [availList_length, hc]
  apply List.ext_getElem
  · simp [availList]
  · intro n h1 h2
    have hn : n < 38 := by simpa [availList] using h2
    simp only [availList, List.getElem_mapIdx, List.getElem_map, List.getElem_range]
    by_cases h35 : n < 35
    · simp only [callOfIdx, h35, dite_true, Fin.le_def]
      by_cases hle : n ≤ i.val
      · have : n < i.val + 1 := by omega
        simp [hle, this]
      · have : ¬ n < i.val + 1 := by omega
        simp [hle, this]
    · have : ¬ n < i.val + 1 := by omega
      simp only [callOfIdx, h35, dite_false, this, and_false, if_false]
      by_cases h5 : n = 35
      · simp [h5]
      · by_cases h6 : n = 36 <;> simp [h5, h6]

/-! ## histories -/

theorem hist_len (r : Rec) (h : List Call) :
    builtinF r P .len [.tuple (h.reverse.map encCall)] = .ok (.int h.length) := by
  simp [builtinF]; rfl

theorem hist_last (r : Rec) (c : Call) (h : List Call) :
    indexF r P (.tuple ((c :: h).reverse.map encCall)) (.int (-1)) = .ok (encCall c) := by
  simp [indexF, asInt?, normIndex]
  rfl

theorem hist_last2 (r : Rec) (c d : Call) (h : List Call) :
    indexF r P (.tuple ((c :: d :: h).reverse.map encCall)) (.int (-2)) = .ok (encCall d) := by
  simp [indexF, asInt?, normIndex]
  rfl

/-! ## the per-seat dictionary -/

theorem lookup_perSeat (ps : Seat → List Call) (p : Seat) :
    lookupD (perSeatKvs ps) (encSeat p) = some (.tuple ((ps p).reverse.map encCall)) := by
  cases p <;> simp [lookupD, perSeatKvs, encSeat, Val.beq, Seat.value]

theorem update_perSeat (ps : Seat → List Call) (p : Seat) (c : Call) :
    updateD (perSeatKvs ps) (encSeat p) (.tuple ((ps p).reverse.map encCall ++ [encCall c]))
      = perSeatKvs (fun q => if q = p then c :: ps q else ps q) := by
  cases p <;> simp [updateD, perSeatKvs, encSeat, Val.beq, Seat.value]

/-! ## the declarer-check dictionary -/

theorem lookup_declKvs (dc : Side → Suit → Option Seat) (sd : Side) :
    lookupD (declKvs dc) (encSide sd) = some (.dict (declRow (dc sd))) := by
  cases sd <;> simp [lookupD, declKvs, encSide, Val.beq, Side.value]

theorem lookup_declRow (r : Suit → Option Seat) (su : Suit) :
    lookupD (declRow r) (encSuit su) = some (encOpt encSeat (r su)) := by
  cases su <;> simp [lookupD, declRow, encSuit, Val.beq, Suit.value]

theorem update_declRow (r : Suit → Option Seat) (su : Suit) (p : Seat) :
    updateD (declRow r) (encSuit su) (encSeat p) = declRow (fun su' => if su' = su then some p else r su') := by
  cases su <;> simp [updateD, declRow, encSuit, Val.beq, Suit.value, encOpt]

theorem update_declKvs (dc : Side → Suit → Option Seat) (sd : Side) (r : Suit → Option Seat) :
    updateD (declKvs dc) (encSide sd) (.dict (declRow r)) = declKvs (fun sd' => if sd' = sd then r else dc sd') := by
  cases sd <;> simp [updateD, declKvs, encSide, Val.beq, Side.value]

end Bridge.Translated
