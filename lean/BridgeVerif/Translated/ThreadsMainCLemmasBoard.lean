import BridgeVerif.Translated.ThreadsMainCLemmasG
/-!
# The TRANSLATED `MainThread.run` (Generated/PyCoreThreads.lean) IS the reactive model of Model/MainThread.lean
-/
set_option maxRecDepth 4000
set_option linter.unusedSimpArgs false
namespace Bridge.Translated.MainC
open Bridge Bridge.Py Bridge.Generated.PyCore Bridge.Translated.MainA Bridge.Translated.MainB

/-! ## (0) `deal`, the cards given as the dictionary seat ↦ cards -/

/-- THE TRANSLATED `Server.deal` IS `mainDealR`, for the deal handed over as `.dict (handsKvs cards)` (the form
`main_playing_translated` uses and the harness passes): `Server.deal` only indexes `cards[player]` -/
theorem mc_deal_dict (encRec : BoardRecord → Val) (k : Nat) (dealer : Seat) (vul : Vul) (cards : Hands)
    (b : BoardSetting) (hd : b.dealer = dealer) (hv : b.vul = vul) (hc : b.deal = cards)
    (hok : ∀ p, ∀ c ∈ cards p, 2 ≤ c.rank ∧ c.rank ≤ 14)
    (i : MainIn) (out : List Val) (table : Val) (tables : List Val) (more : List (Val × Val)) (bs : Val)
    (f : Nat) (hf : 61 ≤ f) :
    ∃ ops, encMainActs encRec (mainDealR k b) = some ops ∧
      callFn P f m_MainThread_deal
          [encMainThread (encMainWorld i out table tables more) bs, .int k, encSeat dealer, encVul vul,
            .dict (handsKvs cards), .none]
        = .ok (.none, encMainThread (encMainWorld i (out ++ ops)
                (advTable (advTable table tables).1 (advTable table tables).2).1
                (advTable (advTable table tables).1 (advTable table tables).2).2 more) bs) := by
  obtain ⟨g, rfl⟩ : ∃ g, f = g + 61 := ⟨f - 61, by omega⟩
  subst hd; subst hv; subst hc
  exact ⟨dealOps k b, main_deal_ops encRec k b, mc_deal_call g k b hok (mainIns i more) out table tables false bs⟩

/-- non-vacuity: the partial deal of ThreadsMainA.lean, as a dictionary -/
example : ∃ ops, encMainActs (fun _ => .none) (mainDealR 7 exBoard) = some ops ∧
    callFn P 100 m_MainThread_deal
        [encMainThread (encMainWorld (fun _ => []) [] (.dict []) [.int 1, .int 2, .int 3] []) .none, .int 7, encSeat .E, encVul .ns,
          .dict (handsKvs exBoard.deal), .none]
      = .ok (.none, encMainThread (encMainWorld (fun _ => []) ([] ++ ops) (.int 2) [.int 3] []) .none) :=
  mc_deal_dict (fun _ => .none) 7 .E .ns exBoard.deal exBoard rfl rfl rfl
    (by intro p c hc; cases p <;> simp [exBoard] at hc <;> (try rcases hc with rfl | rfl | rfl) <;> (try subst hc) <;> decide)
    (fun _ => []) [] (.dict []) [.int 1, .int 2, .int 3] [] .none 100 (by decide)

/-! ## (1) one iteration of the board loop -/

/-- the parse hypotheses of one board (those of `main_bidding_translated` and `main_playing_translated`): the texts the
auction consumes are parsed by the translated `remove_alert_word` / `parse_bid` as the model parses them (`BidMsgsOK`, at
every fuel from `F` on), and — when the board is played — the texts the play consumes are parsed by the translated
`parse_card` as the model parses them (`PlayParses`) -/
def BoardParses (F : Nat) (b : BoardSetting) (i : MainIn) : Prop :=
  BidMsgsOK F 321 (AState.init b.dealer b.vul) i ∧
  ∀ bid s i1 c decl w0, mainBiddingR 321 (AState.init b.dealer b.vul) i = some (bid, s, i1) → s.contract = some c →
    c.isPassedOut = false → c.declarer = some decl → WithHands.init c b.deal = some w0 →
    PlayParses decl (cardsMsg "Dummy".toList (b.deal decl.partner)) 13 1 w0 i1

/-- ONE ITERATION OF `for board_number in range(1, max_board_num)` (`mcBoardBody`, extracted from
`m_MainThread_run.body`) IS `mainBoardR`: for the board `b` = `board_settings[k-1]` with board number `k` of `n` boards
(`max_board_num = n + 1`; the last board is `k = n`), on an environment in which `self` is the thread on the streams `i`,
`board_number = k`, `max_board_num = n + 1`, `ns_team_name` / `ew_team_name` the scenario's names — when the model runs
the board (`mainBoardR sc k (k = n) b i = some (acts, i')`), the body runs to its end (`break` on the last board), leaves
the streams `i'`, the table advanced by the two barrier waits of `deal`, and has performed `opsS` where
`stripSleep opsS` followed by `lastOps` (the `emit close` and the four `End of session` puts, which the code performs
AFTER the loop and the model counts with the last board) is `encMainActs encRecord acts`. -/
theorem mc_board (sc : Scenario) (F k n : Nat) (b : BoardSetting) (i i' : MainIn) (acts : MainActs)
    (hm : mainBoardR sc k (decide (k = n)) b i = some (acts, i'))
    (hparse : BoardParses F b i)
    (hok : ∀ p, ∀ c ∈ b.deal p, 2 ≤ c.rank ∧ c.rank ≤ 14)
    (boards : List BoardSetting) (h1 : 1 ≤ k) (hb : boards[k-1]? = some b)
    (more : List (Val × Val)) :
    ∃ opsS, encMainActs encRecord acts = some (stripSleep opsS ++ lastOps (k = n)) ∧
      ∀ (env : Env) (out : List Val) (table : Val) (tables : List Val),
      lookup env K.self
        = some (encMainThread (encMainWorld i out table tables more) (.tuple (boards.map encBoardSetting))) →
      lookup env n_board_number = some (.int k) →
      lookup env n_max_board_num = some (.int ((n : Int) + 1)) →
      lookup env n_ns_team_name = some (.str sc.nsName) →
      lookup env n_ew_team_name = some (.str sc.ewName) →
      ∀ f, F + 700 ≤ f → ∃ env', exec P f env mcBoardBody = .ok (env', if k = n then .brk else .next) ∧
        lookup env' K.self = some (encMainThread (encMainWorld i' (out ++ opsS) (tableAfterDeal table tables).1
          (tableAfterDeal table tables).2 more) (.tuple (boards.map encBoardSetting))) ∧
        Frame boardVars env env' := by
  obtain ⟨bid, s, i1, c, hbidR, hc, hcase⟩ := mainBoardR_inv sc k _ b i i' acts hm
  rcases hcase with ⟨hpo, rfl, rfl⟩ | ⟨hpo, decl, w0, play, w, hdecl, hw0, hplayR, rfl⟩
  · exact mc_board_passed_out sc F k n b i i' bid s c hbidR hc hpo hparse.1 hok boards h1 hb more
  · exact mc_board_played sc F k n b i i1 i' bid play s c decl w0 w hbidR hc hpo hdecl hw0 hplayR hparse.1
      (hparse.2 bid s i1 c decl w0 hbidR hc hpo hdecl hw0) hok boards h1 hb more

end Bridge.Translated.MainC
