import BridgeVerif.Translated.ThreadsClientALemmas
/-! Translated `ClientThread.bidding_phase`: the loop's condition and body, one turn of the loop (own turn / another
seat's turn), the loop rules -/
set_option maxRecDepth 4000
namespace Bridge.Translated.ClientA
open Bridge Bridge.Py Bridge.Generated.PyCore

/-- the condition and the body of the `while not env.has_done()` loop of the generated `bidding_phase` -/
def cbCond : Expr := match m_ClientThread_bidding_phase.body.getD 1 .pass with
  | .while c _ => c
  | _ => .const .none
def cbBody : List Stmt := match m_ClientThread_bidding_phase.body.getD 1 .pass with
  | .while _ b => b
  | _ => []

theorem cb_body_def : m_ClientThread_bidding_phase.body =
    [.assign (.var n_env) (.new n_BiddingPhase [(.attr (.var K.self) n_dealer), (.attr (.var K.self) n_vul)]),
     .while cbCond cbBody,
     .assign (.var n_contract) (.meth (.var n_env) n_contract []),
     .assert (.cmp .isNot (.var n_contract) (.const .none)),
     .ret (.var n_contract)] := rfl
theorem cb_params : m_ClientThread_bidding_phase.params = [K.self] := rfl
theorem cb_defaults : m_ClientThread_bidding_phase.defaults = [] := rfl

theorem ct_methF_state (r : Rec) (s : AState) (m : Id) (args : List Val) :
    methF r P (encState s) m args = callMethod r P n_BiddingPhase m (encState s :: args) (.exc K.AttributeError) := rfl

/-- how the loop goes on after `take_bid` returned `r` (≠ ILLEGAL) -/
def flowOf : Res → Flow
  | .finished => .brk
  | _ => .next

/-- the loop condition `not env.has_done()` -/
theorem ct_cond (g : Nat) (self : Val) (s : AState) (rest : Env) :
    (mkRec P (g+12)).eval ((K.self, self) :: (n_env, encState s) :: rest) cbCond = .ok (.bool (!s.active.isNone)) := by
  simp only [cbCond, m_ClientThread_bidding_phase, List.getD_cons_succ, List.getD_cons_zero]
  ppsimp [has_done_meth]

/-- one turn, own seat: the bidding system's decision (`w_ask`), the bid message, `take_bid` on the own replica -/
theorem ct_turn_own (f : Nat) (p : Seat) (s : AState) (hact : s.active = some p) (c : Call) (st : List Str)
    (bids plays out : List Val) (team : Str) (opp : Val) (extra : List (Id × Val)) (rest : Env) (s0 : Val)
    (hcbm : ∀ g, callF (mkRec P (f+g)) m_Client_create_bid_message [encCall c, .str p.formal]
      = .ok (.str (bidMsg c p.formal), s0))
    (s' : AState) (r : Res) (htb : takeBid s c = .ok (s', r)) (hr : r ≠ .illegal) :
    ∃ rest', (mkRec P (f+60)).exec
        ((K.self, .obj n_ClientThread ((n__w, encClientWorld st (encCall c :: bids) plays out) :: (n_player, encSeat p) ::
          (n_team_name, .str team) :: (n_opponent_team_name, opp) :: extra)) :: (n_env, encState s) :: rest) cbBody
      = .ok ((K.self, .obj n_ClientThread ((n__w, encClientWorld st bids plays
          (out ++ [bidAsk, .tuple [vstr "send", .str (bidMsg c p.formal)]])) :: (n_player, encSeat p) ::
          (n_team_name, .str team) :: (n_opponent_team_name, opp) :: extra)) :: (n_env, encState s') :: rest',
          flowOf r) := by
  cases r with
  | illegal => exact absurd rfl hr
  | ongoing =>
    refine ⟨?_, ?_⟩
    rotate_left
    · simp only [cbBody, m_ClientThread_bidding_phase, List.getD_cons_succ, List.getD_cons_zero]
      ctthsimp [ct_active_player, hact, st_formal_name, ct_mth_cbm, hcbm, ct_methF_state, mth_take_bid,
        ct_take_bid_call, htb, encRes, Val.beq, flowOf, List.append_assoc]
      rfl
  | finished =>
    refine ⟨?_, ?_⟩
    rotate_left
    · simp only [cbBody, m_ClientThread_bidding_phase, List.getD_cons_succ, List.getD_cons_zero]
      ctthsimp [ct_active_player, hact, st_formal_name, ct_mth_cbm, hcbm, ct_methF_state, mth_take_bid,
        ct_take_bid_call, htb, encRes, Val.beq, flowOf, List.append_assoc]
      rfl

/-- one turn, another seat `a`: "ready for `a`'s bid", the relayed message, parsed, `take_bid` on the own replica -/
theorem ct_turn_other (f : Nat) (p a : Seat) (hap : a ≠ p) (s : AState) (hact : s.active = some a) (c : Call) (m : Str)
    (st : List Str) (bids plays out : List Val) (team : Str) (opp : Val) (extra : List (Id × Val)) (rest : Env) (s0 : Val)
    (hpb : ∀ g, callF (mkRec P (f+g)) m_MessageInterface_parse_bid [.str m, .str a.formal] = .ok (encCall c, s0))
    (s' : AState) (r : Res) (htb : takeBid s c = .ok (s', r)) (hr : r ≠ .illegal) :
    ∃ rest', (mkRec P (f+60)).exec
        ((K.self, .obj n_ClientThread ((n__w, encClientWorld (m :: st) bids plays out) :: (n_player, encSeat p) ::
          (n_team_name, .str team) :: (n_opponent_team_name, opp) :: extra)) :: (n_env, encState s) :: rest) cbBody
      = .ok ((K.self, .obj n_ClientThread ((n__w, encClientWorld st bids plays
          (out ++ [.tuple [vstr "send", .str (readyFor p (a.formal ++ "'s bid".toList))], .tuple [vstr "recv"]])) ::
          (n_player, encSeat p) :: (n_team_name, .str team) :: (n_opponent_team_name, opp) :: extra)) ::
          (n_env, encState s') :: rest', flowOf r) := by
  cases r with
  | illegal => exact absurd rfl hr
  | ongoing =>
    refine ⟨?_, ?_⟩
    rotate_left
    · simp only [cbBody, m_ClientThread_bidding_phase, List.getD_cons_succ, List.getD_cons_zero]
      ctthsimp [ct_active_player, hact, hap, beq_encSeat_none, st_formal_name, strOfF, List.flatten_cons,
        List.flatten_nil, List.append_nil, ct_mth_parse_bid, hpb, ct_methF_state, mth_take_bid,
        ct_take_bid_call, htb, encRes, Val.beq, flowOf, List.append_assoc, readyFor, String.reduceToList]
      rfl
  | finished =>
    refine ⟨?_, ?_⟩
    rotate_left
    · simp only [cbBody, m_ClientThread_bidding_phase, List.getD_cons_succ, List.getD_cons_zero]
      ctthsimp [ct_active_player, hact, hap, beq_encSeat_none, st_formal_name, strOfF, List.flatten_cons,
        List.flatten_nil, List.append_nil, ct_mth_parse_bid, hpb, ct_methF_state, mth_take_bid,
        ct_take_bid_call, htb, encRes, Val.beq, flowOf, List.append_assoc, readyFor, String.reduceToList]
      rfl

/-- own turn, the decision is refused by the own replica (ILLEGAL): `raise Exception('')`, after the message went out -/
theorem ct_turn_own_illegal (f : Nat) (p : Seat) (s : AState) (hact : s.active = some p) (c : Call) (st : List Str)
    (bids plays out : List Val) (team : Str) (opp : Val) (extra : List (Id × Val)) (rest : Env) (s0 : Val)
    (hcbm : ∀ g, callF (mkRec P (f+g)) m_Client_create_bid_message [encCall c, .str p.formal]
      = .ok (.str (bidMsg c p.formal), s0))
    (s' : AState) (htb : takeBid s c = .ok (s', .illegal)) :
    (mkRec P (f+60)).exec
        ((K.self, .obj n_ClientThread ((n__w, encClientWorld st (encCall c :: bids) plays out) :: (n_player, encSeat p) ::
          (n_team_name, .str team) :: (n_opponent_team_name, opp) :: extra)) :: (n_env, encState s) :: rest) cbBody
      = .error (.exc K.Exception) := by
  simp only [cbBody, m_ClientThread_bidding_phase, List.getD_cons_succ, List.getD_cons_zero]
  ctthsimp [ct_active_player, hact, st_formal_name, ct_mth_cbm, hcbm, ct_methF_state, mth_take_bid,
    ct_take_bid_call, htb, encRes, Val.beq, List.append_assoc]

/-- another seat's turn, the relayed call is refused by the own replica (ILLEGAL): `raise Exception('')` -/
theorem ct_turn_other_illegal (f : Nat) (p a : Seat) (hap : a ≠ p) (s : AState) (hact : s.active = some a) (c : Call)
    (m : Str) (st : List Str) (bids plays out : List Val) (team : Str) (opp : Val) (extra : List (Id × Val)) (rest : Env)
    (s0 : Val)
    (hpb : ∀ g, callF (mkRec P (f+g)) m_MessageInterface_parse_bid [.str m, .str a.formal] = .ok (encCall c, s0))
    (s' : AState) (htb : takeBid s c = .ok (s', .illegal)) :
    (mkRec P (f+60)).exec
        ((K.self, .obj n_ClientThread ((n__w, encClientWorld (m :: st) bids plays out) :: (n_player, encSeat p) ::
          (n_team_name, .str team) :: (n_opponent_team_name, opp) :: extra)) :: (n_env, encState s) :: rest) cbBody
      = .error (.exc K.Exception) := by
  simp only [cbBody, m_ClientThread_bidding_phase, List.getD_cons_succ, List.getD_cons_zero]
  ctthsimp [ct_active_player, hact, hap, beq_encSeat_none, st_formal_name, strOfF, List.flatten_cons,
    List.flatten_nil, List.append_nil, ct_mth_parse_bid, hpb, ct_methF_state, mth_take_bid,
    ct_take_bid_call, htb, encRes, Val.beq, List.append_assoc]
/-! ## the loop rules -/

theorem ct_loop_done (g : Nat) (self : Val) (s : AState) (rest : Env) (h : s.active = none) :
    (mkRec P (g+14)).loop ((K.self, self) :: (n_env, encState s) :: rest) cbCond cbBody
      = .ok ((K.self, self) :: (n_env, encState s) :: rest, .next) := by
  rw [loop_succ]
  simp only [loopF, ct_cond, bind_ok, h, Option.isNone_none, Bool.not_true, truthy, pure_eq]
  rfl

theorem ct_loop_brk (g : Nat) (self : Val) (s : AState) (rest : Env) (a : Seat) (h : s.active = some a) (env' : Env)
    (hb : (mkRec P (g+13)).exec ((K.self, self) :: (n_env, encState s) :: rest) cbBody = .ok (env', .brk)) :
    (mkRec P (g+14)).loop ((K.self, self) :: (n_env, encState s) :: rest) cbCond cbBody = .ok (env', .next) := by
  rw [loop_succ]
  simp only [loopF, ct_cond, bind_ok, h, Option.isNone_some, Bool.not_false, truthy, if_true, hb]
  rfl

theorem ct_loop_next (g : Nat) (self : Val) (s : AState) (rest : Env) (a : Seat) (h : s.active = some a) (env' : Env)
    (hb : (mkRec P (g+13)).exec ((K.self, self) :: (n_env, encState s) :: rest) cbBody = .ok (env', .next)) :
    (mkRec P (g+14)).loop ((K.self, self) :: (n_env, encState s) :: rest) cbCond cbBody
      = (mkRec P (g+13)).loop env' cbCond cbBody := by
  rw [loop_succ]
  simp only [loopF, ct_cond, bind_ok, h, Option.isNone_some, Bool.not_false, truthy, if_true, hb]

theorem ct_loop_err (g : Nat) (self : Val) (s : AState) (rest : Env) (a : Seat) (h : s.active = some a) (e : Err)
    (hb : (mkRec P (g+13)).exec ((K.self, self) :: (n_env, encState s) :: rest) cbBody = .error e) :
    (mkRec P (g+14)).loop ((K.self, self) :: (n_env, encState s) :: rest) cbCond cbBody = .error e := by
  rw [loop_succ]
  simp only [loopF, ct_cond, bind_ok, h, Option.isNone_some, Bool.not_false, truthy, if_true, hb, bind_err]

end Bridge.Translated.ClientA
