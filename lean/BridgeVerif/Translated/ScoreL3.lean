import BridgeVerif.Translated.EncBase
import BridgeVerif.Spec.Scoring
/-! `calc_bid_score` AS TRANSLATED, on the bids of level 4 (kernel evaluation of the translated program with 80 levels of
fuel; Score.lean lifts it to every larger fuel by `mkRec_mono`) -/
namespace Bridge.Translated
open Bridge.Py Bridge.Generated.PyCore

theorem calc_bid_score_level3 : ∀ k : Fin 5, ∀ x xx vul : Bool, ∀ t : Fin 14,
    (cbsAt 80 [encBid ⟨5 * 3 + k.val, by omega⟩, .bool x, .bool xx, .bool vul, .int t.val]).int?
      = some (dupScore (bidLevel ⟨5 * 3 + k.val, by omega⟩) (bidDenom ⟨5 * 3 + k.val, by omega⟩)
          (if xx then .xx else if x then .x else .none) vul t.val) := by
  decide +kernel

end Bridge.Translated
