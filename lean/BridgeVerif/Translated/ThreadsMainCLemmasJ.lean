import BridgeVerif.Translated.ThreadsMainCLemmasBoard
/-! Translated `MainThread.run`: the `for board_number in range(1, max_board_num)` loop is `mainBoardsR` -/
set_option maxRecDepth 4000
set_option linter.unusedSimpArgs false
namespace Bridge.Translated.MainC
open Bridge Bridge.Py Bridge.Generated.PyCore Bridge.Translated.MainA Bridge.Translated.MainB

/-- the parse hypotheses of the boards, walking the streams like `mainBoardsR` -/
def BoardsParse (sc : Scenario) (F : Nat) : Nat → List BoardSetting → MainIn → Prop
  | _, [], _ => True
  | k, b :: rest, i => BoardParses F b i ∧
      ∀ acts i', mainBoardR sc k rest.isEmpty b i = some (acts, i') → BoardsParse sc F (k + 1) rest i'

/-- the seat table after `m` boards (two barrier waits each) -/
def advBoards : Nat → Val → List Val → Val × List Val
  | 0, t, ts => (t, ts)
  | m + 1, t, ts => advBoards m (tableAfterDeal t ts).1 (tableAfterDeal t ts).2

/-- the values `k, k+1, …` (`m` of them) of `range` -/
def boardItems (k m : Nat) : List Val := (List.range' k m).map fun (j : Nat) => .int (j : Int)
theorem boardItems_succ (k m : Nat) : boardItems k (m + 1) = .int (k : Int) :: boardItems (k + 1) m := by
  simp only [boardItems, List.range'_succ, List.map_cons]

theorem mainBoardsR_one (sc : Scenario) (k : Nat) (b : BoardSetting) (i : MainIn) :
    mainBoardsR sc k [b] i = (mainBoardR sc k true b i).map (·.1) := by
  rw [mainBoardsR]
theorem mainBoardsR_more (sc : Scenario) (k : Nat) (b b' : BoardSetting) (rest : List BoardSetting) (i : MainIn) :
    mainBoardsR sc k (b :: b' :: rest) i = (do
      let (acts, i) ← mainBoardR sc k false b i
      let more ← mainBoardsR sc (k + 1) (b' :: rest) i
      pure (acts ++ more)) := by
  rw [mainBoardsR]
  · intro h; cases h

def loopVars : List Id := n_board_number :: boardVars

theorem mc_boards_for (sc : Scenario) (F n : Nat) (boards : List BoardSetting) (hn : boards.length = n)
    (more : List (Val × Val)) :
    ∀ (rest : List BoardSetting) (k : Nat) (i : MainIn) (acts : MainActs),
    rest ≠ [] → 1 ≤ k → boards.drop (k-1) = rest →
    mainBoardsR sc k rest i = some acts → BoardsParse sc F k rest i →
    (∀ b ∈ rest, ∀ p, ∀ c ∈ b.deal p, 2 ≤ c.rank ∧ c.rank ≤ 14) →
    ∃ opsS i', encMainActs encRecord acts = some (stripSleep opsS ++ lastOps True) ∧
      ∀ (env : Env) (out : List Val) (table : Val) (tables : List Val) (g : Nat),
      lookup env K.self
        = some (encMainThread (encMainWorld i out table tables more) (.tuple (boards.map encBoardSetting))) →
      lookup env n_max_board_num = some (.int ((n : Int) + 1)) →
      lookup env n_ns_team_name = some (.str sc.nsName) →
      lookup env n_ew_team_name = some (.str sc.ewName) → F + 700 ≤ g →
      ∃ env', forF (mkRec P g) [n_board_number] mcBoardBody env (boardItems k rest.length) = .ok (env', .next) ∧
        lookup env' K.self = some (encMainThread (encMainWorld i' (out ++ opsS) (advBoards rest.length table tables).1
          (advBoards rest.length table tables).2 more) (.tuple (boards.map encBoardSetting))) ∧
        Frame loopVars env env' := by
  intro rest
  induction rest with
  | nil => intro k i acts h; exact absurd rfl h
  | cons b rest' ih =>
    intro k i acts _ h1 hdrop hm hparse hok
    have hb : boards[k-1]? = some b := by
      have := congrArg List.head? hdrop
      simpa [List.head?_drop] using this
    have hdrop' : boards.drop (k + 1 - 1) = rest' := by
      have := congrArg List.tail hdrop
      simp only [List.tail_drop, List.tail_cons] at this
      rw [show k + 1 - 1 = k - 1 + 1 by omega]; exact this
    have hlen : n - (k - 1) = rest'.length + 1 := by
      have := congrArg List.length hdrop
      simp only [List.length_drop, List.length_cons, hn] at this; exact this
    have henv1 : ∀ (env : Env) (out : List Val) (table : Val) (tables : List Val),
        lookup env K.self
          = some (encMainThread (encMainWorld i out table tables more) (.tuple (boards.map encBoardSetting))) →
        lookup env n_max_board_num = some (.int ((n : Int) + 1)) →
        lookup env n_ns_team_name = some (.str sc.nsName) →
        lookup env n_ew_team_name = some (.str sc.ewName) →
        lookup (update env n_board_number (.int (k : Int))) K.self
          = some (encMainThread (encMainWorld i out table tables more) (.tuple (boards.map encBoardSetting))) ∧
        lookup (update env n_board_number (.int (k : Int))) n_board_number = some (.int (k : Int)) ∧
        lookup (update env n_board_number (.int (k : Int))) n_max_board_num = some (.int ((n : Int) + 1)) ∧
        lookup (update env n_board_number (.int (k : Int))) n_ns_team_name = some (.str sc.nsName) ∧
        lookup (update env n_board_number (.int (k : Int))) n_ew_team_name = some (.str sc.ewName) ∧
        Frame loopVars env (update env n_board_number (.int (k : Int))) := by
      intro env out table tables hself hmax hns hew
      exact ⟨(lookup_update_ne env _ _ _ (by decide)).trans hself, lookup_update_same env _ _,
        (lookup_update_ne env _ _ _ (by decide)).trans hmax, (lookup_update_ne env _ _ _ (by decide)).trans hns,
        (lookup_update_ne env _ _ _ (by decide)).trans hew, Frame.update (Frame.refl _ _) _ _ (by decide)⟩
    cases rest' with
    | nil =>
      have hkn : k = n := by simp only [List.length_nil] at hlen; omega
      rw [mainBoardsR_one] at hm
      cases hmb : mainBoardR sc k true b i with
      | none => rw [hmb] at hm; cases hm
      | some x =>
        obtain ⟨acts', i'⟩ := x
        rw [hmb] at hm
        simp only [Option.map_some, Option.some.injEq] at hm
        subst hm
        have hmb' : mainBoardR sc k (decide (k = n)) b i = some (acts', i') := by
          rw [show decide (k = n) = true from decide_eq_true hkn]; exact hmb
        obtain ⟨opsS, hops, hrun⟩ := mc_board sc F k n b i i' acts' hmb' hparse.1
          (hok b (List.mem_cons_self ..)) boards h1 hb more
        refine ⟨opsS, i', ?_, ?_⟩
        · rw [hops]; simp only [lastOps, hkn, if_true]
        · intro env out table tables g hself hmax hns hew hg
          obtain ⟨hself1, hk1, hmax1, hns1, hew1, hfr1⟩ := henv1 env out table tables hself hmax hns hew
          obtain ⟨e2, h2, hs2, hf2⟩ := hrun _ out table tables hself1 hk1 hmax1 hns1 hew1 g hg
          rw [if_pos hkn] at h2
          refine ⟨e2, ?_, ?_, hfr1.trans (hf2.mono (by decide))⟩
          · have h2' : (mkRec P g).exec (update env n_board_number (.int (k : Int))) mcBoardBody = .ok (e2, .brk) := h2
            have e0 : boardItems (k + 1) 0 = [] := rfl
            rw [show [b].length = 0 + 1 from rfl, boardItems_succ, e0]
            simp only [forF, pure_eq, bind_ok, h2']
          · rw [hs2]; rfl
    | cons b' rest'' =>
      have hkn : ¬ k = n := by simp only [List.length_cons] at hlen; omega
      rw [mainBoardsR_more] at hm
      cases hmb : mainBoardR sc k false b i with
      | none => rw [hmb] at hm; cases hm
      | some x =>
        obtain ⟨acts1, i1⟩ := x
        rw [hmb] at hm
        simp only [Option.bind_eq_bind, Option.bind_some] at hm
        cases hmr : mainBoardsR sc (k + 1) (b' :: rest'') i1 with
        | none => rw [hmr] at hm; cases hm
        | some more' =>
          rw [hmr] at hm
          simp only [Option.bind_some, Option.pure_def, Option.some.injEq] at hm
          subst hm
          have hmb' : mainBoardR sc k (decide (k = n)) b i = some (acts1, i1) := by
            rw [show decide (k = n) = false from decide_eq_false hkn]; exact hmb
          obtain ⟨ops1, hops1, hrun1⟩ := mc_board sc F k n b i i1 acts1 hmb' hparse.1
            (hok b (List.mem_cons_self ..)) boards h1 hb more
          have hparse' : BoardsParse sc F (k + 1) (b' :: rest'') i1 := hparse.2 acts1 i1 hmb
          obtain ⟨ops2, i', hops2, hrun2⟩ := ih (k + 1) i1 more' (by simp) (by omega) hdrop'
            hmr hparse' (fun b0 hb0 => hok b0 (List.mem_cons_of_mem _ hb0))
          refine ⟨ops1 ++ ops2, i', ?_, ?_⟩
          · have hl : lastOps (k = n) = [] := by simp only [lastOps, hkn, if_false]
            rw [hl, List.append_nil] at hops1
            rw [MainB.encMainActs_append encRecord _ _ _ _ hops1 hops2, stripSleep_append, List.append_assoc]
          · intro env out table tables g hself hmax hns hew hg
            obtain ⟨hself1, hk1, hmax1, hns1, hew1, hfr1⟩ := henv1 env out table tables hself hmax hns hew
            obtain ⟨e2, h2, hs2, hf2⟩ := hrun1 _ out table tables hself1 hk1 hmax1 hns1 hew1 g hg
            rw [if_neg hkn] at h2
            obtain ⟨e3, h3, hs3, hf3⟩ := hrun2 e2 (out ++ ops1) _ _ g hs2
              (by rw [hf2 _ (by decide)]; exact hmax1) (by rw [hf2 _ (by decide)]; exact hns1)
              (by rw [hf2 _ (by decide)]; exact hew1) hg
            refine ⟨e3, ?_, ?_, (hfr1.trans (hf2.mono (by decide))).trans hf3⟩
            · rw [show (b :: b' :: rest'').length = (b' :: rest'').length + 1 from rfl, boardItems_succ]
              have h2' : (mkRec P g).exec (update env n_board_number (.int (k : Int))) mcBoardBody = .ok (e2, .next) := h2
              rw [mb_forF_cons _ _ _ _ _ _ _ h2']
              exact h3
            · rw [hs3, List.append_assoc]; rfl

end Bridge.Translated.MainC
