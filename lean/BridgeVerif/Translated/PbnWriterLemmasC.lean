import BridgeVerif.Translated.PbnWriterLemmasB
/-! Translated PBN writer = model: `write_board_result` (symbolic execution of the fifteen tag pairs, by cases on which
assertion fails first) -/
namespace Bridge.Translated
open Bridge Bridge.Py Bridge.Generated.PyCore

/-- the 13 arguments of `write_board_result` after `self`, in parameter order -/
def resultArgs (r : PbnResult) : List Val :=
  [.str r.event, .str r.site, encDate (dateStr r.year r.month r.day), .int r.boardNum, .str r.west, .str r.north,
   .str r.east, .str r.south, encSeat r.dealer, encHands r.deal, encScoring r.scoring, encContract r.contract,
   encOpt Val.int r.tricks]

/-- what the code (as interpreted) needs of the arguments of `write_board_result` -/
structure PbnWF (r : PbnResult) : Prop where
  /-- a 13-card hand holds ranks 2..14 (`Card.rank_int_to_str` raises outside, the model prints `?`; the sort) -/
  deal : ∀ p, (r.deal p).length = 13 → ∀ c ∈ r.deal p, 2 ≤ c.rank ∧ c.rank ≤ 14
  /-- a turn of the `while` loop of `write_line` costs a level of fuel: the texts fit the top-level fuel.  The two
  numbers are printed exactly whatever their size (`pw_intStr_eq`); only the LENGTH of their decimal text is bounded
  (`pw_intRepr_len`: `|n| < 10 ^ f` gives `f + 2` characters at most) -/
  board : (intRepr r.boardNum).length ≤ 199000
  tricks : ∀ n, r.tricks = some n → (intRepr n).length ≤ 199000
  event : r.event.length ≤ 199000
  site : r.site.length ≤ 199000
  date : (dateStr r.year r.month r.day).length ≤ 199000
  west : r.west.length ≤ 199000
  north : r.north.length ≤ 199000
  east : r.east.length ≤ 199000
  south : r.south.length ≤ 199000

theorem pw_mth_wbr :
    P.method? classDepth n_PbnWriter n_write_board_result = some (n_PbnWriter, m_PbnWriter_write_board_result) := rfl
theorem pw_mth_strftime : P.method? classDepth n__Date n_strftime = some (n__Date, m__Date_strftime) := rfl
theorem pw_strftime_call (f : Nat) (t : Str) (fmt : Val) :
    callF (mkRec P (f + 5)) m__Date_strftime [.obj n__Date [(n_text, .str t)], fmt]
      = .ok (.str t, .obj n__Date [(n_text, .str t)]) := rfl
theorem pw_mth_pbn_format : P.method? classDepth n_Vul n_pbn_format = some (n_Vul, m_Vul_pbn_format) := rfl
theorem pw_pbn_format_call (f : Nat) (v : Vul) :
    callF (mkRec P (f + 10)) m_Vul_pbn_format [encVul v] = .ok (.str (vulPbn v), encVul v) := by
  rw [callF_def]
  simp only [m_Vul_pbn_format, bindParams, Option.map]
  cases v <;> ppsimp [encVul, Vul.value, beq_int, jw_vul_name] <;> rfl
theorem pw_pbn_format_meth (f : Nat) (v : Vul) :
    methF (mkRec P (f + 11)) P (encVul v) n_pbn_format [] = .ok (.str (vulPbn v), encVul v) := by
  have e : methF (mkRec P (f + 11)) P (encVul v) n_pbn_format []
      = callF (mkRec P (f + 10)) m_Vul_pbn_format [encVul v] := rfl
  rw [e, pw_pbn_format_call]
theorem pw_mth_to_pbn : P.method? classDepth n_Hands n_to_pbn = some (n_Hands, m_Hands_to_pbn) := rfl
theorem pw_to_pbn_meth (f : Nat) (h : Hands) (first : Seat)
    (hr : ∀ p, (h p).length = 13 → ∀ c ∈ h p, 2 ≤ c.rank ∧ c.rank ≤ 14) :
    methF (mkRec P (f + 61)) P (encHands h) n_to_pbn [encSeat first]
      = match toPbn? h first with
        | some s => .ok (.str s, encHands h)
        | none => .error (.exc K.AssertionError) := by
  simp only [encHands, pp_meth_obj, callMethod, pw_mth_to_pbn, call_succ]
  exact hands_to_pbn_call f h first hr
theorem pw_scoring_value (r : Rec) (s : Scoring) : getAttrF r P (encScoring s) K.value = .ok (.str s.value) := rfl

theorem pw_str_int (r : Rec) (n : Int) : builtinF r P .str [.int n] = .ok (.str (intStr n)) := rfl

/-- `write_tag_pair` inside `write_board_result` -/
theorem pw_tp (f : Nat) (chunks : List Str) (c : Char) (rest content : Str) (hu : isUpper c = true)
    (hr : rest.length ≤ 20) (hc : content.length ≤ 199000) :
    callF (mkRec P (f + 828)) m_PbnWriter_write_tag_pair
        [.obj n_PbnWriter [(n_writer, encFile chunks)], .str (c :: rest), .str content]
      = .ok (.none, .obj n_PbnWriter [(n_writer, encFile (chunks ++ writeTagPair (c :: rest) content))]) :=
  pw_tag_pair_call (f + 803) chunks c rest content hu (by omega)

theorem pw_board_result_call_nonpos (f : Nat) (chunks : List Str) (r : PbnResult) (hwf : PbnWF r) (hb : r.boardNum ≤ 0) :
    callF (mkRec P (f + 830)) m_PbnWriter_write_board_result
        (.obj n_PbnWriter [(n_writer, encFile chunks)] :: resultArgs r) = .error (.exc K.AssertionError) := by
  rw [callF_def]
  obtain ⟨event, site, year, month, day, boardNum, west, north, east, south, dealer, deal, scoring, contract, tricks⟩ := r
  have hev := hwf.event; have hsi := hwf.site; have hda := hwf.date
  simp only at hev hsi hda hb
  have hb' : ¬ boardNum > 0 := by omega
  simp only [m_PbnWriter_write_board_result, bindParams, Option.map, resultArgs, encDate]
  ppsimp [pw_mth_tag_pair, pw_tp, hev, hsi, hda, pw_mth_strftime, pw_strftime_call, hb', truthy]
theorem pw_result_none_tricks (r : PbnResult) (hb : ¬ r.boardNum ≤ 0) (t : Str) (hd : toPbn? r.deal r.dealer = some t)
    (h : (r.contract.isPassedOut = true ∧ r.tricks.isSome = true) ∨ (r.contract.isPassedOut = false ∧ r.tricks = none)) :
    writeBoardResult? r = none := by
  rcases h with ⟨h1, h2⟩ | ⟨h1, h2⟩ <;> simp [writeBoardResult?, resultTags?, hb, hd, h1, h2]

theorem pw_board_result_call_pos (f : Nat) (chunks : List Str) (r : PbnResult) (hwf : PbnWF r) (hb : ¬ r.boardNum ≤ 0) :
    callF (mkRec P (f + 830)) m_PbnWriter_write_board_result
        (.obj n_PbnWriter [(n_writer, encFile chunks)] :: resultArgs r)
      = match writeBoardResult? r with
        | some cs => .ok (.none, .obj n_PbnWriter [(n_writer, encFile (chunks ++ cs))])
        | none => .error (.exc K.AssertionError) := by
  rw [callF_def]
  obtain ⟨event, site, year, month, day, boardNum, west, north, east, south, dealer, deal, scoring, contract, tricks⟩ := r
  have hev := hwf.event; have hsi := hwf.site; have hda := hwf.date
  have hwe := hwf.west; have hno := hwf.north; have hea := hwf.east; have hso := hwf.south
  have hdl := hwf.deal; have hbo := hwf.board; have htr := hwf.tricks
  simp only at hev hsi hda hwe hno hea hso hdl hbo htr hb
  have hb' : boardNum > 0 := by omega
  have hbs : intStr boardNum = intRepr boardNum := pw_intStr_eq _
  have hbl : (intRepr boardNum).length ≤ 199000 := hbo
  have htp := fun f => pw_to_pbn_meth f deal dealer hdl
  cases hd : toPbn? deal dealer with
  | none =>
    have hm : writeBoardResult? ⟨event, site, year, month, day, boardNum, west, north, east, south, dealer, deal, scoring,
        contract, tricks⟩ = none := by simp [writeBoardResult?, resultTags?, hb, hd]
    rw [hm]
    simp only [m_PbnWriter_write_board_result, bindParams, Option.map, resultArgs, encDate]
    ppsimp [pw_mth_tag_pair, pw_tp, hev, hsi, hda, hwe, hno, hea, hso, pw_mth_strftime, pw_strftime_call, hb', truthy,
      pw_str_int, hbs, hbl, jw_str_seat, pw_seat_name_len, jw_contract_vul, pw_pbn_format_meth, pw_vulPbn_len,
      htp, hd]
  | some dealText =>
    have hdt := pw_toPbn_len _ _ _ hd
    rcases Bool.eq_false_or_eq_true contract.isPassedOut with hpo | hpo
    · cases tricks with
      | some n =>
        rw [pw_result_none_tricks _ hb dealText hd (Or.inl ⟨hpo, rfl⟩)]
        simp only [m_PbnWriter_write_board_result, bindParams, Option.map, resultArgs, encDate]
        ppsimp [pw_mth_tag_pair, pw_tp, hev, hsi, hda, hwe, hno, hea, hso, pw_mth_strftime, pw_strftime_call, hb', truthy,
          pw_str_int, hbs, hbl, jw_str_seat, pw_seat_name_len, jw_contract_vul, pw_pbn_format_meth, pw_vulPbn_len,
          htp, hd, hdt, pw_scoring_value, pw_scoring_len, jw_meth_ipo, hpo, Val.beq]
      | none =>
        have hm : writeBoardResult? ⟨event, site, year, month, day, boardNum, west, north, east, south, dealer, deal,
            scoring, contract, none⟩ = some ([("Event".toList, event), ("Site".toList, site),
              ("Date".toList, dateStr year month day), ("Board".toList, intRepr boardNum), ("West".toList, west),
              ("North".toList, north), ("East".toList, east), ("South".toList, south), ("Dealer".toList, dealer.name),
              ("Vulnerable".toList, vulPbn contract.vul), ("Deal".toList, dealText), ("Scoring".toList, scoring.value),
              ("Declarer".toList, []), ("Contract".toList, "Pass".toList), ("Result".toList, [])].flatMap
                (fun tc => writeTagPair tc.1 tc.2) ++ [['\n']]) := by
          simp [writeBoardResult?, resultTags?, hb, hd, hpo]
        rw [hm]
        simp only [m_PbnWriter_write_board_result, bindParams, Option.map, resultArgs, encDate]
        ppsimp [pw_mth_tag_pair, pw_tp, hev, hsi, hda, hwe, hno, hea, hso, pw_mth_strftime, pw_strftime_call, hb', truthy,
          pw_str_int, hbs, hbl, jw_str_seat, pw_seat_name_len, jw_contract_vul, pw_pbn_format_meth, pw_vulPbn_len,
          htp, hd, hdt, pw_scoring_value, pw_scoring_len, jw_meth_ipo, hpo, Val.beq, jw_file_write_meth,
          List.flatMap_cons, List.flatMap_nil, List.append_assoc, String.reduceToList, List.append_nil]
    · cases tricks with
      | none =>
        rw [pw_result_none_tricks _ hb dealText hd (Or.inr ⟨hpo, rfl⟩)]
        simp only [m_PbnWriter_write_board_result, bindParams, Option.map, resultArgs, encDate]
        ppsimp [pw_mth_tag_pair, pw_tp, hev, hsi, hda, hwe, hno, hea, hso, pw_mth_strftime, pw_strftime_call, hb', truthy,
          pw_str_int, hbs, hbl, jw_str_seat, pw_seat_name_len, jw_contract_vul, pw_pbn_format_meth, pw_vulPbn_len,
          htp, hd, hdt, pw_scoring_value, pw_scoring_len, jw_meth_ipo, hpo, Val.beq]
      | some n =>
        have hns : intStr n = intRepr n := pw_intStr_eq _
        have hnl : (intRepr n).length ≤ 199000 := htr n rfl
        have hm : writeBoardResult? ⟨event, site, year, month, day, boardNum, west, north, east, south, dealer, deal,
            scoring, contract, some n⟩ = some ([("Event".toList, event), ("Site".toList, site),
              ("Date".toList, dateStr year month day), ("Board".toList, intRepr boardNum), ("West".toList, west),
              ("North".toList, north), ("East".toList, east), ("South".toList, south), ("Dealer".toList, dealer.name),
              ("Vulnerable".toList, vulPbn contract.vul), ("Deal".toList, dealText), ("Scoring".toList, scoring.value),
              ("Declarer".toList, seatOptStr contract.declarer), ("Contract".toList, contractStr contract),
              ("Result".toList, intRepr n)].flatMap
                (fun tc => writeTagPair tc.1 tc.2) ++ [['\n']]) := by
          simp [writeBoardResult?, resultTags?, hb, hd, hpo]
        rw [hm]
        simp only [m_PbnWriter_write_board_result, bindParams, Option.map, resultArgs, encDate]
        ppsimp [pw_mth_tag_pair, pw_tp, hev, hsi, hda, hwe, hno, hea, hso, pw_mth_strftime, pw_strftime_call, hb', truthy,
          pw_str_int, hbs, hbl, jw_str_seat, pw_seat_name_len, jw_contract_vul, pw_pbn_format_meth, pw_vulPbn_len,
          htp, hd, hdt, pw_scoring_value, pw_scoring_len, jw_meth_ipo, hpo, Val.beq, jw_file_write_meth,
          jw_contract_declarer, jw_str_optSeat, pw_seatOpt_len, jw_str_contract, pw_contractStr_len, hns, hnl,
          List.flatMap_cons, List.flatMap_nil, List.append_assoc, String.reduceToList, List.append_nil]
/-- `write_board_result` at an arbitrary (sufficient) fuel -/
theorem pw_board_result_call (f : Nat) (chunks : List Str) (r : PbnResult) (hwf : PbnWF r) :
    callF (mkRec P (f + 830)) m_PbnWriter_write_board_result
        (.obj n_PbnWriter [(n_writer, encFile chunks)] :: resultArgs r)
      = match writeBoardResult? r with
        | some cs => .ok (.none, .obj n_PbnWriter [(n_writer, encFile (chunks ++ cs))])
        | none => .error (.exc K.AssertionError) := by
  by_cases hb : r.boardNum ≤ 0
  · have hm : writeBoardResult? r = none := by simp [writeBoardResult?, resultTags?, hb]
    rw [hm]
    exact pw_board_result_call_nonpos f chunks r hwf hb
  · exact pw_board_result_call_pos f chunks r hwf hb

end Bridge.Translated
