import BridgeVerif.Translated.JsonWriterLemmasD
/-! Translated JSON writers = model: the body of `JsonBoardSettingWriter.write`, the `Exception` of a writer that is
not open, the constructors, and the list of chunks of a whole document -/
namespace Bridge.Translated
open Bridge Bridge.Py Bridge.Generated.PyCore

/-- what the code needs of the arguments of `JsonBoardSettingWriter.write` -/
structure SettingWF (e : SettingEntry) : Prop where
  deal : ∀ p, ∀ c ∈ e.deal p, 2 ≤ c.rank ∧ c.rank ≤ 14
  dda : ∀ d, e.dda = some d → DdaWF d

/-- the dict `JsonBoardSettingWriter.write` builds -/
def settingVal (e : SettingEntry) : Val :=
  .dict ([(.str (jkey "board_id"), .str e.boardId), (.str (jkey "dealer"), .str e.dealer.name),
          (.str (jkey "deal"), dealVal e.deal), (.str (jkey "vulnerability"), .str (vulStr e.vul))] ++ ddaKvs e.dda)

theorem jw_mth_sw_write :
    P.method? classDepth n_JsonBoardSettingWriter n_write = some (n_JsonBoardSettingWriter, m_JsonBoardSettingWriter_write) := rfl

theorem jw_setting_write_call_aux (f : Nat) (chunks : List Str) (fl : Bool) (e : SettingEntry) (hwf : SettingWF e) :
    callF (mkRec P (f+70)) m_JsonBoardSettingWriter_write (encWriter n_JsonBoardSettingWriter chunks true fl :: settingArgs e)
      = (callF (mkRec P (f+68)) m_JsonWriter__write_content [encWriter n_JsonBoardSettingWriter chunks true fl, settingVal e]
          >>= fun x => .ok (.none, x.2)) := by
  rw [callF_def]
  obtain ⟨boardId, dealer, deal, vul, dda⟩ := e
  have hdeal := hwf.deal
  have hdda := hwf.dda
  simp only at hdeal hdda
  simp only [m_JsonBoardSettingWriter_write, bindParams, Option.map, encWriter, settingArgs, settingVal]
  cases dda with
  | none =>
    ppsimp [jw_str_seat, jw_fn_convert_deal, jw_convert_deal_call _ _ hdeal, jw_str_vul, beq_none_none,
      updateD, Val.beq, List.map_cons, List.map_nil, jw_mth_base_write_content,
      ddaKvs, List.append_nil, bind_assoc, jkey, String.reduceToList]
  | some d =>
    have hd := hdda d rfl
    ppsimp [jw_str_seat, jw_fn_convert_deal, jw_convert_deal_call _ _ hdeal, jw_str_vul, beq_none_none, iterItems_tuple,
      updateD, Val.beq, List.map_cons, List.map_nil, jw_mth_base_write_content,
      ddaKvs, List.append_nil, bind_assoc, jkey, String.reduceToList,
      jw_beq_dda_none, jw_items_dda, jw_dda_comp _ _ d hd.2,
      jw_foldl_updateD_names Seat.name jw_seat_name_inj ddaRowVal d hd.1, ddaVal]

theorem jw_settingVal_json (e : SettingEntry) : valToJson (settingVal e) = some (settingJson e) := by
  obtain ⟨boardId, dealer, deal, vul, dda⟩ := e
  simp only [settingVal, valToJson, Option.map, settingJson, jw_kvsToJson_append, jw_ddaKvs_json]
  cases dda <;> simp [valToJson, kvsToJson, jw_dealVal_json, jstr, jkey]

/-! ## a writer that is not open -/
theorem jw_log_write_closed_call (f : Nat) (chunks : List Str) (fl : Bool) (args : List Val) (hargs : args.length = 14 ∨ args.length = 13) :
    callF (mkRec P (f+10)) m_JsonLogWriter_write (encWriter n_JsonLogWriter chunks false fl :: args)
      = .error (.exc K.Exception) := by
  rw [callF_def]
  rcases hargs with h | h
  · match args, h with
    | [a1, a2, a3, a4, a5, a6, a7, a8, a9, a10, a11, a12, a13, a14], _ =>
      simp only [m_JsonLogWriter_write, bindParams, Option.map, encWriter]
      ppsimp []
  · match args, h with
    | [a1, a2, a3, a4, a5, a6, a7, a8, a9, a10, a11, a12, a13], _ =>
      simp only [m_JsonLogWriter_write, bindParams, Option.map, encWriter]
      ppsimp []

theorem jw_setting_write_closed_call (f : Nat) (chunks : List Str) (fl : Bool) (args : List Val)
    (hargs : args.length = 5 ∨ args.length = 4) :
    callF (mkRec P (f+10)) m_JsonBoardSettingWriter_write (encWriter n_JsonBoardSettingWriter chunks false fl :: args)
      = .error (.exc K.Exception) := by
  rw [callF_def]
  rcases hargs with h | h
  · match args, h with
    | [a1, a2, a3, a4, a5], _ =>
      simp only [m_JsonBoardSettingWriter_write, bindParams, Option.map, encWriter]
      ppsimp []
  · match args, h with
    | [a1, a2, a3, a4], _ =>
      simp only [m_JsonBoardSettingWriter_write, bindParams, Option.map, encWriter]
      ppsimp []

/-! ## construction -/
theorem jw_mth_base_init : P.method? classDepth n_JsonWriter K.init = some (n_JsonWriter, m_JsonWriter___init__) := rfl

theorem jw_base_init_call (f : Nat) (cls : Id) (v : Val) :
    callF (mkRec P (f+8)) m_JsonWriter___init__ [.obj cls [], v]
      = .ok (.none, .obj cls [(n__writer, v), (n__open, .bool false), (n__first_line, .bool false)]) := by
  rw [callF_def]
  simp only [m_JsonWriter___init__, bindParams, Option.map]
  ppsimp []

theorem jw_sub_init_call (f : Nat) (cls : Id) (fd : FuncDef)
    (hfd : fd = m_JsonLogWriter___init__ ∨ fd = m_JsonBoardSettingWriter___init__) (v : Val) :
    callF (mkRec P (f+12)) fd [.obj cls [], v]
      = .ok (.none, .obj cls [(n__writer, v), (n__open, .bool false), (n__first_line, .bool false)]) := by
  rw [callF_def]
  rcases hfd with rfl | rfl
  · simp only [m_JsonLogWriter___init__, bindParams, Option.map]
    ppsimp [jw_mth_base_init, jw_base_init_call]
  · simp only [m_JsonBoardSettingWriter___init__, bindParams, Option.map]
    ppsimp [jw_mth_base_init, jw_base_init_call]

theorem jw_construct_log (f : Nat) (chunks : List Str) :
    constructF (mkRec P (f+13)) P n_JsonLogWriter [encFile chunks] = .ok (encWriter n_JsonLogWriter chunks false false) := by
  have e : constructF (mkRec P (f+13)) P n_JsonLogWriter [encFile chunks]
      = (callF (mkRec P (f+12)) m_JsonLogWriter___init__ [.obj n_JsonLogWriter [], encFile chunks] >>= fun x => pure x.2) := rfl
  rw [e, jw_sub_init_call f _ _ (Or.inl rfl)]; rfl

theorem jw_construct_setting (f : Nat) (chunks : List Str) :
    constructF (mkRec P (f+13)) P n_JsonBoardSettingWriter [encFile chunks]
      = .ok (encWriter n_JsonBoardSettingWriter chunks false false) := by
  have e : constructF (mkRec P (f+13)) P n_JsonBoardSettingWriter [encFile chunks]
      = (callF (mkRec P (f+12)) m_JsonBoardSettingWriter___init__ [.obj n_JsonBoardSettingWriter [], encFile chunks]
          >>= fun x => pure x.2) := rfl
  rw [e, jw_sub_init_call f _ _ (Or.inr rfl)]; rfl

/-! ## the chunks of a whole document -/
/-- the chunks `_write_content` appends for the given record lines (`first` = no record written yet) -/
def writeChunks : Bool → List Str → List Str
  | _, [] => []
  | first, l :: ls => (if first then [] else [jkey ",\n"]) ++ [l] ++ writeChunks false ls

/-- `open()`, the record lines, `close()` -/
def frameChunks (tag : Str) (lines : List Str) : List Str :=
  [jsonOpen tag] ++ writeChunks true lines ++ [if lines.isEmpty then jkey "]}" else jkey "\n]}"]

theorem jw_intercalate_cons2 (sep a b : Str) (r : List Str) :
    List.intercalate sep (a :: b :: r) = a ++ sep ++ List.intercalate sep (b :: r) := by
  simp [List.intercalate, List.intersperse]

theorem jw_writeChunks_false (ls : List Str) :
    (writeChunks false ls).flatten = (ls.map fun l => jkey ",\n" ++ l).flatten := by
  induction ls with
  | nil => rfl
  | cons l ls ih => simp [writeChunks, ih]

theorem jw_intercalate_eq (l : Str) (ls : List Str) :
    List.intercalate (jkey ",\n") (l :: ls) = l ++ (ls.map fun x => jkey ",\n" ++ x).flatten := by
  induction ls generalizing l with
  | nil => simp [List.intercalate, List.intersperse]
  | cons b r ih => rw [jw_intercalate_cons2, ih b]; simp

theorem jw_writeChunks_true (lines : List Str) :
    (writeChunks true lines).flatten = List.intercalate (jkey ",\n") lines := by
  cases lines with
  | nil => rfl
  | cons l ls =>
    rw [jw_intercalate_eq]
    simp [writeChunks, jw_writeChunks_false]

/-- the chunks written by `open(); write(…) …; close()` concatenate to the model's document -/
theorem jw_frameChunks_text (tag : Str) (lines : List Str) : (frameChunks tag lines).flatten = jsonFrame tag lines true := by
  simp only [frameChunks, List.flatten_append, jw_writeChunks_true, jsonFrame, if_true]
  cases lines <;> simp [jkey]

theorem jw_writeChunks_snoc (first : Bool) (l : Str) (ls : List Str) :
    (if first then [] else [jkey ",\n"]) ++ [l] ++ writeChunks false ls = writeChunks first (l :: ls) := rfl
end Bridge.Translated
