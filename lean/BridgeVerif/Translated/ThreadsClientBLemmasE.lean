import BridgeVerif.Translated.ThreadsClientBLemmasD
/-! Translated `ClientThread.playing_phase`: the inner loop `for _ in range(4)` is `clientTrickR … 4`; the "… to lead"
statement -/
set_option maxRecDepth 4000
namespace Bridge.Translated.ClientB
open Bridge Bridge.Py Bridge.Generated.PyCore Bridge.Translated Bridge.Translated.ClientA

theorem cb_update_us (self : Val) (c : Contract) (decl : Seat) (o : Observed) (opened : Bool) (rest : Env) (v : Val) :
    update (penv self c decl o opened rest) n__ v = penv self c decl o opened (update rest n__ v) := rfl

/-- THE INNER LOOP: `for _ in …` over `n` items is `clientTrickR … n` -/
theorem cb_trick_loop (p decl : Seat) (c : Contract) (N : Nat) (bids : List Val) (team : Str) (opp : Val)
    (extra : List (Id × Val)) :
    ∀ (n : Nat) (items : List Val) (o o' : Observed) (opened opened' : Bool) (i i' : ClientIn) (acts : ClientActs)
      (out : List Val) (rest : Env) (f : Nat), items.length = n → WF o.base →
      clientTrickR p decl n o opened i = some (acts, o', opened', i') → PlayParses N i → N + 92 ≤ f →
      ∃ ops rest', encClientActs p acts = some (erasePlays ops) ∧ WF o'.base ∧ PlayParses N i' ∧
        forF (mkRec P f) [n__] cpInner
            (penv (cself p i.s bids (i.cards.map encCard) out team opp extra) c decl o opened rest) items
          = .ok (penv (cself p i'.s bids (i'.cards.map encCard) (out ++ ops) team opp extra) c decl o' opened' rest',
              .next) := by
  intro n
  induction n with
  | zero =>
    intro items o o' opened opened' i i' acts out rest f hl hwf h hp hf
    have : items = [] := List.length_eq_zero_iff.mp hl
    subst this
    simp only [clientTrickR, Option.some.injEq, Prod.mk.injEq] at h
    obtain ⟨rfl, rfl, rfl, rfl⟩ := h
    exact ⟨[], rest, rfl, hwf, hp, by simp only [forF, pure_eq, List.append_nil]⟩
  | succ n ih =>
    intro items o o' opened opened' i i' acts out rest f hl hwf h hp hf
    cases items with
    | nil => simp at hl
    | cons it items =>
      rw [clientTrickR_succ] at h
      cases hc : clientCardR p decl o opened i with
      | none => simp [hc] at h
      | some x =>
        obtain ⟨acts1, o1, op1, i1⟩ := x
        simp only [hc, Option.bind_eq_bind, Option.bind_some] at h
        cases ht : clientTrickR p decl n o1 op1 i1 with
        | none => simp [ht] at h
        | some y =>
          obtain ⟨acts2, o2, op2, i2⟩ := y
          simp only [ht, Option.bind_some, Option.pure_def, Option.some.injEq, Prod.mk.injEq] at h
          obtain ⟨rfl, rfl, rfl, rfl⟩ := h
          obtain ⟨f0, rfl⟩ : ∃ f0, f = f0 + 1 := ⟨f - 1, by omega⟩
          obtain ⟨ops1, rest1, e1, hwf1, hp1, hx1⟩ := cb_card_step p decl c o o1 opened op1 i i1 acts1 N hwf hc hp bids out
            team opp extra (update rest n__ it) f0 (by omega)
          obtain ⟨ops2, rest2, e2, hwf2, hp2, hx2⟩ := ih items o1 o2 op1 op2 i1 i2 acts2 (out ++ ops1) rest1 (f0+1)
            (by simpa using hl) hwf1 ht hp1 hf
          refine ⟨ops1 ++ ops2, rest2, ?_, hwf2, hp2, ?_⟩
          · rw [erasePlays_append]
            exact encClientActs_append p _ _ _ _ e1 e2
          · simp only [forF, pure_eq, bind_ok, exec_succ, cb_update_us, hx1, hx2, List.append_assoc]

/-- the `for _ in range(4)` statement of the outer loop's body -/
theorem cb_for_stmt (g : Nat) (env : Env) :
    execStmtF (mkRec P (g+2)) P env (.for [n__] (.builtin .range [(.const (.int 4))]) cpInner)
      = forF (mkRec P (g+2)) [n__] cpInner env [.int 0, .int 1, .int 2, .int 3] := rfl

/-- the client leads (own hand, or dummy's as declarer): the "… to lead" message is received and parsed; the leader it
names is the player on turn -/
theorem cb_lead_recv (f : Nat) (p decl : Seat) (c : Contract) (o : Observed) (opened : Bool)
    (hcond : (o.base.active = p ∧ p ≠ decl.partner) ∨ (o.base.active = decl.partner ∧ p = decl)) (m : Str) (s0 : Val)
    (hpl : ∀ g, callF (mkRec P (f+g)) m_Client_parse_leader_message [.str m, encSeat decl.partner]
      = .ok (encSeat o.base.active, s0))
    (st : List Str) (bids plays out : List Val) (team : Str) (opp : Val) (extra : List (Id × Val)) (rest : Env) :
    ∃ rest', execStmtF (mkRec P (f+70)) P (penv (cself p (m :: st) bids plays out team opp extra) c decl o opened rest)
        cpLead
      = .ok (penv (cself p st bids plays (out ++ [.tuple [vstr "recv"]]) team opp extra) c decl o opened rest',
          .next) := by
  rcases hcond with ⟨ha, hd⟩ | ⟨ha, hpd⟩
  · rw [ha] at hpl
    refine ⟨?_, ?_⟩
    rotate_left
    · simp only [cpLead, cpBody, m_ClientThread_playing_phase, List.getD_cons_succ, List.getD_cons_zero, penv, cself]
      cbsimp [ha, hd, hpl]
      rfl
  · subst hpd
    rw [ha] at hpl
    refine ⟨?_, ?_⟩
    rotate_left
    · simp only [cpLead, cpBody, m_ClientThread_playing_phase, List.getD_cons_succ, List.getD_cons_zero, penv, cself]
      cbsimp [ha, cb_partner_ne, cb_ne_partner, hpl]
      rfl

/-- somebody else leads: nothing is received -/
theorem cb_lead_skip (f : Nat) (p decl : Seat) (c : Contract) (o : Observed) (opened : Bool)
    (h1 : ¬ (o.base.active = p ∧ p ≠ decl.partner)) (h2 : ¬ (o.base.active = decl.partner ∧ p = decl))
    (st : List Str) (bids plays out : List Val) (team : Str) (opp : Val) (extra : List (Id × Val)) (rest : Env) :
    execStmtF (mkRec P (f+70)) P (penv (cself p st bids plays out team opp extra) c decl o opened rest) cpLead
      = .ok (penv (cself p st bids plays out team opp extra) c decl o opened rest, .next) := by
  by_cases ha : o.base.active = p
  · have hpd : p = decl.partner := by
      cases hx : decide (p = decl.partner) with
      | true => simpa using hx
      | false => exact absurd ⟨ha, by simpa using hx⟩ h1
    subst hpd
    simp only [cpLead, cpBody, m_ClientThread_playing_phase, List.getD_cons_succ, List.getD_cons_zero, penv, cself]
    cbsimp [ha, cb_partner_ne, cb_ne_partner]
  · by_cases had : o.base.active = decl.partner
    · have hpn : p ≠ decl := fun h => h2 ⟨had, h⟩
      have ha' : ¬ decl.partner = p := had ▸ ha
      simp only [cpLead, cpBody, m_ClientThread_playing_phase, List.getD_cons_succ, List.getD_cons_zero, penv, cself]
      cbsimp [ha, ha', had, hpn, cb_partner_ne, cb_ne_partner]
    · simp only [cpLead, cpBody, m_ClientThread_playing_phase, List.getD_cons_succ, List.getD_cons_zero, penv, cself]
      cbsimp [ha, had]

end Bridge.Translated.ClientB
