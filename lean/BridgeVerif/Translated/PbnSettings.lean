import BridgeVerif.Translated.PbnSettingsLemmasC
import BridgeVerif.Props.C17
/-!
# `PbnParser.parse_board_settings` AS TRANSLATED reads the model's boards  (C17)

The last method of the class (`m_PbnParser_parse_board_settings`, Generated/PyCorePbn.lean): `parse_stream(fp)`, then for
every game `Hands.convert_pbn(x['Deal'])`, `Player[x['Dealer']]`, `Vul.str_to_vul(x['Vulnerable'])`, `x['Board']`,
`BoardSetting(hands=…, dealer=…, vul=…, board_id=…, dda=None)` — against `pbnBoardSettings?` / `settingOfGame?` of
Model/Pbn.lean.

* `pp_parse_board_settings_wide` (`…_from`: from any parser state; `…_closed`: regular-expression facts plugged in):
  - `pbnBoardSettings? lines = some es`  ⇒  the call returns `.tuple (es'.map encSetting)` with `SameSettings es' es`:
    entry by entry the same board id, dealer, vulnerability, `dda = None`, and hands with the same members seat by seat,
    listed without repetition (`SameSetting`; the interpreter's sets keep FIRST occurrences, the model's `dedup` LAST
    ones, so only the order inside a hand can differ);
  - `pbnBoardSettings? lines = none`  ⇒  the call raises an exception of a class in `psErrors = [KeyError, Exception]`:
    `KeyError` for a missing tag, for `Player[name]` and for `Vul[name]` on an unknown name, `Exception` from
    `Hands.convert_pbn`.  The FIRST failing game decides (`mapM`; Python stops there).
* `pp_pbn_import_round_trip_translated` / `…_universal` — with `C17.pbn_import_round_trip(_universal)`: for every
  admissible layout `f` describing boards `bs`, the TRANSLATED `parse_board_settings` on `pyLines f.text`
  (`pyLines (universalNewlines f.text)`) returns records `es'` with `es'.length = bs.length`, `SameBoard es'[i] bs[i]`
  and duplicate-free hands.
* a two-board file by instantiation (end of the file).

Hypotheses:
* `PbnRegexFacts`, `PbnSubNonempty`, `HandsRegexFacts` (discharged in the `_closed` versions by `pbnRegexFacts`,
  `sub_matches_nonempty`, `handsRegexFacts`);
* every line non-empty and of at most 466 characters (fuel: `f + 4 * N + 60` levels for lines with `length + 1 < 2 * N`,
  `ps_settings_call`; the number of lines and of boards is unbounded) — in the round-trip corollaries non-emptiness is
  DERIVED from admissibility (every line ends with the line end), the length bound stays a hypothesis on the lines;
* `pctLineOk l` for the lines that start with `%` (Translated/PbnParserLemmasF.lean): in the round-trip corollaries this
  stays a hypothesis on the lines of the layout (its header lines are arbitrary `%` lines, and no regular-expression
  reasoning is done for `re.match(r'% PBN (\d+)\.(\d+)')`); `…_no_pct` asks instead that no line of the
  layout starts with `%`, and then needs nothing about `re.match`.
-/
namespace Bridge.Translated
open Bridge Bridge.Py Bridge.Generated.PyCore Bridge.RegexPbn Bridge.RegexHands

theorem pp_parse_board_settings_wide_from (hf : PbnRegexFacts) (hne : PbnSubNonempty) (hh : HandsRegexFacts)
    (lines : List Str) (hok : ∀ l ∈ lines, l ≠ [] ∧ l.length ≤ 466)
    (hpct : ∀ l ∈ lines, l.head? = some '%' → pctLineOk l = true) (st : PbnSt) (cl cb : List Str) :
    match (streamFrom st lines).mapM settingOfGame? with
    | some es => ∃ es' st' cl' cb', SameSettings es' es ∧
        P.runMethod n_PbnParser n_parse_board_settings [encPbnParser st cl cb, .tuple (lines.map Val.str)]
        = .ok (.tuple (es'.map encSetting), encPbnParser st' cl' cb')
    | none => ∃ c, c ∈ psErrors ∧
        P.runMethod n_PbnParser n_parse_board_settings [encPbnParser st cl cb, .tuple (lines.map Val.str)]
        = .error (.exc c) := by
  rw [pp_runMethod_eq _ _ _ _ _ ps_mth_settings]
  exact ps_settings_call hf hne hh 3 234 lines (pp_linesOkW 234 466 (by decide) lines hok hpct) st cl cb

/-- THE TRANSLATED `PbnParser().parse_board_settings(lines)` -/
theorem pp_parse_board_settings_wide (hf : PbnRegexFacts) (hne : PbnSubNonempty) (hh : HandsRegexFacts)
    (lines : List Str) (hok : ∀ l ∈ lines, l ≠ [] ∧ l.length ≤ 466)
    (hpct : ∀ l ∈ lines, l.head? = some '%' → pctLineOk l = true) :
    match pbnBoardSettings? lines with
    | some es => ∃ es' self', SameSettings es' es ∧
        P.runMethod n_PbnParser n_parse_board_settings [encPbnParser {} [] [], .tuple (lines.map Val.str)]
        = .ok (.tuple (es'.map encSetting), self')
    | none => ∃ c, c ∈ psErrors ∧
        P.runMethod n_PbnParser n_parse_board_settings [encPbnParser {} [] [], .tuple (lines.map Val.str)]
        = .error (.exc c) := by
  have h := pp_parse_board_settings_wide_from hf hne hh lines hok hpct {} [] []
  have e : pbnBoardSettings? lines = (streamFrom {} lines).mapM settingOfGame? := rfl
  rw [e]
  cases hm : (streamFrom {} lines).mapM settingOfGame? with
  | none => rw [hm] at h; exact h
  | some es =>
    rw [hm] at h
    obtain ⟨es', st', cl', cb', hs, hr⟩ := h
    exact ⟨es', _, hs, hr⟩

theorem pp_parse_board_settings_wide_closed (lines : List Str) (hok : ∀ l ∈ lines, l ≠ [] ∧ l.length ≤ 466)
    (hpct : ∀ l ∈ lines, l.head? = some '%' → pctLineOk l = true) :
    match pbnBoardSettings? lines with
    | some es => ∃ es' self', SameSettings es' es ∧
        P.runMethod n_PbnParser n_parse_board_settings [encPbnParser {} [] [], .tuple (lines.map Val.str)]
        = .ok (.tuple (es'.map encSetting), self')
    | none => ∃ c, c ∈ psErrors ∧
        P.runMethod n_PbnParser n_parse_board_settings [encPbnParser {} [] [], .tuple (lines.map Val.str)]
        = .error (.exc c) :=
  pp_parse_board_settings_wide pbnRegexFacts pbnSubNonempty handsRegexFacts lines hok hpct

theorem pp_parse_board_settings_wide_closed_some (lines : List Str) (hok : ∀ l ∈ lines, l ≠ [] ∧ l.length ≤ 466)
    (hpct : ∀ l ∈ lines, l.head? = some '%' → pctLineOk l = true) (es : List SettingEntry)
    (hm : pbnBoardSettings? lines = some es) :
    ∃ es' self', SameSettings es' es ∧
      P.runMethod n_PbnParser n_parse_board_settings [encPbnParser {} [] [], .tuple (lines.map Val.str)]
      = .ok (.tuple (es'.map encSetting), self') := by
  have h := pp_parse_board_settings_wide_closed lines hok hpct
  rw [hm] at h; exact h

theorem pp_parse_board_settings_wide_closed_none (lines : List Str) (hok : ∀ l ∈ lines, l ≠ [] ∧ l.length ≤ 466)
    (hpct : ∀ l ∈ lines, l.head? = some '%' → pctLineOk l = true) (hm : pbnBoardSettings? lines = none) :
    ∃ c, c ∈ psErrors ∧
      P.runMethod n_PbnParser n_parse_board_settings [encPbnParser {} [] [], .tuple (lines.map Val.str)]
      = .error (.exc c) := by
  have h := pp_parse_board_settings_wide_closed lines hok hpct
  rw [hm] at h; exact h

/-! ## the round trip of C17 through the translated reader -/
theorem ps_lines_nonempty (f : FileL) (hf : f.Admissible) : ∀ l ∈ f.lines, l ≠ [] := by
  intro l hl
  rw [f.lines_eq_bodies] at hl
  obtain ⟨b, _, rfl⟩ := List.mem_map.1 hl
  intro e
  have : f.eol = [] := (List.append_eq_nil_iff.1 e).2
  rcases hf.eol with h | h <;> rw [h] at this <;> cases this

theorem ps_round_trip_lines (lines : List Str) (hne : ∀ l ∈ lines, l ≠ []) (hlen : ∀ l ∈ lines, l.length ≤ 466)
    (hpct : ∀ l ∈ lines, l.head? = some '%' → pctLineOk l = true) (bs : List SettingEntry)
    (hr : ∃ rs, pbnBoardSettings? lines = some rs ∧ rs.length = bs.length ∧
      ∀ i (h₁ : i < rs.length) (h₂ : i < bs.length), SameBoard rs[i] bs[i]) :
    ∃ (es' : List SettingEntry) (self' : Val), P.runMethod n_PbnParser n_parse_board_settings [encPbnParser {} [] [], .tuple (lines.map Val.str)]
        = .ok (.tuple (es'.map encSetting), self') ∧ es'.length = bs.length ∧
      ∀ i (h₁ : i < es'.length) (h₂ : i < bs.length), SameBoard es'[i] bs[i] ∧ ∀ p, (es'[i].deal p).Nodup := by
  obtain ⟨rs, hm, hl, hsb⟩ := hr
  obtain ⟨es', self', hs, hrun⟩ := pp_parse_board_settings_wide_closed_some lines
    (fun l h => ⟨hne l h, hlen l h⟩) hpct rs hm
  refine ⟨es', self', hrun, hs.length_eq.trans hl, fun i h₁ h₂ => ?_⟩
  have hi : i < rs.length := by rw [← hs.length_eq]; exact h₁
  obtain ⟨a1, a2, a3, a4, a5, a6⟩ := hs.getElem i h₁ hi
  obtain ⟨b1, b2, b3, b4, b5⟩ := hsb i hi h₂
  exact ⟨⟨a1.trans b1, a2.trans b2, a3.trans b3, fun p => (a5 p).trans (b4 p), a4.trans b5⟩, a6⟩

/-- C17 (PBN) through the translated reader: `io.StringIO(text)` -/
theorem pp_pbn_import_round_trip_translated (f : FileL) (hf : f.Admissible) (bs : List SettingEntry)
    (hlen : f.games.length = bs.length)
    (hd : ∀ i (h₁ : i < f.games.length) (h₂ : i < bs.length), f.games[i].Describes bs[i])
    (hw : ∀ b ∈ bs, PartialDeal b.deal)
    (hsize : ∀ l ∈ f.lines, l.length ≤ 466) (hpct : ∀ l ∈ f.lines, l.head? = some '%' → pctLineOk l = true) :
    ∃ (es' : List SettingEntry) (self' : Val), P.runMethod n_PbnParser n_parse_board_settings
          [encPbnParser {} [] [], .tuple ((pyLines f.text).map Val.str)]
        = .ok (.tuple (es'.map encSetting), self') ∧ es'.length = bs.length ∧
      ∀ i (h₁ : i < es'.length) (h₂ : i < bs.length), SameBoard es'[i] bs[i] ∧ ∀ p, (es'[i].deal p).Nodup := by
  have hr := C17.pbn_import_round_trip f hf bs hlen hd hw
  rw [pyLines_text f hf] at hr ⊢
  exact ps_round_trip_lines f.lines (ps_lines_nonempty f hf) hsize hpct bs hr

/-- … and through `open()` (universal newlines): the conditions are on the lines with LF line ends -/
theorem pp_pbn_import_round_trip_translated_universal (f : FileL) (hf : f.Admissible) (bs : List SettingEntry)
    (hlen : f.games.length = bs.length)
    (hd : ∀ i (h₁ : i < f.games.length) (h₂ : i < bs.length), f.games[i].Describes bs[i])
    (hw : ∀ b ∈ bs, PartialDeal b.deal)
    (hsize : ∀ l ∈ ({ f with eol := ['\n'] } : FileL).lines, l.length ≤ 466)
    (hpct : ∀ l ∈ ({ f with eol := ['\n'] } : FileL).lines, l.head? = some '%' → pctLineOk l = true) :
    ∃ (es' : List SettingEntry) (self' : Val), P.runMethod n_PbnParser n_parse_board_settings
          [encPbnParser {} [] [], .tuple ((pyLines (universalNewlines f.text)).map Val.str)]
        = .ok (.tuple (es'.map encSetting), self') ∧ es'.length = bs.length ∧
      ∀ i (h₁ : i < es'.length) (h₂ : i < bs.length), SameBoard es'[i] bs[i] ∧ ∀ p, (es'[i].deal p).Nodup := by
  have hr := C17.pbn_import_round_trip_universal f hf bs hlen hd hw
  rw [pyLines_universal f hf] at hr ⊢
  exact ps_round_trip_lines _ (ps_lines_nonempty _ (admissible_lf f hf)) hsize hpct bs hr

/-- layouts without a line that starts with `%`: nothing is needed about the two `re.match` calls -/
theorem pp_pbn_import_round_trip_translated_no_pct (f : FileL) (hf : f.Admissible) (bs : List SettingEntry)
    (hlen : f.games.length = bs.length)
    (hd : ∀ i (h₁ : i < f.games.length) (h₂ : i < bs.length), f.games[i].Describes bs[i])
    (hw : ∀ b ∈ bs, PartialDeal b.deal)
    (hsize : ∀ l ∈ f.lines, l.length ≤ 466) (hno : ∀ l ∈ f.lines, l.head? ≠ some '%') :
    ∃ (es' : List SettingEntry) (self' : Val), P.runMethod n_PbnParser n_parse_board_settings
          [encPbnParser {} [] [], .tuple ((pyLines f.text).map Val.str)]
        = .ok (.tuple (es'.map encSetting), self') ∧ es'.length = bs.length ∧
      ∀ i (h₁ : i < es'.length) (h₂ : i < bs.length), SameBoard es'[i] bs[i] ∧ ∀ p, (es'[i].deal p).Nodup :=
  pp_pbn_import_round_trip_translated f hf bs hlen hd hw hsize fun l hl h => absurd h (hno l hl)

/-! ## non-vacuity: a two-board file (a `%` header, a blank line between the boards, an unknown tag) -/
def psExampleLines : List Str :=
  ["% PBN 2.1\n".toList,
   "[Board \"7\"]\n".toList, "[Dealer \"S\"]\n".toList, "[Vulnerable \"Both\"]\n".toList,
   "[Deal \"N:AKQJ.T98.765.432 - - -\"]\n".toList, "[Event \"x\"]\n".toList,
   "\n".toList,
   "[Board \"8\"]\n".toList, "[Dealer \"W\"]\n".toList, "[Vulnerable \"None\"]\n".toList,
   "[Deal \"E:- - - -\"]\n".toList]

/-- what is compared: board id, dealer, vulnerability, the number of cards North holds -/
def psView (e : SettingEntry) : Str × Seat × Vul × Nat := (e.boardId, e.dealer, e.vul, (e.deal .N).length)

theorem ps_example_model : (pbnBoardSettings? psExampleLines).map (List.map psView)
    = some [("7".toList, .S, .both, 13), ("8".toList, .W, .none, 0)] := by decide +kernel
theorem ps_example_ok : ∀ l ∈ psExampleLines, l ≠ [] ∧ l.length ≤ 466 := by decide +kernel
theorem ps_example_pct : ∀ l ∈ psExampleLines, l.head? = some '%' → pctLineOk l = true := by decide +kernel

theorem ps_view_same {as bs : List SettingEntry} (h : SameSettings as bs) : as.map psView = bs.map psView := by
  induction h with
  | nil => rfl
  | cons hab _ ih =>
    obtain ⟨a1, a2, a3, _, a5, _⟩ := hab
    simp only [List.map_cons, ih, psView, a1, a2, a3, (a5 .N).length_eq]

/-- the translated `parse_board_settings` returns the two boards -/
theorem ps_example :
    ∃ (es' : List SettingEntry) (self' : Val),
      P.runMethod n_PbnParser n_parse_board_settings [encPbnParser {} [] [], .tuple (psExampleLines.map Val.str)]
        = .ok (.tuple (es'.map encSetting), self') ∧
      es'.map psView = [("7".toList, .S, .both, 13), ("8".toList, .W, .none, 0)] := by
  have hm := ps_example_model
  cases hb : pbnBoardSettings? psExampleLines with
  | none => rw [hb] at hm; cases hm
  | some es =>
    rw [hb] at hm
    simp only [Option.map, Option.some.injEq] at hm
    obtain ⟨es', self', hs, hr⟩ := pp_parse_board_settings_wide_closed_some psExampleLines ps_example_ok ps_example_pct es hb
    exact ⟨es', self', hr, (ps_view_same hs).trans hm⟩

end Bridge.Translated
