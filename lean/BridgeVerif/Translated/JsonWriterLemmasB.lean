import BridgeVerif.Translated.JsonWriterLemmasA
/-! Translated JSON writers = model: `Contract.is_passed_out`, `str(contract)`, `convert_deal`, the synthetic file
object, and the framing methods `open` / `close` / `_write_content` of the three writer classes -/
namespace Bridge.Translated
open Bridge Bridge.Py Bridge.Generated.PyCore

/-! ## `Contract` -/
theorem jw_mth_contract_ipo :
    P.method? classDepth n_Contract n_is_passed_out = some (n_Contract, m_Contract_is_passed_out) := rfl
theorem jw_mth_contract_str : P.method? classDepth n_Contract K.str__ = some (n_Contract, m_Contract___str__) := rfl
theorem jw_beq_none_enum (c : Id) (n : Int) : Val.none.beq (.enum c n) = false := by simp only [Val.beq]
theorem jw_beq_encBid_none (b : Fin 35) : (encBid b).beq .none = false := by simp only [encBid, Val.beq]

theorem jw_contract_ipo_call (f : Nat) (c : Contract) :
    callF (mkRec P (f+10)) m_Contract_is_passed_out [encContract c] = .ok (.bool c.isPassedOut, encContract c) := by
  rw [callF_def]
  simp only [m_Contract_is_passed_out, bindParams, Option.map, encContract, Contract.isPassedOut]
  cases c.finalBid with
  | none => ppsimp [jw_beq_none_enum, truthy]
  | some b => ppsimp [beq_encBid_pass, jw_beq_encBid_none, truthy]

theorem jw_str_bid (f : Nat) (b : Fin 35) :
    builtinF (mkRec P (f+21)) P .str [encBid b] = .ok (.str (callStr (.bid b))) := by
  rw [← encCall_bid]; exact jw_str_call f (.bid b)

theorem jw_contract_str_call (f : Nat) (c : Contract) :
    callF (mkRec P (f+30)) m_Contract___str__ [encContract c] = .ok (.str (contractStr c), encContract c) := by
  rw [callF_def]
  obtain ⟨fb, x, xx, v, d⟩ := c
  have hp := jw_contract_ipo_call (f+17) ⟨fb, x, xx, v, d⟩
  simp only [m_Contract___str__, bindParams, Option.map, encContract, Contract.isPassedOut, contractStr, Nat.add_assoc,
    Nat.reduceAdd] at hp ⊢
  cases fb with
  | none =>
    simp only [pp_encOpt_none, Option.isNone_none] at hp ⊢
    ppsimp [jw_mth_contract_ipo, hp]
    rfl
  | some b =>
    simp only [pp_encOpt_some, Option.isNone_some] at hp ⊢
    cases xx <;> cases x <;> ppsimp [jw_mth_contract_ipo, hp, jw_str_bid, List.append_nil]

theorem jw_str_contract (f : Nat) (c : Contract) :
    builtinF (mkRec P (f+31)) P .str [encContract c] = .ok (.str (contractStr c)) :=
  jw_builtin_str_obj (f+30) _ _ _ _ jw_mth_contract_str _ _ (jw_contract_str_call f c)

/-! ## `convert_deal` -/
theorem jw_fn_convert_deal : findFunc P.funcs n_convert_deal = some f_convert_deal := rfl

theorem jw_convert_deal_call (f : Nat) (h : Hands) (hok : ∀ p, ∀ c ∈ h p, 2 ≤ c.rank ∧ c.rank ≤ 14) :
    callF (mkRec P (f+40)) f_convert_deal [encHands h] = .ok (dealVal h, encHands h) := by
  rw [callF_def]
  simp only [f_convert_deal, bindParams, Option.map]
  have hs : ∀ p, ∀ c ∈ sortAsc (h p), 2 ≤ c.rank ∧ c.rank ≤ 14 :=
    fun p c hc => hok p c ((sortAsc_perm (h p)).mem_iff.1 hc)
  ppsimp [hd_index_hands, hands_mth_getitem, hands_getitem_call_N, hands_getitem_call_E, hands_getitem_call_S,
    hands_getitem_call_W, jw_sorted_cards _ _ (hok .N), jw_sorted_cards _ _ (hok .E), jw_sorted_cards _ _ (hok .S),
    jw_sorted_cards _ _ (hok .W), iterItems_tuple, jw_comp_str_cards _ _ _ (hs .N), jw_comp_str_cards _ _ _ (hs .E),
    jw_comp_str_cards _ _ _ (hs .S), jw_comp_str_cards _ _ _ (hs .W), updateD, Val.beq, List.map_cons, List.map_nil]
  rfl

/-! ## the file object and the framing -/
/-- the three writer classes -/
def IsWriterCls (cls : Id) : Prop := cls = n_JsonLogWriter ∨ cls = n_JsonBoardSettingWriter ∨ cls = n_JsonWriter
/-- the `TAG` class attribute -/
def jwTag (cls : Id) : Str :=
  if cls = n_JsonLogWriter then jkey "logs" else if cls = n_JsonBoardSettingWriter then jkey "board_settings" else []

theorem jw_mth_file_write : P.method? classDepth n__File n_write = some (n__File, m__File_write) := rfl

theorem jw_file_write_call (f : Nat) (chunks : List Str) (s : Str) :
    callF (mkRec P (f+8)) m__File_write [encFile chunks, .str s] = .ok (.none, encFile (chunks ++ [s])) := by
  rw [callF_def]
  simp only [m__File_write, bindParams, Option.map, encFile]
  ppsimp [List.map_append, List.map_cons, List.map_nil]

theorem jw_file_write_meth (f : Nat) (chunks : List Str) (s : Str) :
    methF (mkRec P (f+9)) P (encFile chunks) n_write [.str s] = .ok (.none, encFile (chunks ++ [s])) := by
  simp only [encFile, pp_meth_obj, callMethod, jw_mth_file_write, call_succ]
  exact jw_file_write_call f chunks s

theorem jw_open_text (tag : Str) : [['{', '\"'], tag, ['\"', ':', ' ', '[', '\n']].flatten = jsonOpen tag := by
  simp only [List.flatten_cons, List.flatten_nil, List.append_nil, jsonOpen, List.append_assoc]
  rfl

theorem jw_tag (f : Nat) (cls : Id) (hc : IsWriterCls cls) (fs : List (Id × Val)) (hl : lookup fs n_TAG = none) :
    getAttrF (mkRec P (f+6)) P (.obj cls fs) n_TAG = .ok (.str (jwTag cls)) := by
  rcases hc with rfl | rfl | rfl <;> (rw [pp_getAttr_obj]; simp only [hl]; rfl)

theorem jw_mth_open (cls : Id) (hc : IsWriterCls cls) :
    P.method? classDepth cls n_open = some (n_JsonWriter, m_JsonWriter_open) := by
  rcases hc with rfl | rfl | rfl <;> rfl
theorem jw_mth_close (cls : Id) (hc : IsWriterCls cls) :
    P.method? classDepth cls n_close = some (n_JsonWriter, m_JsonWriter_close) := by
  rcases hc with rfl | rfl | rfl <;> rfl
theorem jw_mth_write_content (cls : Id) (hc : IsWriterCls cls) :
    P.method? classDepth cls n__write_content = some (n_JsonWriter, m_JsonWriter__write_content) := by
  rcases hc with rfl | rfl | rfl <;> rfl

theorem jw_open_call (f : Nat) (cls : Id) (hc : IsWriterCls cls) (chunks : List Str) (o fl : Bool) :
    callF (mkRec P (f+20)) m_JsonWriter_open [encWriter cls chunks o fl]
      = .ok (.none, encWriter cls (chunks ++ [jsonOpen (jwTag cls)]) true true) := by
  rw [callF_def]
  simp only [m_JsonWriter_open, bindParams, Option.map, encWriter]
  have ht := fun f => jw_tag f cls hc [(n__writer, encFile chunks), (n__open, .bool o), (n__first_line, .bool fl)] rfl
  ppsimp [ht, strOfF, jw_file_write_meth, jw_open_text]

theorem jw_close_call (f : Nat) (cls : Id) (chunks : List Str) (o fl : Bool) :
    callF (mkRec P (f+20)) m_JsonWriter_close [encWriter cls chunks o fl]
      = .ok (.none, encWriter cls (chunks ++ [if fl then jkey "]}" else jkey "\n]}"]) false fl) := by
  rw [callF_def]
  simp only [m_JsonWriter_close, bindParams, Option.map, encWriter]
  cases fl <;> ppsimp [jw_file_write_meth] <;> rfl

theorem jw_write_content_call (f : Nat) (cls : Id) (chunks : List Str) (o fl : Bool) (d : Val) (j : Json)
    (hj : valToJson d = some j) :
    callF (mkRec P (f+20)) m_JsonWriter__write_content [encWriter cls chunks o fl, d]
      = .ok (.none, encWriter cls (chunks ++ (if fl then [] else [jkey ",\n"]) ++ [pyDumps j]) o false) := by
  rw [callF_def]
  simp only [m_JsonWriter__write_content, bindParams, Option.map, encWriter]
  cases fl <;> ppsimp [jw_file_write_meth, builtinF, hj, List.append_nil, List.append_assoc] <;> rfl

end Bridge.Translated
