import BridgeVerif.Translated.AuctionLemmasC
/-! Translated `BiddingPhase` = model: `take_bid`, the Pass branch -/
namespace Bridge.Translated
open Bridge Bridge.Py Bridge.Generated.PyCore

theorem tb_kind_pass_fin (f : Nat) (s : AState) (p : Seat) (h : s.active = some p)
    (hc : 3 ≤ s.history.length ∧ s.history.head? = some .pass ∧ s.history.tail.head? = some .pass) :
    execStmtF (mkRec P (f+30)) P (envOf s .pass) tbKind =
      .ok (envOf { s with history := .pass :: s.history,
                          perSeat := fun q => if q = p then .pass :: s.perSeat q else s.perSeat q,
                          active := none } .pass, .ret (encRes .finished)) := by
  obtain ⟨dealer, vul, active, lastBidder, lastBid, calledX, calledXX, history, perSeat, declCheck, avail⟩ := s
  simp only at h; subst h
  simp only at hc
  obtain ⟨h3, h1, h2⟩ := hc
  match history, h3, h1, h2 with
  | c1 :: c2 :: c3 :: rest, _, h1, h2 =>
    simp only [List.head?, List.tail, Option.some.injEq] at h1 h2
    subst h1; subst h2
    simp only [tbKind, m_BiddingPhase_take_bid, List.getD_cons_succ, List.getD_cons_zero, envOf, encState, encRes]
    have e : decide (3 ≤ (Call.pass :: Call.pass :: c3 :: rest).length) = true := by simp
    pysimp [beq_encCall_pass, hist_len, hist_last, hist_last2, compare_len_ge3, lookup_perSeat, update_perSeat, e]
    simp only [List.reverse_cons, List.map_append, List.map_cons, List.map_nil]


theorem tb_kind_pass_go (f : Nat) (s : AState)
    (hc : ¬ (3 ≤ s.history.length ∧ s.history.head? = some .pass ∧ s.history.tail.head? = some .pass)) :
    execStmtF (mkRec P (f+30)) P (envOf s .pass) tbKind = .ok (envOf s .pass, .next) := by
  obtain ⟨dealer, vul, active, lastBidder, lastBid, calledX, calledXX, history, perSeat, declCheck, avail⟩ := s
  simp only at hc
  simp only [tbKind, m_BiddingPhase_take_bid, List.getD_cons_succ, List.getD_cons_zero, envOf, encState]
  by_cases h3 : 3 ≤ history.length
  · match history, h3, hc with
    | c1 :: c2 :: c3 :: rest, _, hc =>
      have e : decide (3 ≤ (c1 :: c2 :: c3 :: rest).length) = true := by simp
      by_cases e1 : c1 = .pass
      · have e2 : c2 ≠ .pass := by
          intro h; apply hc; simp [e1, h]
        subst e1
        pysimp [beq_encCall_pass, hist_len, hist_last, hist_last2, compare_len_ge3, e, e2, decide_false, decide_true]
      · pysimp [beq_encCall_pass, hist_len, hist_last, hist_last2, compare_len_ge3, e, e1, decide_false, decide_true]
  · have e : decide (3 ≤ history.length) = false := by simp [h3]
    pysimp [beq_encCall_pass, hist_len, compare_len_ge3, e]
end Bridge.Translated
