import BridgeVerif.Translated.PlayLemmasF
/-! Translated playing phases = model: the two checks, `PlayingPhase.play_card_by_player`,
`PlayingPhaseWithHands` -/
namespace Bridge.Translated
open Bridge Bridge.Py Bridge.Generated.PyCore

/-! ## `_check_active_player`, `_check_has_card` -/
theorem check_active_call (f : Nat) (k : Id) (ex : List (Id × Val)) (c : Contract) (s : PState) (p : Seat) :
    callF (mkRec P (f+10)) m_PlayingPhase__check_active_player [ppObj k c s ex, encSeat p]
      = if p ≠ s.active then .error (.exc K.ValueError) else .ok (.none, ppObj k c s ex) := by
  rw [callF_def]
  simp only [m_PlayingPhase__check_active_player, bindParams, Option.map, ppObj, baseFields]
  by_cases h : p = s.active <;> ppsimp [h]

theorem check_has_call (f : Nat) (pv : Val) (hand : List Card) (card : Card) :
    callF (mkRec P (f+10)) m_PlayingPhase__check_has_card [pv, .tuple (hand.map encCard), encCard card]
      = if card ∉ hand then .error (.exc K.ValueError) else .ok (.none, pv) := by
  rw [callF_def]
  simp only [m_PlayingPhase__check_has_card, bindParams, Option.map]
  by_cases h : card ∈ hand <;> ppsimp [h, contains_encCard]

/-! ## `PlayingPhase.play_card_by_player` -/
theorem mth_pp_check_active : P.method? classDepth n_PlayingPhase n__check_active_player
    = some (n_PlayingPhase, m_PlayingPhase__check_active_player) := rfl
theorem mth_pp_check_has : P.method? classDepth n_PlayingPhase n__check_has_card
    = some (n_PlayingPhase, m_PlayingPhase__check_has_card) := rfl
theorem mth_pp_play_card : P.method? classDepth n_PlayingPhase n_play_card
    = some (n_PlayingPhase, m_PlayingPhase_play_card) := rfl

theorem play_by_call (f : Nat) (c : Contract) (s : PState) (card : Card) (p : Seat) (hwf : WF s) :
    callF (mkRec P (f+60)) m_PlayingPhase_play_card_by_player [ppObj n_PlayingPhase c s [], encCard card, encSeat p]
      = match s.playBy card p with
        | .error _ => .error (.exc K.ValueError)
        | .ok s' => .ok (.none, ppObj n_PlayingPhase c s' []) := by
  rw [callF_def]
  simp only [m_PlayingPhase_play_card_by_player, bindParams, Option.map]
  have h1 := check_active_call (f+48) n_PlayingPhase [] c s p
  have h2 := play_card_call (f+8) n_PlayingPhase ppclass_base [] c s card (fun _ => hwf)
  simp only [ppObj, baseFields, List.cons_append, List.nil_append] at h1 h2 ⊢
  by_cases h : p = s.active
  · simp only [h, ne_eq, not_true_eq_false, if_false] at h1
    ppsimp [mth_pp_check_active, mth_pp_play_card, h]
    rw [h1]
    ppsimp [mth_pp_play_card]
    rw [h2]
    ppsimp [PState.playBy]
  · simp only [ne_eq, h, not_false_eq_true, if_true] at h1
    ppsimp [mth_pp_check_active, mth_pp_play_card]
    rw [h1]
    ppsimp [PState.playBy, h]

/-! ## `PlayingPhaseWithHands` -/
theorem update_hands' (h : Seat → List Card) (p : Seat) (l : List Card) :
    updateD (handsKvs h) (encSeat p) (.tuple (l.map encCard)) = handsKvs (fun q => if q = p then l else h q) :=
  update_hands h p l

theorem with_hands_play_call (f : Nat) (c : Contract) (w : WithHands) (card : Card) (p : Seat) (hwf : WF w.base) :
    callF (mkRec P (f+60)) m_PlayingPhaseWithHands_play_card_by_player [encWithHands c w, encCard card, encSeat p]
      = match w.play card p with
        | .error _ => .error (.exc K.ValueError)
        | .ok w' => .ok (.none, encWithHands c w') := by
  rw [callF_def]
  simp only [m_PlayingPhaseWithHands_play_card_by_player, bindParams, Option.map]
  obtain ⟨s, hands⟩ := w
  simp only at hwf
  have h1 := check_active_call (f+48) n_PlayingPhaseWithHands [(n_hands, .dict (handsKvs hands))] c s p
  have h2 := play_card_call (f+8) n_PlayingPhaseWithHands ppclass_withHands
    [(n_hands, .dict (handsKvs (fun q => if q = p then (hands p).erase card else hands q)))] c s card (fun _ => hwf)
  simp only [encWithHands, ppObj, baseFields, List.cons_append, List.nil_append, encCards] at h1 h2 ⊢
  by_cases h : p = s.active
  · subst h
    simp only [ne_eq, not_true_eq_false, if_false] at h1
    by_cases hm : card ∈ hands s.active
    · ppsimp [mth_pp_check_active, mth_pp_play_card, mth_pp_check_has]
      rw [h1]
      ppsimp [mth_pp_play_card, mth_pp_check_has, lookup_hands, encCards, check_has_call, hm, removeFirst_encCard,
        update_hands']
      rw [h2]
      ppsimp [WithHands.play, hm]
    · ppsimp [mth_pp_check_active, mth_pp_play_card, mth_pp_check_has]
      rw [h1]
      ppsimp [mth_pp_play_card, mth_pp_check_has, lookup_hands, encCards, check_has_call, hm, WithHands.play]
  · simp only [ne_eq, h, not_false_eq_true, if_true] at h1
    ppsimp [mth_pp_check_active, mth_pp_play_card]
    rw [h1]
    ppsimp [WithHands.play, h]

theorem mth_pp_current_available : P.method? classDepth n_PlayingPhase n_current_available_cards
    = some (n_PlayingPhase, m_PlayingPhase_current_available_cards) := rfl
theorem mth_pp_init : P.method? classDepth n_PlayingPhase K.init = some (n_PlayingPhase, m_PlayingPhase___init__) := rfl

theorem with_hands_available_call (f : Nat) (c : Contract) (w : WithHands) (p : Seat) :
    callF (mkRec P (f+30)) m_PlayingPhaseWithHands_current_available_cards_in_hand [encWithHands c w, encSeat p]
      = .ok (encCards (w.base.currentAvailable (w.hands p)), encWithHands c w) := by
  rw [callF_def]
  simp only [m_PlayingPhaseWithHands_current_available_cards_in_hand, bindParams, Option.map]
  obtain ⟨s, hands⟩ := w
  have h1 := current_available_call (f+7) n_PlayingPhaseWithHands [(n_hands, .dict (handsKvs hands))] c s (hands p)
  simp only [encWithHands, ppObj, baseFields, List.cons_append, List.nil_append] at h1 ⊢
  ppsimp [mth_pp_current_available, lookup_hands]
  rw [h1]
  ppsimp []

theorem with_hands_init_call (f : Nat) (c : Contract) (hands : Seat → List Card) :
    callF (mkRec P (f+50)) m_PlayingPhaseWithHands___init__
        [.obj n_PlayingPhaseWithHands [], encContract c, .dict (handsKvs hands)] =
      match c.finalBid, c.declarer with
      | none, _ => .error (.exc K.Exception)
      | some _, none => .error (.exc K.AssertionError)
      | some b, some d => .ok (.none, encWithHands c ⟨initState b d, hands⟩) := by
  rw [callF_def]
  simp only [m_PlayingPhaseWithHands___init__, bindParams, Option.map]
  ppsimp [mth_pp_init, init_call]
  cases c.finalBid with
  | none => ppsimp []
  | some b =>
    cases c.declarer with
    | none => ppsimp []
    | some d => ppsimp [ppObj, baseFields, encWithHands]

end Bridge.Translated
