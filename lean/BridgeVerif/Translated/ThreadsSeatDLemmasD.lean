import BridgeVerif.Translated.ThreadsSeatDLemmasC
/-! (2) one trick and the thirteen tricks of the session model satisfy `trickChecks` / `tricksChecks` (following
`one_trick` / `tricks_play` of Lemmas/SeatThread.lean, with the trick number carried along) -/
set_option maxRecDepth 4000
namespace Bridge.Translated.SeatD
open Bridge Bridge.Py Bridge.Generated.PyCore
open Bridge.Translated.SeatB (cardMainR cardOpenR mainCheck openCheck trickChecks tricksChecks playingChecks
  readyCardText readyDummyText)

theorem playCard_mid_num (s : PState) (x : Card) (h : s.trick.length < 3) :
    (playCard s x).trickNum = s.trickNum := by
  rw [playCard_incomplete s x (by omega)]
theorem playCard_last_num (s : PState) (x : Card) (h : s.trick.length = 3) :
    (playCard s x).trickNum = s.trickNum + 1 := by
  rw [playCard_complete s x h]; simp

/-- the `ready` text of the session model's client while the card of `a` to trick `k` is awaited -/
abbrev rdyText (p d a : Seat) (k : Nat) : Text :=
  readyFor p ((if a = d.partner then "dummy".toList else a.formal) ++ "'s card to trick ".toList ++ natStr k)

theorem one_trick_checks (p d : Seat) (deal : Hands) (s : PState) (j k : Nat) (hk1 : 1 ≤ k) (hk13 : k ≤ 13)
    (hkj : k = 1 ↔ j = 0) (htn : s.trickNum = k)
    (ht : s.trick = []) (ha : s.active = s.leader) (x1 x2 x3 x4 : Card × Text) (rest : List (Card × Text)) :
    ∃ (s4 : PState) (Q C : List Text),
      (cardPhases d deal s j (x1 :: x2 :: x3 :: x4 :: rest)).flatMap (qOf p) =
        s.leader.formal :: Q ++ (cardPhases d deal s4 (j + 4) rest).flatMap (qOf p) ∧
      (cardPhases d deal s j (x1 :: x2 :: x3 :: x4 :: rest)).flatMap (cOf p) =
        C ++ (cardPhases d deal s4 (j + 4) rest).flatMap (cOf p) ∧
      (∀ q' c', ∃ S, seatTrickR p d (decide (k = 1)) 0 s.leader { q := Q ++ q', c := C ++ c' }
        = some (S, { q := q', c := c' })) ∧
      (∀ q' c', trickChecks p d k 4 0 s.leader { q := Q ++ q', c := C ++ c' }) ∧
      s4.trick = [] ∧ s4.active = s4.leader ∧ s4.trickNum = k + 1 := by
  obtain ⟨c1, t1⟩ := x1
  obtain ⟨c2, t2⟩ := x2
  obtain ⟨c3, t3⟩ := x3
  obtain ⟨c4, t4⟩ := x4
  obtain ⟨e1t, e1a, e1l⟩ := playCard_mid s c1 (by simp [ht])
  obtain ⟨e2t, e2a, e2l⟩ := playCard_mid (playCard s c1) c2 (by simp [e1t, ht])
  obtain ⟨e3t, e3a, e3l⟩ := playCard_mid (playCard (playCard s c1) c2) c3 (by simp [e2t, e1t, ht])
  obtain ⟨e4t, e4a⟩ := playCard_last (playCard (playCard (playCard s c1) c2) c3) c4 (by simp [e3t, e2t, e1t, ht])
  have e1n := playCard_mid_num s c1 (by simp [ht])
  have e2n := playCard_mid_num (playCard s c1) c2 (by simp [e1t, ht])
  have e3n := playCard_mid_num (playCard (playCard s c1) c2) c3 (by simp [e2t, e1t, ht])
  have e4n := playCard_last_num (playCard (playCard (playCard s c1) c2) c3) c4 (by simp [e3t, e2t, e1t, ht])
  rw [e3n, e2n, e1n, htn] at e4n
  rw [e2n, e1n, htn] at e3n
  rw [e1n, htn] at e2n
  rw [htn] at e1n
  refine ⟨playCard (playCard (playCard (playCard s c1) c2) c3) c4, ?_⟩
  simp only [cardPhases, List.flatMap_cons, qOf_card, cOf_card, e1t, e2t, e3t, ht, e1a, e2a, e3a,
    e1l, e2l, e3l, ha, e1n, e2n, e3n, htn]
  have hj : j + 1 + 1 + 1 + 1 = j + 4 := rfl
  simp only [hj, decide_true, if_true, List.nil_append, List.cons_append, List.cons_ne_nil, decide_false,
    Bool.false_eq_true, if_false]
  generalize cardsMsg "Dummy".toList (deal d.partner) = dc
  have hd := ready_dummy_passes p
  generalize readyFor p "dummy".toList = rdd at hd ⊢
  have h1 := ready_card_passes p d s.leader k hk1 hk13
  have h2 := ready_card_passes p d s.leader.left k hk1 hk13
  have h3 := ready_card_passes p d s.leader.left.left k hk1 hk13
  have h4 := ready_card_passes p d s.leader.left.left.left k hk1 hk13
  generalize hr1 : rdyText p d s.leader k = r1 at h1
  generalize hr2 : rdyText p d s.leader.left k = r2 at h2
  generalize hr3 : rdyText p d s.leader.left.left k = r3 at h3
  generalize hr4 : rdyText p d s.leader.left.left.left k = r4 at h4
  simp only [rdyText] at hr1 hr2 hr3 hr4
  rw [hr1] at h1
  rw [hr2] at h2
  rw [hr3] at h3
  rw [hr4] at h4
  simp only [hr1, hr2, hr3, hr4]
  refine ⟨cardQ p d s.leader (decide (j = 0)) t1 dc ++ (cardQ p d s.leader.left (decide (j + 1 = 0)) t2 dc ++
      (cardQ p d s.leader.left.left (decide (j + 1 + 1 = 0)) t3 dc ++
        cardQ p d s.leader.left.left.left (decide (j + 1 + 1 + 1 = 0)) t4 dc)),
    cardC p d s.leader (decide (j = 0)) t1 r1 rdd ++ (cardC p d s.leader.left (decide (j + 1 = 0)) t2 r2 rdd ++
      (cardC p d s.leader.left.left (decide (j + 1 + 1 = 0)) t3 r3 rdd ++
        cardC p d s.leader.left.left.left (decide (j + 1 + 1 + 1 = 0)) t4 r4 rdd)),
    ?_, ?_, ?_, ?_, e4t, e4a, e4n⟩
  · simp only [List.append_assoc]
  · simp only [List.append_assoc]
  · intro q' c'
    simp only [List.append_assoc]
    rw [seatTrickR_step p d s.leader (decide (k = 1)) 0 (by omega) true (decide (j = 0)) (by simp) (by simp [hkj])]
    simp only [Nat.zero_add]
    rw [seatTrickR_step p d s.leader.left (decide (k = 1)) 1 (by omega) false (decide (j + 1 = 0)) (by simp) (by simp)]
    simp only [Nat.reduceAdd]
    rw [seatTrickR_step p d s.leader.left.left (decide (k = 1)) 2 (by omega) false (decide (j + 1 + 1 = 0)) (by simp)
      (by simp)]
    simp only [Nat.reduceAdd]
    rw [seatTrickR_step p d s.leader.left.left.left (decide (k = 1)) 3 (by omega) false (decide (j + 1 + 1 + 1 = 0))
      (by simp) (by simp)]
    simp only [Nat.reduceAdd]
    rw [seatTrickR.eq_1]
    simp only [Option.map_some, List.append_nil]
    exact ⟨_, rfl⟩
  · intro q' c'
    simp only [List.append_assoc]
    refine trickChecks_step p d _ k 3 0 _ (by simp [hkj]) _ _ _ _ _ _ h1 hd ?_
    refine trickChecks_step p d _ k 2 1 _ (by simp) _ _ _ _ _ _ h2 hd ?_
    refine trickChecks_step p d _ k 1 2 _ (by simp) _ _ _ _ _ _ h3 hd ?_
    refine trickChecks_step p d _ k 0 3 _ (by simp) _ _ _ _ _ _ h4 hd ?_
    trivial

/-! ## the tricks of a board -/
theorem tricks_checks (p d : Seat) (deal : Hands) (q' c' : List Text) :
    ∀ (n : Nat) (cards : List (Card × Text)) (s : PState) (k : Nat), cards.length = 4 * n →
      s.trick = [] → s.active = s.leader → s.trickNum = k + 1 → k + n ≤ 13 →
      tricksChecks p d n (k + 1)
          { q := (cardPhases d deal s (4 * k) cards).flatMap (qOf p) ++ q',
            c := (cardPhases d deal s (4 * k) cards).flatMap (cOf p) ++ c' } := by
  intro n
  induction n with
  | zero => intro cards s k _ _ _ _ _; trivial
  | succ n ih =>
    intro cards s k hl ht ha htn hkn
    match cards, hl with
    | x1 :: x2 :: x3 :: x4 :: rest, hl =>
      obtain ⟨s4, Q, C, hq, hc, hrun, hchk, ht4, ha4, hn4⟩ :=
        one_trick_checks p d deal s (4 * k) (k + 1) (by omega) (by omega) (by omega) htn ht ha x1 x2 x3 x4 rest
      have ih := ih rest s4 (k + 1) (by simp at hl; omega) ht4 ha4 hn4 (by omega)
      rw [show 4 * (k + 1) = 4 * k + 4 from by omega] at ih
      rw [hq, hc]
      intro ln i1 leader hg hsf
      simp only [List.cons_append, List.append_assoc, getQ_cons, Option.some.injEq, Prod.mk.injEq] at hg
      obtain ⟨rfl, rfl⟩ := hg
      rw [seatOfFormal_formal] at hsf
      cases hsf
      refine ⟨hchk _ _, fun t i2 htr => ?_⟩
      obtain ⟨S, hS⟩ := hrun ((cardPhases d deal s4 (4 * k + 4) rest).flatMap (qOf p) ++ q')
        ((cardPhases d deal s4 (4 * k + 4) rest).flatMap (cOf p) ++ c')
      rw [hS] at htr
      simp only [Option.some.injEq, Prod.mk.injEq] at htr
      obtain ⟨_, rfl⟩ := htr
      exact ih

/-! ## the play of a board -/
theorem play_checks (p : Seat) (b : BoardSetting) (d : Decisions) (hp : BoardPlayable b d)
    (hpo : (boardContractOf b d).isPassedOut = false) (q' c' : List Text) :
    playingChecks p { q := (playPhases b d).flatMap (qOf p) ++ q', c := (playPhases b d).flatMap (cOf p) ++ c' } := by
  cases hcc : contractOfCalls b (d.calls.map (·.1)) with
  | none => simp [boardContractOf, hcc, Contract.isPassedOut] at hpo
  | some c =>
    have hc : boardContractOf b d = c := by simp [boardContractOf, hcc]
    rw [hc] at hpo
    obtain ⟨decl, hdecl⟩ := contractOfCalls_declarer b _ c hcc hpo
    have hlen := hp c hcc hpo
    obtain ⟨bid, hbid⟩ : ∃ bid, c.finalBid = some bid := by
      cases hf : c.finalBid with
      | none => simp [Contract.isPassedOut, hf] at hpo
      | some bid => exact ⟨bid, rfl⟩
    let s0 : PState :=
        { trump := bidDenom bid, declarer := decl, dummy := decl.partner, leader := decl.left,
          active := decl.left, trick := [], trickNum := 1, history := [], used := [], takenNS := 0,
          takenEW := 0 }
    have hplay : playPhases b d = Phase.playStart decl.formal :: cardPhases decl b.deal s0 (4 * 0) d.cards := by
      simp [playPhases, hc, PState.init, hbid, hdecl, s0]
    rw [hplay]
    have ht := tricks_checks p decl b.deal q' c' 13 d.cards s0 0 hlen rfl rfl rfl (by omega)
    intro dn i1 declarer hg hsf
    simp only [List.flatMap_cons, qOf_playStart, cOf_playStart, List.cons_append, List.nil_append, getQ_cons,
      Option.some.injEq, Prod.mk.injEq] at hg
    obtain ⟨rfl, rfl⟩ := hg
    rw [seatOfFormal_formal] at hsf
    cases hsf
    exact ht

end Bridge.Translated.SeatD
