import BridgeVerif.Translated.HandsPbnLemmasB
/-! Translated `Hands.convert_pbn` (hands.py) = model, part C: the classmethod at any sufficient fuel — `DEAL_PATTERN` does not
match (`Exception`); it matches: `Player[match.group(1)]` exists, the loop `for i in range(2, 6)` unrolled, by cases on the
first seat and on which field (if any) `_hand_parser` rejects. -/
namespace Bridge.Translated.HandsPbn
open Bridge Bridge.Py Bridge.Generated.PyCore Bridge.Translated Bridge.RegexHands

theorem hp_mth_convert_pbn : P.method? classDepth n_Hands n_convert_pbn = some (n_Hands, m_Hands_convert_pbn) := rfl

/-- `match.group(i)` on a match object with six texts -/
theorem hp_group_call6 (f : Nat) (x0 x1 x2 x3 x4 x5 : Val) (i : Int) (k : Nat) (h : normIndex 6 i = some k) :
    callF (mkRec P (f+6)) m__Match_group [.obj n__Match [(n_texts, .tuple [x0, x1, x2, x3, x4, x5])], .int i]
      = .ok ([x0, x1, x2, x3, x4, x5].getD k .none, .obj n__Match [(n_texts, .tuple [x0, x1, x2, x3, x4, x5])]) := by
  rw [callF_def]
  simp only [m__Match_group, bindParams, Option.map]
  ppsimp [index_tuple, h]

theorem hp_norm6 : normIndex 6 1 = some 1 ∧ normIndex 6 2 = some 2 ∧ normIndex 6 3 = some 3 ∧ normIndex 6 4 = some 4
    ∧ normIndex 6 5 = some 5 := by decide

theorem hp_range26 (r : Rec) : builtinF r P .range [.int 2, .int 6] = .ok (.tuple [.int 2, .int 3, .int 4, .int 5]) := rfl

theorem hp_enc_seat (p : Seat) : Val.enum n_Player (p.value : Int) = encSeat p := rfl
theorem hp_enum_N : Val.enum n_Player 1 = encSeat .N := rfl
theorem hp_enum_E : Val.enum n_Player 2 = encSeat .E := rfl
theorem hp_enum_S : Val.enum n_Player 3 = encSeat .S := rfl
theorem hp_enum_W : Val.enum n_Player 4 = encSeat .W := rfl

/-- `DEAL_PATTERN` does not match: `Exception` -/
theorem hp_convert_pbn_call_nomatch (hf : HandsRegexFacts) (f : Nat) (cv : Val) (s : List Char) (h : dealFields? s = none) :
    callF (mkRec P (f+50)) m_Hands_convert_pbn [cv, .str s] = .error (.exc K.Exception) := by
  have hfact := hf.match_deal s
  rw [h] at hfact
  rw [callF_def]
  simp only [m_Hands_convert_pbn, bindParams, Option.map]
  ppsimp [hp_glob_deal_pattern, hp_reMatch_none _ _ _ hfact, hp_truthy_none]

/-- `DEAL_PATTERN` matches with the first seat `c` and the fields `h0..h3` -/
theorem hp_convert_pbn_call_match (hf : HandsRegexFacts) (f : Nat) (cv : Val) (s : List Char) (c : Char)
    (h0 h1 h2 h3 : List Char) (first : Seat) (h : dealFields? s = some [[c], h0, h1, h2, h3])
    (hfirst : seatOfName? [c] = some first) (n0 : '\n' ∉ h0) (n1 : '\n' ∉ h1) (n2 : '\n' ∉ h2) (n3 : '\n' ∉ h3) :
    callF (mkRec P (f+50)) m_Hands_convert_pbn [cv, .str s]
      = match pyHandParser? h0, pyHandParser? h1, pyHandParser? h2, pyHandParser? h3 with
        | some l0, some l1, some l2, some l3 => .ok (encHands (assemble first l0 l1 l2 l3), cv)
        | _, _, _, _ => .error (.exc K.Exception) := by
  have hfact := hf.match_deal s
  rw [h] at hfact
  obtain ⟨g0, hre⟩ := hp_reMatch_some _ _ _ hfact
  simp only [List.map_cons, List.map_nil] at hre
  have hmem := jp_member_seat _ _ hfirst
  have hc0 := fun g => hp_hand_parser_call hf g h0 n0
  have hc1 := fun g => hp_hand_parser_call hf g h1 n1
  have hc2 := fun g => hp_hand_parser_call hf g h2 n2
  have hc3 := fun g => hp_hand_parser_call hf g h3 n3
  rw [callF_def]
  simp only [m_Hands_convert_pbn, bindParams, Option.map]
  cases e0 : pyHandParser? h0 with
  | none =>
    cases first <;>
    ppsimp [hp_glob_deal_pattern, hre, hp_truthy_obj, hp_mth_group, hp_group_call6 _ _ _ _ _ _ _ _ _ hp_norm6.1,
      hp_group_call6 _ _ _ _ _ _ _ _ _ hp_norm6.2.1, List.getD_cons_succ, List.getD_cons_zero, jp_cls_Player, hmem,
      hp_enc_seat, hp_enum_N, hp_enum_E, hp_enum_S, hp_enum_W, getAttr_next, Seat.left, List.map_nil, hp_range26, iterItems_tuple, forF, hp_mth_hand_parser, hc0, e0]
  | some l0 =>
   cases e1 : pyHandParser? h1 with
   | none =>
    cases first <;>
    ppsimp [hp_glob_deal_pattern, hre, hp_truthy_obj, hp_mth_group, hp_group_call6 _ _ _ _ _ _ _ _ _ hp_norm6.1,
      hp_group_call6 _ _ _ _ _ _ _ _ _ hp_norm6.2.1, hp_group_call6 _ _ _ _ _ _ _ _ _ hp_norm6.2.2.1,
      List.getD_cons_succ, List.getD_cons_zero, jp_cls_Player, hmem,
      hp_enc_seat, hp_enum_N, hp_enum_E, hp_enum_S, hp_enum_W, getAttr_next, Seat.left, List.map_nil, hp_range26, iterItems_tuple, forF, hp_mth_hand_parser, hc0, e0, hc1, e1, updateD, Val.beq]
   | some l1 =>
    cases e2 : pyHandParser? h2 with
    | none =>
      cases first <;>
      ppsimp [hp_glob_deal_pattern, hre, hp_truthy_obj, hp_mth_group, hp_group_call6 _ _ _ _ _ _ _ _ _ hp_norm6.1,
        hp_group_call6 _ _ _ _ _ _ _ _ _ hp_norm6.2.1, hp_group_call6 _ _ _ _ _ _ _ _ _ hp_norm6.2.2.1,
        hp_group_call6 _ _ _ _ _ _ _ _ _ hp_norm6.2.2.2.1,
        List.getD_cons_succ, List.getD_cons_zero, jp_cls_Player, hmem,
        hp_enc_seat, hp_enum_N, hp_enum_E, hp_enum_S, hp_enum_W, getAttr_next, Seat.left, List.map_nil, hp_range26, iterItems_tuple, forF, hp_mth_hand_parser, hc0, e0, hc1, e1, hc2, e2, updateD, Val.beq]
    | some l2 =>
     cases e3 : pyHandParser? h3 with
     | none =>
      cases first <;>
      ppsimp [hp_glob_deal_pattern, hre, hp_truthy_obj, hp_mth_group, hp_group_call6 _ _ _ _ _ _ _ _ _ hp_norm6.1,
        hp_group_call6 _ _ _ _ _ _ _ _ _ hp_norm6.2.1, hp_group_call6 _ _ _ _ _ _ _ _ _ hp_norm6.2.2.1,
        hp_group_call6 _ _ _ _ _ _ _ _ _ hp_norm6.2.2.2.1, hp_group_call6 _ _ _ _ _ _ _ _ _ hp_norm6.2.2.2.2,
        List.getD_cons_succ, List.getD_cons_zero, jp_cls_Player, hmem,
        hp_enc_seat, hp_enum_N, hp_enum_E, hp_enum_S, hp_enum_W, getAttr_next, Seat.left, List.map_nil, hp_range26, iterItems_tuple, forF, hp_mth_hand_parser, hc0, e0, hc1, e1, hc2, e2, hc3, e3, updateD,
        Val.beq]
     | some l3 =>
      cases first <;>
      · ppsimp [hp_glob_deal_pattern, hre, hp_truthy_obj, hp_mth_group, hp_group_call6 _ _ _ _ _ _ _ _ _ hp_norm6.1,
          hp_group_call6 _ _ _ _ _ _ _ _ _ hp_norm6.2.1, hp_group_call6 _ _ _ _ _ _ _ _ _ hp_norm6.2.2.1,
          hp_group_call6 _ _ _ _ _ _ _ _ _ hp_norm6.2.2.2.1, hp_group_call6 _ _ _ _ _ _ _ _ _ hp_norm6.2.2.2.2,
          List.getD_cons_succ, List.getD_cons_zero, jp_cls_Player, hmem,
          hp_enc_seat, hp_enum_N, hp_enum_E, hp_enum_S, hp_enum_W, getAttr_next, Seat.left, List.map_nil, hp_range26, iterItems_tuple, forF, hp_mth_hand_parser, hc0, e0, hc1, e1, hc2, e2, hc3, e3, updateD,
          Val.beq, lookupD, hd_construct_hands]
        rfl

end Bridge.Translated.HandsPbn
