import BridgeVerif.Translated.ThreadsSeatD
import BridgeVerif.Translated.ConnectInfo
import BridgeVerif.Props.C19
import BridgeVerif.Lemmas.RegexConnectB
/-!
# The capstone of the seat thread WITHOUT the hypothesis `hparse`

`SeatD.translated_seat_thread_is_session_program_of_ready` assumes that the translated
`PlayerThread.parse_connection_info` reads the request text as `(team, p, 18)`.  Here that hypothesis is PROVED for the
requests the protocol prescribes — `connectMsg team seat v` (Model/Msg.lean; with `v = 18` the text the translated
client's `_connect` sends, `ct_connectMsg_18`), `seat` any letter-case variant of the seat's name, `team` any name
without `"`, line feed, carriage return (`NameOK`, the hypothesis of `C19.connect_round_trip`) whose characters are in the
class `RegexConnect.agree` (every ASCII character is; see Lemmas/RegexConnect.lean) — by composing

* `C19.connect_round_trip` (the model's parser reads the model's builder back),
* `ConnectInfo.parse_connection_info_ok` (the translated method = the model's parser, through the regex engine).
-/
set_option maxRecDepth 4000
namespace Bridge.Translated.SeatE
open Bridge Bridge.Py Bridge.Generated.PyCore Bridge.RegexConnect
open Bridge.Translated.SeatB (encSeatThread0 encTable threadName optText)
open Bridge.Translated.SeatC (seatingOps advBoards)

theorem agree_of_digit (c : Char) (h : Bridge.isDigit c = true) : agree c = true := by
  apply agree_ascii
  simp only [Bridge.isDigit, decide_eq_true_eq, Char.le_def, UInt32.le_iff_toNat_le] at h
  have : c.toNat = c.val.toNat := rfl
  have h2 := h.2
  have e : ('9' : Char).val.toNat = 57 := rfl
  omega

theorem agree_lit (s : String) (h : s.toList.all agree = true) : ∀ x ∈ s.toList, agree x = true :=
  fun x hx => List.all_eq_true.mp h x hx

/-- every character of a protocol request is in the class when those of the team and seat texts are -/
theorem connectMsg_agree (team seat : Str) (v : Nat) (ht : ∀ x ∈ team, agree x = true) (hs : ∀ x ∈ seat, agree x = true) :
    ∀ x ∈ connectMsg team seat v, agree x = true := by
  intro x hx
  unfold connectMsg at hx
  simp only [List.mem_append] at hx
  rcases hx with (((((hx | hx) | hx) | hx) | hx) | hx)
  · exact agree_lit "Connecting \"" (by decide +kernel) x hx
  · exact ht x hx
  · exact agree_lit "\" as " (by decide +kernel) x hx
  · exact hs x hx
  · exact agree_lit " using protocol version " (by decide +kernel) x hx
  · exact agree_of_digit x (natStr_digits v x hx)

theorem formal_agree (p : Seat) : ∀ x ∈ p.formal, agree x = true := by
  intro x hx
  have : p.formal.all agree = true := by cases p <;> decide +kernel
  exact List.all_eq_true.mp this x hx

/-- THE HYPOTHESIS `hparse`, PROVED: the translated `parse_connection_info` reads a protocol request (seat name in any
letter case, any protocol version) as `(team, p, v)`, at every fuel ≥ 31 -/
theorem connect_request_parses_variant (team : Str) (ht : NameOK team) (hta : ∀ x ∈ team, agree x = true) (p : Seat)
    (seat : Str) (hs : CaseVariant seat p.formal) (hsa : ∀ x ∈ seat, agree x = true) (v : Nat) :
    ∀ g, 31 ≤ g → callFn P g m_PlayerThread_parse_connection_info [.str (connectMsg team seat v)]
      = .ok (.tuple [.str team, encSeat p, .int v], .str (connectMsg team seat v)) :=
  fun g hg => ConnectInfo.parse_connection_info_ok _ (connectMsg_agree team seat v hta hsa) team p v
    (C19.connect_round_trip team ht p seat hs v) g hg

/-- … for the request `Connecting "<team>" as <Seat> using protocol version 18` -/
theorem connect_request_parses (team : Str) (ht : NameOK team) (hta : ∀ x ∈ team, agree x = true) (p : Seat) :
    ∀ g, 31 ≤ g → callFn P g m_PlayerThread_parse_connection_info [.str (connectMsg team p.formal 18)]
      = .ok (.tuple [.str team, encSeat p, .int 18], .str (connectMsg team p.formal 18)) :=
  connect_request_parses_variant team ht hta p p.formal (show CaseVariant p.formal p.formal from rfl) (formal_agree p) 18

/-- … in particular for an ASCII team name -/
theorem connect_request_parses_ascii (team : Str) (ht : NameOK team) (hta : ∀ x ∈ team, x.toNat < 128) (p : Seat) :
    ∀ g, 31 ≤ g → callFn P g m_PlayerThread_parse_connection_info [.str (connectMsg team p.formal 18)]
      = .ok (.tuple [.str team, encSeat p, .int 18], .str (connectMsg team p.formal 18)) :=
  connect_request_parses team ht (fun x hx => agree_ascii x (hta x hx)) p

/-- … for a team name of ANY characters but `"`, LF, CR and the non-ASCII Unicode decimal digits
(`RegexConnect.agree_of_not_digit`: the class `agree` holds of every other character) -/
theorem connect_request_parses_nodigit (team : Str) (ht : NameOK team)
    (hta : ∀ x ∈ team, x.toNat < 128 ∨ Re.isDigit x = false) (p : Seat) :
    ∀ g, 31 ≤ g → callFn P g m_PlayerThread_parse_connection_info [.str (connectMsg team p.formal 18)]
      = .ok (.tuple [.str team, encSeat p, .int 18], .str (connectMsg team p.formal 18)) :=
  connect_request_parses team ht (fun x hx => by
    rcases hta x hx with h | h
    · exact agree_ascii x h
    · exact agree_of_not_digit x h) p

/-- THE CAPSTONE, WITHOUT `hparse`.  A playable scenario `sc` with at least one board, a seat `p`; the connection
delivers the protocol request `Connecting "<team>" as <seat> using protocol version 18` (`seat` = the seat's name in any
letter case; `team` without `"`, LF, CR and with characters in the class `agree`, e.g. ASCII), then `ready` (any text
passing the check against `<p> ready for teams`), then EXACTLY what the session model's client of `p` sends; the queue
delivers EXACTLY what the session model's main thread sends to `p`; `admitReq` seats the request on `t`; the table after the
seating barrier has `sc.nsName` at North and `sc.ewName` at East.  Then the generated `SeatThread.run` returns `None`, has
consumed both streams entirely, and the world has recorded, after the five admission operations, EXACTLY the rendering of
the session program `sessionProg sc (.seat p)`. -/
theorem translated_seat_thread_is_session_program_protocol (sc : Scenario) (h : sc.boards ≠ [])
    (hw : ScenarioPlayable sc) (p : Seat) (f : Nat) (seat ready : Str) (out : List Val) (t : Table)
    (tables : List Table) (team : Str)
    (ht : NameOK team) (hta : ∀ x ∈ team, agree x = true)
    (hs : CaseVariant seat p.formal) (hsa : ∀ x ∈ seat, agree x = true)
    (hf : 31 + (sendsOn (Chan.m2t p) (sessionProg sc .main)).length + 113 ≤ f)
    (hv : (admitReq t ⟨team, p, 18⟩).2 = .seated)
    (hr : SeatB.passesCheck (p.formal ++ " ready for teams".toList) ready)
    (hN : optText ((tables.headD (admitReq t ⟨team, p, 18⟩).1) .N) = sc.nsName)
    (hE : optText ((tables.headD (admitReq t ⟨team, p, 18⟩).1) .E) = sc.ewName) :
    ∃ ops, encSeatActs p (sessionProg sc (.seat p)) = some ops ∧
      callFn P f m_SeatThread_run
          [encSeatThread0 (encSeatWorld p (sendsOn (Chan.m2t p) (sessionProg sc .main))
            (connectMsg team seat 18 :: ready :: sendsOn (Chan.c2s p) (sessionProg sc (.client p))) out (encTable t)
            (tables.map encTable))]
        = .ok (.none, encSeatThread p (encSeatWorld p [] []
            (out ++ seatingOps p team (replyText ⟨team, p, 18⟩ t .seated) ++ ops)
            (advBoards sc.boards.length
              (encTable (tables.headD (admitReq t ⟨team, p, 18⟩).1), tables.tail.map encTable)).1
            (advBoards sc.boards.length
              (encTable (tables.headD (admitReq t ⟨team, p, 18⟩).1), tables.tail.map encTable)).2)
            [(K.name, .str (threadName p team))]) :=
  SeatD.translated_seat_thread_is_session_program_of_ready sc h hw p 31 f (connectMsg team seat 18) ready out t tables team
    (.str (connectMsg team seat 18)) hf (connect_request_parses_variant team ht hta p seat hs hsa 18) hv hr hN hE

/-- the capstone for an ASCII team name, the seat named as the protocol writes it, and the conforming admission text
`<p> ready for teams` -/
theorem translated_seat_thread_is_session_program_ascii (sc : Scenario) (h : sc.boards ≠ [])
    (hw : ScenarioPlayable sc) (p : Seat) (f : Nat) (out : List Val) (t : Table) (tables : List Table) (team : Str)
    (ht : NameOK team) (hta : ∀ x ∈ team, x.toNat < 128)
    (hf : 31 + (sendsOn (Chan.m2t p) (sessionProg sc .main)).length + 113 ≤ f)
    (hv : (admitReq t ⟨team, p, 18⟩).2 = .seated)
    (hN : optText ((tables.headD (admitReq t ⟨team, p, 18⟩).1) .N) = sc.nsName)
    (hE : optText ((tables.headD (admitReq t ⟨team, p, 18⟩).1) .E) = sc.ewName) :
    ∃ ops, encSeatActs p (sessionProg sc (.seat p)) = some ops ∧
      callFn P f m_SeatThread_run
          [encSeatThread0 (encSeatWorld p (sendsOn (Chan.m2t p) (sessionProg sc .main))
            (connectMsg team p.formal 18 :: (p.formal ++ " ready for teams".toList) ::
              sendsOn (Chan.c2s p) (sessionProg sc (.client p))) out (encTable t) (tables.map encTable))]
        = .ok (.none, encSeatThread p (encSeatWorld p [] []
            (out ++ seatingOps p team (replyText ⟨team, p, 18⟩ t .seated) ++ ops)
            (advBoards sc.boards.length
              (encTable (tables.headD (admitReq t ⟨team, p, 18⟩).1), tables.tail.map encTable)).1
            (advBoards sc.boards.length
              (encTable (tables.headD (admitReq t ⟨team, p, 18⟩).1), tables.tail.map encTable)).2)
            [(K.name, .str (threadName p team))]) :=
  translated_seat_thread_is_session_program_protocol sc h hw p f p.formal _ out t tables team ht
    (fun x hx => agree_ascii x (hta x hx)) (show CaseVariant p.formal p.formal from rfl) (formal_agree p) hf hv (SeatD.ready_teams_passes p) hN hE

/-! ## non-vacuity: team Alpha, North, on the one-board scenario of Translated/ThreadsSeatD.lean -/

theorem alpha_ok : NameOK "Alpha".toList := by unfold NameOK; decide +kernel
theorem alpha_ascii : ∀ x ∈ "Alpha".toList, x.toNat < 128 := by decide +kernel

/-- the hypothesis `hparse` of the capstone, for North of team Alpha -/
example : ∀ g, 31 ≤ g → callFn P g m_PlayerThread_parse_connection_info
      [.str "Connecting \"Alpha\" as North using protocol version 18".toList]
    = .ok (.tuple [.str "Alpha".toList, encSeat .N, .int 18],
        .str "Connecting \"Alpha\" as North using protocol version 18".toList) := by
  have e : connectMsg "Alpha".toList Seat.N.formal 18 = "Connecting \"Alpha\" as North using protocol version 18".toList := by
    decide +kernel
  rw [← e]
  exact connect_request_parses_ascii _ alpha_ok alpha_ascii .N

/-- a team name outside ASCII -/
example : ∀ g, 31 ≤ g → callFn P g m_PlayerThread_parse_connection_info
      [.str (connectMsg "Équipe Ålpha ſK".toList Seat.W.formal 18)]
    = .ok (.tuple [.str "Équipe Ålpha ſK".toList, encSeat .W, .int 18],
        .str (connectMsg "Équipe Ålpha ſK".toList Seat.W.formal 18)) :=
  connect_request_parses_nodigit _ (by unfold NameOK; decide +kernel) (by decide +kernel) .W

/-- North connects with the protocol's request to the table where South (Alpha) and East (Beta) sit: the translated
`run()` performs the five admission operations and then exactly the session program of `Tid.seat .N` -/
example : ∀ f, 31 + (sendsOn (Chan.m2t .N) (sessionProg SeatD.exSc .main)).length + 113 ≤ f →
    ∃ ops, encSeatActs .N (sessionProg SeatD.exSc (.seat .N)) = some ops ∧
      callFn P f m_SeatThread_run
          [encSeatThread0 (encSeatWorld .N (sendsOn (Chan.m2t .N) (sessionProg SeatD.exSc .main))
            (connectMsg "Alpha".toList Seat.N.formal 18 :: (Seat.N.formal ++ " ready for teams".toList) ::
              sendsOn (Chan.c2s .N) (sessionProg SeatD.exSc (.client .N)))
            [] (encTable SeatB.exTable) ([SeatB.exFull].map encTable))]
        = .ok (.none, encSeatThread .N (encSeatWorld .N [] []
            ([] ++ seatingOps .N "Alpha".toList (replyText ⟨"Alpha".toList, .N, 18⟩ SeatB.exTable .seated) ++ ops)
            (advBoards SeatD.exSc.boards.length
              (encTable ([SeatB.exFull].headD (admitReq SeatB.exTable ⟨"Alpha".toList, .N, 18⟩).1),
              [SeatB.exFull].tail.map encTable)).1
            (advBoards SeatD.exSc.boards.length
              (encTable ([SeatB.exFull].headD (admitReq SeatB.exTable ⟨"Alpha".toList, .N, 18⟩).1),
              [SeatB.exFull].tail.map encTable)).2)
            [(K.name, .str (threadName .N "Alpha".toList))]) := by
  intro f hf
  exact translated_seat_thread_is_session_program_ascii SeatD.exSc SeatD.exSc_boards SeatD.exSc_playable .N f []
    SeatB.exTable [SeatB.exFull] "Alpha".toList alpha_ok alpha_ascii hf (by decide +kernel) rfl rfl

end Bridge.Translated.SeatE
