import BridgeVerif.Translated.ThreadsSeatBLemmasI
/-! Translated `SeatThread._playing_phase`: the inner loop is one trick of `seatTrickR`, the outer loop is
`seatPlayingR.tricks` -/
namespace Bridge.Translated.SeatB
open Bridge Bridge.Py Bridge.Generated.PyCore

set_option maxRecDepth 4000

/-- `PE` without the loop counter `i` (not yet bound before the first trick) -/
structure PE1 (env : Env) (selfv : Val) (decl : Seat) (k : Nat) (active : Seat) : Prop where
  hself : lookup env K.self = some selfv
  hdecl : lookup env n_declarer = some (encSeat decl)
  hdummy : lookup env n_dummy = some (encSeat decl.partner)
  hk : lookup env n_trick_num = some (.int k)
  hact : lookup env n_active_player = some (encSeat active)

/-- … and without `trick_num`, `active_player` (what the outer loop relies on) -/
structure PE2 (env : Env) (selfv : Val) (decl : Seat) : Prop where
  hself : lookup env K.self = some selfv
  hdecl : lookup env n_declarer = some (encSeat decl)
  hdummy : lookup env n_dummy = some (encSeat decl.partner)

theorem PE.toPE1 {env selfv decl k active idx} (h : PE env selfv decl k active idx) : PE1 env selfv decl k active :=
  ⟨h.hself, h.hdecl, h.hdummy, h.hk, h.hact⟩
theorem PE1.toPE2 {env selfv decl k active} (h : PE1 env selfv decl k active) : PE2 env selfv decl :=
  ⟨h.hself, h.hdecl, h.hdummy⟩
theorem PE1.bind_i {env selfv decl k active} (h : PE1 env selfv decl k active) (idx : Nat) :
    PE (update env n_i (.int idx)) selfv decl k active idx := by
  obtain ⟨h1, h2, h3, h4, h5⟩ := h
  refine ⟨?_, ?_, ?_, ?_, ?_, ?_⟩ <;>
    simp (config := { decide := true }) only [lookup_update_same, lookup_update_ne, ne_eq, h1, h2, h3, h4, h5]

/-- the values `a, a+1, …` (`n` of them) a `range` yields -/
def intsFrom : Nat → Nat → List Val
  | _, 0 => []
  | a, n + 1 => .int a :: intsFrom (a + 1) n

/-- THE INNER LOOP `for i in range(4)` from position `idx` is `seatTrickR … idx` -/
theorem sb_trick_loop (f : Nat) (p decl : Seat) (k : Nat) (tb : Val) (tbs : List Val) (extra : List (Id × Val)) :
    ∀ (n idx : Nat) (active : Seat) (env : Env) (i i' : SeatIn) (out : List Val) (acts : SeatActs),
      idx + n = 4 → PE1 env (seatSelf p i out tb tbs extra) decl k active →
      seatTrickR p decl (decide (k = 1)) idx active i = some (acts, i') →
      trickChecks p decl k n idx active i →
      ∃ env' ops, forF (mkRec P (f+25)) [n_i] ppInnerBody env (intsFrom idx n) = .ok (env', .next) ∧
        encSeatActs p acts = some ops ∧ PE2 env' (seatSelf p i' (out ++ ops) tb tbs extra) decl := by
  intro n
  induction n with
  | zero =>
    intro idx active env i i' out acts hn he hm _
    have : idx = 4 := by omega
    subst this
    rw [seatTrickR_four] at hm
    simp only [Option.some.injEq, Prod.mk.injEq] at hm
    obtain ⟨rfl, rfl⟩ := hm
    exact ⟨env, [], rfl, rfl, by simpa using he.toPE2⟩
  | succ n ih =>
    intro idx active env i i' out acts hn he hm hc
    rw [seatTrickR_lt _ _ _ _ (by omega)] at hm
    obtain ⟨hcm, hc2⟩ := hc
    cases h1 : cardMainR p decl idx active i with
    | none => simp only [h1, bind, Option.bind, reduceCtorEq] at hm
    | some xi =>
      obtain ⟨x, i1⟩ := xi
      obtain ⟨hco, hc3⟩ := hc2 x i1 h1
      cases h2 : cardOpenR p decl (decide (k = 1)) idx i1 with
      | none => simp only [h1, h2, bind, Option.bind, reduceCtorEq] at hm
      | some yi =>
        obtain ⟨y, i2⟩ := yi
        cases h3 : seatTrickR p decl (decide (k = 1)) (idx + 1) active.left i2 with
        | none => simp only [h1, h2, h3, bind, Option.bind, reduceCtorEq] at hm
        | some ri =>
          obtain ⟨rest, i3⟩ := ri
          simp only [h1, h2, h3, bind, Option.bind, pure, Option.some.injEq, Prod.mk.injEq] at hm
          obtain ⟨rfl, rfl⟩ := hm
          obtain ⟨env2, fl, ops, hx, hfl, eo, he2⟩ :=
            sb_card f p decl active k idx _ i i1 i2 x y out tb tbs extra (he.bind_i idx) h1 hcm h2 hco
          obtain ⟨env3, ops', hx', eo', he3⟩ :=
            ih (idx + 1) active.left env2 i2 i3 (out ++ ops) rest (by omega) (by
              obtain ⟨a1, a2, a3, a4, a5, _⟩ := he2
              exact ⟨a1, a2, a3, a4, a5⟩) h3 (hc3 y i2 h2)
          refine ⟨env3, ops ++ ops', ?_, encSeatActs_append p _ _ _ _ eo eo', by simpa [List.append_assoc] using he3⟩
          simp only [intsFrom, forF, pure_eq, bind_ok, exec_succ, hx]
          rcases hfl with rfl | rfl <;> exact hx'

/-! ## the outer loop -/
def ppT0 : Stmt := ppOuterBody.getD 0 .pass
def ppT1 : Stmt := ppOuterBody.getD 1 .pass
def ppT2 : Stmt := ppOuterBody.getD 2 .pass
theorem ppOuterBody_eq : ppOuterBody = [ppT0, ppT1] ++ [ppT2] := rfl

theorem sb_execF_append (r : Rec) (env : Env) (a b : List Stmt) (env1 : Env)
    (h : execF r P env a = .ok (env1, .next)) : execF r P env (a ++ b) = execF r P env1 b := by
  induction a generalizing env with
  | nil => simp only [execF, pure_eq, Except.ok.injEq, Prod.mk.injEq, and_true] at h; subst h; rfl
  | cons s ss ih =>
    simp only [List.cons_append, execF] at h ⊢
    cases hs : execStmtF r P env s with
    | error e => rw [hs] at h; cases h
    | ok x =>
      obtain ⟨e, fl⟩ := x
      rw [hs] at h
      simp only [bind_ok] at h ⊢
      cases fl with
      | next => exact ih e h
      | ret v => simp only [pure_eq, Except.ok.injEq, Prod.mk.injEq, reduceCtorEq, and_false] at h
      | brk => simp only [pure_eq, Except.ok.injEq, Prod.mk.injEq, reduceCtorEq, and_false] at h
      | cont => simp only [pure_eq, Except.ok.injEq, Prod.mk.injEq, reduceCtorEq, and_false] at h

theorem sb_for_i (g : Nat) (env : Env) :
    execStmtF (mkRec P (g+2)) P env ppT2 = forF (mkRec P (g+2)) [n_i] ppInnerBody env (intsFrom 0 4) := rfl

end Bridge.Translated.SeatB
