import BridgeVerif.Translated.ThreadsMainCLemmasB
/-! Translated `MainThread.run`: the body of the board loop, second part (the play or not, the record, the `break` /
the four `next board` puts) -/
set_option maxRecDepth 4000
set_option linter.unusedSimpArgs false
namespace Bridge.Translated.MainC
open Bridge Bridge.Py Bridge.Generated.PyCore Bridge.Translated.MainA Bridge.Translated.MainB

/-- the keyword arguments handed to `w_emit('write', {…})`, in the order of the code -/
def recDict (bid ew ns dealer cards bh cv ph tt scores dda : Val) : Val :=
  .dict [(.str ['b', 'o', 'a', 'r', 'd', '_', 'i', 'd'], bid),
    (.str ['w', 'e', 's', 't', '_', 'p', 'l', 'a', 'y', 'e', 'r'], ew),
    (.str ['n', 'o', 'r', 't', 'h', '_', 'p', 'l', 'a', 'y', 'e', 'r'], ns),
    (.str ['e', 'a', 's', 't', '_', 'p', 'l', 'a', 'y', 'e', 'r'], ew),
    (.str ['s', 'o', 'u', 't', 'h', '_', 'p', 'l', 'a', 'y', 'e', 'r'], ns),
    (.str ['d', 'e', 'a', 'l', 'e', 'r'], dealer),
    (.str ['d', 'e', 'a', 'l'], cards),
    (.str ['s', 'c', 'o', 'r', 'i', 'n', 'g'], .obj n_Scoring [(K.value, .str ['I', 'M', 'P']), (K.name, .str ['I', 'M', 'P'])]),
    (.str ['b', 'i', 'd', '_', 'h', 'i', 's', 't', 'o', 'r', 'y'], bh),
    (.str ['c', 'o', 'n', 't', 'r', 'a', 'c', 't'], cv),
    (.str ['p', 'l', 'a', 'y', '_', 'h', 'i', 's', 't', 'o', 'r', 'y'], ph),
    (.str ['t', 'a', 'k', 'e', 'n', '_', 't', 'r', 'i', 'c', 'k', '_', 'n', 'u', 'm'], tt),
    (.str ['s', 'c', 'o', 'r', 'e', 's'], scores),
    (.str ['d', 'd', 'a'], dda)]

/-- the `scores` dictionary the code builds: `{Pair.NS: 0, Pair.EW: 0}` without a declarer, else
`{declarer.pair: score, declarer.pair.opponent_pair: -score}` -/
def scoresVal (od : Option Seat) (score : Int) : Val :=
  match od with
  | none => .dict [(encSide .NS, .int 0), (encSide .EW, .int 0)]
  | some d => .dict [(encSide d.side, .int score), (encSide d.side.opp, .int (-score))]

def opEmitWrite (v : Val) : Val := .tuple [vstr "emit", vstr "write", v]

theorem mc_getAttr_opp (f : Nat) (s : Side) :
    getAttrF (mkRec P (f+12)) P (encSide s) n_opponent_pair = .ok (encSide s.opp) := by
  cases s <;> rfl

theorem mc_beq_enum (c d : Id) (a b : Int) : (Val.enum c a).beq (.enum d b) = (c == d && a == b) := by simp [Val.beq]

theorem mc_beq_side_opp (s : Side) : (encSide s).beq (encSide s.opp) = false := by
  cases s <;> simp [encSide, Val.beq, Side.opp, Side.value]

theorem mc_findFunc_calc_score : findFunc P.funcs n_calc_score = some f_calc_score := rfl

/-- the variables the second part writes -/
def tailVars : List Id := [K.self, n_play_history, n_taken_trick_num, n_score, n__t4, n_declarer, n_scores, n_player]

/-! ### the play, or not -/

theorem mc_play_passed_out (f : Nat) (env : Env) (c : Contract) (hpo : c.isPassedOut = true)
    (hc : lookup env n_contract = some (encContract c)) :
    ∃ env', execStmtF (mkRec P (f + 100)) P env mcPlayIte = .ok (env', .next) ∧
      lookup env' n_play_history = some .none ∧ lookup env' n_taken_trick_num = some .none ∧
      lookup env' n_score = some (.int 0) ∧ Frame [n_play_history, n_taken_trick_num, n_score] env env' := by
  refine ⟨?_, ?_, ?_, ?_, ?_, ?_⟩
  rotate_left
  · simp only [mcPlayIte, mcBoardBody, mcBoardLoop, m_MainThread_run, List.getD_cons_zero, List.getD_cons_succ]
    mbsimp [hc, mt_ipo_meth, hpo]
    rfl
  · lk_tac
  · lk_tac
  · lk_tac
  · frame_tac'

theorem mc_play_played (f0 : Nat) (env : Env) (c : Contract) (hpo : c.isPassedOut = false)
    (i i2 : MainIn) (out : List Val) (table : Val) (tables : List Val) (more : List (Val × Val)) (bs : Val)
    (cards ph : Val) (t score : Int) (playOps : List Val) (x : Val)
    (hself : lookup env K.self = some (encMainThread (encMainWorld i out table tables more) bs))
    (hc : lookup env n_contract = some (encContract c))
    (hcards : lookup env n_cards = some cards)
    (hplay : ∀ j, callF (mkRec P (f0 + j)) m_MainThread_playing_phase
        [encMainThread (encMainWorld i out table tables more) bs, encContract c, cards]
      = .ok (.tuple [ph, .int t], encMainThread (encMainWorld i2 (out ++ playOps) table tables more) bs))
    (hscore : ∀ j, callF (mkRec P (f0 + j)) f_calc_score [encContract c, .int t] = .ok (.int score, x)) :
    ∃ env', execStmtF (mkRec P (f0 + 100)) P env mcPlayIte = .ok (env', .next) ∧
      lookup env' K.self = some (encMainThread (encMainWorld i2 (out ++ playOps) table tables more) bs) ∧
      lookup env' n_play_history = some ph ∧ lookup env' n_taken_trick_num = some (.int t) ∧
      lookup env' n_score = some (.int score) ∧ Frame tailVars env env' := by
  simp only [encMainThread] at hself hplay ⊢
  refine ⟨?_, ?_, ?_, ?_, ?_, ?_, ?_⟩
  rotate_left
  · simp only [mcPlayIte, mcBoardBody, mcBoardLoop, m_MainThread_run, List.getD_cons_zero, List.getD_cons_succ]
    mbsimp [hself, hc, hcards, mt_ipo_meth, hpo, mc_mth_playing, hplay, mc_findFunc_calc_score, hscore]
    rfl
  · lk_tac
  · lk_tac
  · lk_tac
  · lk_tac
  · frame_tac'

/-! ### the record, the `break` on the last board, `next board` otherwise -/

theorem mc_tail (f : Nat) (env : Env) (c : Contract)
    (i : MainIn) (out : List Val) (table : Val) (tables : List Val) (more : List (Val × Val)) (bs : Val)
    (bid ew ns dealer cards bh ph tt dda : Val) (score : Int) (k n : Nat)
    (hself : lookup env K.self = some (encMainThread (encMainWorld i out table tables more) bs))
    (hc : lookup env n_contract = some (encContract c))
    (hbid : lookup env n_board_id = some bid)
    (hew : lookup env n_ew_team_name = some ew)
    (hns : lookup env n_ns_team_name = some ns)
    (hdealer : lookup env n_dealer = some dealer)
    (hcards : lookup env n_cards = some cards)
    (hbh : lookup env n_bid_history = some bh)
    (hph : lookup env n_play_history = some ph)
    (htt : lookup env n_taken_trick_num = some tt)
    (hscore : lookup env n_score = some (.int score))
    (hdda : lookup env n_dda = some dda)
    (hk : lookup env n_board_number = some (.int k))
    (hmax : lookup env n_max_board_num = some (.int ((n : Int) + 1))) :
    ∃ env', execF (mkRec P (f + 100)) P env mcTail = .ok (env', if k = n then .brk else .next) ∧
      lookup env' K.self = some (encMainThread (encMainWorld i
        (out ++ opEmitWrite (recDict bid ew ns dealer cards bh (encContract c) ph tt (scoresVal c.declarer score) dda) ::
          (if k = n then [] else opsPutAll MSG_NEXT)) table tables more) bs) ∧
      Frame tailVars env env' := by
  simp only [encMainThread] at hself ⊢
  have hsub : (n : Int) + 1 - 1 = n := by omega
  have hbeq : (Val.int (k : Int)).beq (.int (n : Int)) = decide (k = n) := by
    rw [beq_int, Bool.eq_iff_iff]; simp only [beq_iff_eq, decide_eq_true_eq, Int.natCast_inj]
  cases hd : c.declarer with
  | none =>
    by_cases hkn : k = n
    · subst hkn
      have hkn : k = k := rfl
      refine ⟨?_, ?_, ?_, ?_⟩
      rotate_left
      · simp only [mcTail, mcBoardBody, mcBoardLoop, m_MainThread_run, List.getD_cons_zero, List.getD_cons_succ, List.drop]
        mbsimp [hself, hc, hbid, hew, hns, hdealer, hcards, hbh, hph, htt, hscore, hdda, hk, hmax, getAttr_contract_declarer,
          hd, mc_beq_none_none, updateD, mt_beq_str, mc_beq_enum, mc_mth_w_emit, mc_w_emit_call, hsub, hbeq, hkn, decide_true, decide_false]
        rfl
      · simp only [hkn, if_true]; lk_tac
      · frame_tac'
    · refine ⟨?_, ?_, ?_, ?_⟩
      rotate_left
      · simp only [mcTail, mcBoardBody, mcBoardLoop, m_MainThread_run, List.getD_cons_zero, List.getD_cons_succ, List.drop]
        mbsimp [hself, hc, hbid, hew, hns, hdealer, hcards, hbh, hph, htt, hscore, hdda, hk, hmax, getAttr_contract_declarer,
          hd, mc_beq_none_none, updateD, mt_beq_str, mc_beq_enum, mc_mth_w_emit, mc_w_emit_call, hsub, hbeq, hkn, decide_true, decide_false]
        rfl
      · simp only [hkn, if_false]; lk_tac
      · frame_tac'
  | some d =>
    by_cases hkn : k = n
    · subst hkn
      have hkn : k = k := rfl
      refine ⟨?_, ?_, ?_, ?_⟩
      rotate_left
      · simp only [mcTail, mcBoardBody, mcBoardLoop, m_MainThread_run, List.getD_cons_zero, List.getD_cons_succ, List.drop]
        mbsimp [hself, hc, hbid, hew, hns, hdealer, hcards, hbh, hph, htt, hscore, hdda, hk, hmax, getAttr_contract_declarer,
          hd, beq_encSeat_none, getAttr_pair, mc_getAttr_opp, mc_beq_side_opp, updateD, mt_beq_str, mc_beq_enum,
          mc_mth_w_emit, mc_w_emit_call, hsub, hbeq, hkn, decide_true, decide_false]
        rfl
      · simp only [hkn, if_true]; lk_tac
      · frame_tac'
    · refine ⟨?_, ?_, ?_, ?_⟩
      rotate_left
      · simp only [mcTail, mcBoardBody, mcBoardLoop, m_MainThread_run, List.getD_cons_zero, List.getD_cons_succ, List.drop]
        mbsimp [hself, hc, hbid, hew, hns, hdealer, hcards, hbh, hph, htt, hscore, hdda, hk, hmax, getAttr_contract_declarer,
          hd, beq_encSeat_none, getAttr_pair, mc_getAttr_opp, mc_beq_side_opp, updateD, mt_beq_str, mc_beq_enum,
          mc_mth_w_emit, mc_w_emit_call, hsub, hbeq, hkn, decide_true, decide_false]
        rfl
      · simp only [hkn, if_false]; lk_tac
      · frame_tac'

end Bridge.Translated.MainC
